"""Shared record types, opaque types and external (trusted) contracts used by several properties."""
import re as _re

import z3

from pyvc.api import Any, Assoc, Bool, Dict, Int, Opaque, Opt, Rec, SeqOf, Str, TupleOf, uf
from pyvc.ex_call import external
from pyvc.ty import VBool, VOpaque, VStr, VNone, VList, VInt, VOpt, Unsupported

ViolationT = Rec("Violation", cls="src/core/types.py::Violation", pycls="src.core.types:Violation",
                 rule_id=Str, file_path=Str, line=Int, column=Int, message=Str, severity=Str, suggestion=Opt(Str))

PathT = Opaque("Path")
PatternT = Opaque("Pattern")

# ---- regular expressions: the engine is trusted; matching is an uninterpreted predicate -------------------------
re_search_i = uf("re_search_i", [Str, Str], Bool, concrete=lambda p, s: bool(_re.search(p, s, _re.IGNORECASE)))
re_search = uf("re_search", [Str, Str], Bool, concrete=lambda p, s: bool(_re.search(p, s)))
re_valid = uf("re_valid", [Str], Bool, concrete=lambda p: _compiles(p))
pat_src = uf("pat_src", [PatternT], Str, concrete=lambda p: p.pattern)


def _compiles(p):
    try:
        _re.compile(p)
        return True
    except _re.error:
        return False


compiled_i = uf("compiled_i", [Str], PatternT, concrete=lambda p: _re.compile(p, _re.IGNORECASE))
pat_search = uf("pat_search", [PatternT, Str], Bool, concrete=lambda pat, s: bool(pat.search(s)))


@external("Pattern.search")
def _pattern_search(ex, args, kwargs, lineno):
    """compiled.search(s): only the truth value is modelled (Match object vs None)."""
    pat, s = args
    f = z3.Function("uf.pat_search", PatternT.sort(), z3.StringSort(), z3.BoolSort())
    ex.ufs_used.add("pat_search")
    return VBool(f(pat.t, s.t))


# ---- pathlib: Path objects are opaque; str(path) and path.name are uninterpreted -----------------------------------
path_str = uf("path_str", [PathT], Str, concrete=lambda p: str(p))
path_name = uf("path_name", [PathT], Str, concrete=lambda p: p.name)


@external("Path.@name")
def _path_name(ex, args, kwargs, lineno):
    g = z3.Function("uf.path_name", PathT.sort(), z3.StringSort())
    ex.ufs_used.add("path_name")
    return VStr(g(args[0].t))
