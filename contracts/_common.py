"""Shared record types, opaque types and external (trusted) contracts used by several properties."""
import re as _re

import z3

from pyvc.api import Any, Assoc, Bool, Dict, Int, Opaque, Opt, Rec, SeqOf, Str, TupleOf, uf
from pyvc.ex_call import external
from pyvc.ty import VBool, VOpaque, VStr, VNone, VList, VInt, VOpt, Unsupported

from pyvc.api import EnumOf  # noqa: E402

# severity: member of the string-valued enum Severity -- SAME SMT sort as Str (see pyvc.ty.EnumOf), so every proof that
# treats it as the string "error" is unchanged; natively (replay, CPython cross-check) it is the real Severity member,
# which is what the code under proof produces (a Violation with severity="error" != one with Severity.ERROR)
ViolationT = Rec("Violation", cls="src/core/types.py::Violation", pycls="src.core.types:Violation",
                 rule_id=Str, file_path=Str, line=Int, column=Int, message=Str,
                 severity=EnumOf("src/core/types.py::Severity", pycls="src.core.types:Severity"), suggestion=Opt(Str))

PathT = Opaque("Path")
PatternT = Opaque("Pattern")

# ---- regular expressions: the engine is trusted; matching is an uninterpreted predicate -------------------------
re_search_i = uf("re_search_i", [Str, Str], Bool, concrete=lambda p, s: bool(_re.search(p, s, _re.IGNORECASE)))
re_search = uf("re_search", [Str, Str], Bool, concrete=lambda p, s: bool(_re.search(p, s)))
re_valid = uf("re_valid", [Str], Bool, concrete=lambda p: _compiles(p))
pat_src = uf("pat_src", [PatternT], Str, concrete=lambda p: p.pattern)


def _compiles(p):
    try:
        _re.compile(p)
        return True
    except _re.error:
        return False


compiled_i = uf("compiled_i", [Str], PatternT, concrete=lambda p: _re.compile(p, _re.IGNORECASE))
pat_search = uf("pat_search", [PatternT, Str], Bool, concrete=lambda pat, s: bool(pat.search(s)))


@external("Pattern.search")
def _pattern_search(ex, args, kwargs, lineno):
    """compiled.search(s): only the truth value is modelled (Match object vs None)."""
    pat, s = args
    f = z3.Function("uf.pat_search", PatternT.sort(), z3.StringSort(), z3.BoolSort())
    ex.ufs_used.add("pat_search")
    return VBool(f(pat.t, s.t))


# ---- pathlib: Path objects are opaque; str(path) and path.name are uninterpreted -----------------------------------
path_str = uf("path_str", [PathT], Str, concrete=lambda p: str(p))
path_name = uf("path_name", [PathT], Str, concrete=lambda p: p.name)


@external("Path.@name")
def _path_name(ex, args, kwargs, lineno):
    g = z3.Function("uf.path_name", PathT.sort(), z3.StringSort())
    ex.ufs_used.add("path_name")
    return VStr(g(args[0].t))


# ---- native generators for opaque types (used by the CPython cross-check, pyvc/selftest.py) -----------------------
def _register_generators():
    import pathlib
    from pyvc import selftest
    selftest.OPAQUE_GENERATORS["Path"] = lambda g: pathlib.Path(g.s() or "x")
    selftest.OPAQUE_GENERATORS["Pattern"] = lambda g: _re.compile(_re.escape(g.s()), _re.IGNORECASE)


_register_generators()


# ---- re.search / re.split with capture groups (C04): the regex engine is trusted; match/no-match and the captured
# ---- groups are uninterpreted functions of (pattern, subject); flags: none or IGNORECASE only -----------------------
MatchT = Opaque("Match")


def _grp(flags):
    def g(p, s, n):
        m = _re.search(p, s, flags)
        return "" if m is None or m.group(n) is None else m.group(n)
    return g


re_group = uf("re_group", [Str, Str, Int], Str, concrete=_grp(0))
re_group_i = uf("re_group_i", [Str, Str, Int], Str, concrete=_grp(_re.IGNORECASE))
re_split = uf("re_split", [Str, Str], SeqOf(Str), concrete=lambda p, s: _re.split(p, s))


def _re_flags(args, kwargs):
    fl = args[2] if len(args) > 2 else kwargs.get("flags")
    if fl is None:
        return ""
    from pyvc.ty import VConst
    if isinstance(fl, VConst) and fl.py == _re.IGNORECASE:
        return "_i"
    raise Unsupported(f"re flags {fl} (only none / IGNORECASE are modelled)")


@external("re.search")
def _re_search(ex, args, kwargs, lineno):
    """re.search(p, s[, re.IGNORECASE]) -> Optional[Match]; Match is the opaque term re_match(p, s)."""
    suf = _re_flags(args, kwargs)
    p, s = args[0], args[1]
    if not isinstance(p, VStr) or not isinstance(s, VStr):
        raise Unsupported("re.search on non-string arguments")
    S = z3.StringSort()
    hit = z3.Function(f"uf.re_search{suf}", S, S, z3.BoolSort())
    mk_m = z3.Function(f"uf.re_match{suf}", S, S, MatchT.sort())
    ex.ufs_used.add(f"re_search{suf}")
    return VOpt(z3.Not(hit(p.t, s.t)), VOpaque(mk_m(p.t, s.t), MatchT), MatchT)


@external("Match.group")
def _match_group(ex, args, kwargs, lineno):
    m, n = args[0], args[1]
    t = m.t
    S = z3.StringSort()
    if z3.is_app(t) and t.decl().name() in ("uf.re_match", "uf.re_match_i") and isinstance(n, VInt):
        suf = "_i" if t.decl().name().endswith("_i") else ""
        g = z3.Function(f"uf.re_group{suf}", S, S, z3.IntSort(), S)
        ex.ufs_used.add(f"re_group{suf}")
        return VStr(g(t.arg(0), t.arg(1), n.t))
    raise Unsupported("Match.group on a merged match object")


@external("re.split")
def _re_split(ex, args, kwargs, lineno):
    if len(args) != 2 or kwargs:
        raise Unsupported("re.split with maxsplit/flags")
    S = z3.StringSort()
    f = z3.Function("uf.re_split", S, S, z3.SeqSort(S))
    ex.ufs_used.add("re_split")
    return VList(Str, seq=f(args[0].t, args[1].t))


# ---- ast traversal helpers (C01, C16, C02): the CPython traversal order/contents are trusted; a node's children and
# ---- its walk-closure are the uninterpreted attributes `iter_children` / `walk` of the PyNode domain ----------------
def _native_children(n):
    import ast as _ast
    return list(_ast.iter_child_nodes(n))


def _native_walk(n):
    import ast as _ast
    return list(_ast.walk(n))


from contracts._nodes import PyNode as _PyNode  # noqa: E402

py_children = uf("py_children", [_PyNode], SeqOf(_PyNode), concrete=_native_children)   # ast.iter_child_nodes(n) as a list
py_walk = uf("py_walk", [_PyNode], SeqOf(_PyNode), concrete=_native_walk)               # ast.walk(n) as a list


@external("ast.iter_child_nodes")
def _ast_iter_child_nodes(ex, args, kwargs, lineno):
    """ast.iter_child_nodes(n) -> py_children(n): direct child nodes in field order (uninterpreted, trusted)."""
    return ex.call_uf("py_children", [args[0]])


@external("ast.walk")
def _ast_walk(ex, args, kwargs, lineno):
    """ast.walk(n) -> py_walk(n): n and all its descendants, breadth-first (uninterpreted, trusted)."""
    return ex.call_uf("py_walk", [args[0]])


# ---- ast.unparse / ast.dump (C12, C19): source text / structural dump of a node are uninterpreted functions of the node
import ast as _ast_mod  # noqa: E402

py_unparse = uf("py_unparse", [__import__("contracts._nodes", fromlist=["PyNode"]).PyNode], Str,
                concrete=lambda n: _ast_mod.unparse(n))
py_dump = uf("py_dump", [__import__("contracts._nodes", fromlist=["PyNode"]).PyNode], Str,
             concrete=lambda n: _ast_mod.dump(n))


@external("ast.unparse")
def _ast_unparse(ex, args, kwargs, lineno):
    """ast.unparse(n) -> py_unparse(n): the text CPython renders for the node (trusted, uninterpreted)."""
    return ex.call_uf("py_unparse", [args[0]])


@external("ast.dump")
def _ast_dump(ex, args, kwargs, lineno):
    """ast.dump(n) -> py_dump(n) (only the default form without keyword options is modelled)."""
    if len(args) != 1 or kwargs:
        raise Unsupported("ast.dump with options")
    return ex.call_uf("py_dump", [args[0]])


# ---- process-level effects (click.echo -> ghost stdout/stderr, sys.exit -> SystemExit(code), loguru, json.dumps) -----
from contracts import _effects  # noqa: E402,F401  (registers the external handlers)


# ---- stdlib logging (C11 ...): diagnostics only -- a logger is an opaque object whose methods have no effect on any
# ---- modelled state (the ARGUMENTS of the call are still evaluated by the executor, so their exceptions are followed)
LoggerT = Opaque("Logger")


@external("logging.getLogger")
def _logging_get_logger(ex, args, kwargs, lineno):
    return VOpaque(z3.Const("the_logger", LoggerT.sort()), LoggerT)


def _logger_no_effect(ex, args, kwargs, lineno):
    return VNone()


for _lvl in ("debug", "info", "warning", "error", "exception", "critical", "log"):
    external(f"Logger.{_lvl}")(_logger_no_effect)


# ---- tree-sitter Node.child_by_field_name(name): an uninterpreted function of (node, field name); the result is null or a child
# of the node (trusted). Counter-models that depend on it cannot be rebuilt natively (FakeNode has no fields): such a
# refutation is reported without a replayed input.
from contracts._nodes import TSNode as _TSNode  # noqa: E402

ts_field = uf("ts_field", [_TSNode, Str], _TSNode, concrete=lambda n, f: n.child_by_field_name(f))


@external("TSNode.child_by_field_name")
def _ts_child_by_field_name(ex, args, kwargs, lineno):
    """node.child_by_field_name(f) -> ts_field(node, f): null, or a node whose parent is `node` (uninterpreted, trusted)."""
    r = ex.call_uf("ts_field", [args[0], args[1]])
    ex.ufs_used.add("tree: child_by_field_name(n, f) is None or a child of n")
    ex.assume(z3.Or(r.t == _TSNode.null, _TSNode.attr_func("parent")(r.t) == args[0].t))
    return r
