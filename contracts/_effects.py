"""Trusted models of process-level effects used by the CLI layer (imported by contracts/_common.py).

click.echo(message, err=False)   appends str(message) to the ghost stream stdout (stderr when err=True); see pyvc/effects.py
sys.exit(code)                   raises SystemExit carrying the code
loguru logger.debug/info/...     no observable effect (diagnostics only; not part of any rendering)
json.dumps(doc, indent=k)        an uninterpreted function of the DOCUMENT (one function per document type and indent);
                                 the json module is trusted to serialise what it is given (DESIGN.md 3/C06, tier A)
"""
import json as _json

import z3

from pyvc import effects
from pyvc.ex_call import external
from pyvc.ops import NOCONST, concrete_of, truthy
from pyvc.run import RaiseSig
from pyvc.ty import Unsupported, VExc, VInt, VNone, VStr, VBool


@external("click.echo")
def _click_echo(ex, args, kwargs, lineno):
    msg = args[0] if args else kwargs.get("message")
    text = ex.str_of(msg).t if msg is not None and not isinstance(msg, VNone) else z3.StringVal("")
    if len(args) > 1 or any(k not in ("message", "err") for k in kwargs):
        raise Unsupported("click.echo with file=/nl=/color= arguments")
    err = kwargs.get("err")
    if err is None:
        stream = "stdout"
    else:
        stream = "stderr" if ex.decide(truthy(err)) else "stdout"
    effects.write(ex, stream, text, lineno)
    return VNone()


@external("sys.exit")
def _sys_exit(ex, args, kwargs, lineno):
    code = args[0] if args else VInt(0)
    if isinstance(code, VBool):
        code = VInt(z3.If(code.t, 1, 0))
    if isinstance(code, VNone):
        code = VInt(0)
    if not isinstance(code, VInt):
        raise Unsupported(f"sys.exit({code}): only integer exit codes are modelled")
    raise RaiseSig(VExc("SystemExit", code))


def _no_effect(ex, args, kwargs, lineno):
    return VNone()


for _lvl in ("debug", "info", "warning", "error", "exception", "trace", "success", "critical"):
    external(f"loguru.logger.{_lvl}")(_no_effect)
    external(f"logging.Logger.{_lvl}")(_no_effect)


@external("logging.getLogger")
def _get_logger(ex, args, kwargs, lineno):
    """logging.getLogger(name): a logger object; its methods have no observable effect (diagnostics only)."""
    from pyvc.ty import VConst
    return VConst(("ext", "logging.Logger"))


@external("json.dumps")
def _json_dumps(ex, args, kwargs, lineno):
    """json.dumps(doc, indent=k) as json_text[type(doc), k](doc). Works in code and in contract text alike, so a
    contract can say `stdout == old.stdout + [json.dumps(<document>, indent=2)]`."""
    if len(args) != 1 or any(k != "indent" for k in kwargs):
        raise Unsupported("json.dumps with arguments other than indent")
    ind = concrete_of(kwargs["indent"]) if "indent" in kwargs else None
    if ind is NOCONST:
        raise Unsupported("json.dumps with a symbolic indent")
    from pyvc.ex import _type_of_value
    doc = args[0]
    ty = _type_of_value(doc)
    t = ty.pack(doc)
    f = z3.Function(f"json.dumps[{t.sort().name()},indent={ind}]", t.sort(), z3.StringSort())
    ex.ufs_used.add("json.dumps (uninterpreted function of the document)")
    return VStr(f(t))


for _m in ("remove", "add", "configure", "bind", "opt"):
    external(f"loguru.logger.{_m}")(_no_effect)  # handler management: no observable effect on the renderings
