"""Shared abstract domains: tree-sitter nodes and CPython ast nodes (DESIGN.md 1.3).

Both are uninterpreted sorts with a null element; attributes are uninterpreted functions. Which tree a
source text yields is outside every proof (parsers are trusted); the facts assumed about the trees are
exactly the ones instantiated in the hooks below and are listed in the evidence as trusted."""
import ast as _ast

import z3

from pyvc.api import Bool, Bytes, Int, NodeTy, Opt, SeqOf, Str, TupleOf, Any, uf
from pyvc.ty import VNode

# ------------------------------------------------------------------------------------------- tree-sitter
TSNode = NodeTy("TSNode")
TSNode.attrs.update(
    parent=TSNode, children=SeqOf(TSNode), named_children=SeqOf(TSNode), type=Str, text=Opt(Bytes),
    start_point=TupleOf(Int, Int), end_point=TupleOf(Int, Int), id=Int, prev_sibling=TSNode, next_sibling=TSNode,
    child_count=Int, is_named=Bool, start_byte=Int, end_byte=Int,
)
TSNode.methods = ("child_by_field_name",)


def _ts_depth_native(n):
    if n is None:
        return -1
    d = 0
    while n is not None and getattr(n, "parent", None) is not None:
        n = n.parent
        d += 1
    return d


ts_depth = uf("ts_depth", [TSNode], Int, concrete=_ts_depth_native)
_depth_fn = z3.Function("uf.ts_depth", TSNode.sort(), z3.IntSort())
_sibidx_fn = z3.Function("uf.ts_sibling_index", TSNode.sort(), z3.IntSort())


def _sib_native(n):
    i = 0
    while getattr(n, "prev_sibling", None) is not None:
        n = n.prev_sibling
        i += 1
    return i


ts_sibling_index = uf("ts_sibling_index", [TSNode], Int, concrete=_sib_native)


def _ts_on_attr(ex, node, attr, v):
    """Trusted tree facts, instantiated where the code touches the tree (no quantifiers)."""
    n = node.t
    if attr == "parent":
        p = v.t
        ex.ufs_used.add("tree: depth(parent(n)) < depth(n), depth >= 0")
        ex.assume(_depth_fn(n) >= 0)
        ex.assume(_depth_fn(TSNode.null) == -1)
        ex.assume(z3.And(_depth_fn(p) >= -1, _depth_fn(p) < _depth_fn(n)))
    elif attr in ("prev_sibling",):
        p = v.t
        ex.ufs_used.add("tree: sibling_index(prev_sibling(n)) < sibling_index(n), >= 0")
        ex.assume(_sibidx_fn(n) >= 0)
        ex.assume(z3.Implies(p != TSNode.null, z3.And(_sibidx_fn(p) >= 0, _sibidx_fn(p) < _sibidx_fn(n))))
    elif attr in ("start_point", "end_point"):
        ex.ufs_used.add("tree: row >= 0, column >= 0")
        ex.assume(v.items[0].t >= 0)
        ex.assume(v.items[1].t >= 0)
    elif attr == "child_count":
        ex.assume(v.t == z3.Length(TSNode.attr_func("children")(n)))


def _ts_on_child(ex, node, attr, child):
    if attr in ("children", "named_children"):
        ex.ufs_used.add("tree: parent(child) == node for child in node.children")
        ex.assume(TSNode.attr_func("parent")(child.t) == node.t)
        ex.assume(z3.And(_depth_fn(node.t) >= 0, _depth_fn(child.t) > _depth_fn(node.t)))


def _ts_on_fresh(ex, v):
    ex.assume(_depth_fn(TSNode.null) == -1)
    ex.assume(z3.Implies(v.t != TSNode.null, _depth_fn(v.t) >= 0))
    ex.assume(_sibidx_fn(v.t) >= 0)


TSNode.on_fresh = _ts_on_fresh
TSNode.on_attr = _ts_on_attr
TSNode.on_child = _ts_on_child


def _ts_build_native(mv, memo):
    """Counter-model -> duck-typed node tree exposing exactly the modelled attributes."""
    from pyvc.native import FakeNode
    if mv is None:
        return None
    key = mv.get("__node__")
    if key in memo:
        return memo[key]
    n = FakeNode()
    memo[key] = n
    n.type = mv.get("type", "unknown")
    t = mv.get("text")
    n.text = t.encode("latin-1", "replace") if isinstance(t, str) else None
    n.start_point = tuple(mv.get("start_point", (0, 0)))
    n.end_point = tuple(mv.get("end_point", n.start_point))
    n.id = mv.get("id", id(n))
    kids = mv.get("children")
    n.children = [_ts_build_native(k, memo) for k in kids] if isinstance(kids, list) else []
    for i, k in enumerate(n.children):
        if k is not None:
            k.parent = n
            k.prev_sibling = n.children[i - 1] if i else None
            k.next_sibling = n.children[i + 1] if i + 1 < len(n.children) else None
    n.child_count = len(n.children)
    n.named_children = list(n.children)
    par = mv.get("parent")
    if not hasattr(n, "parent"):
        n.parent = _ts_build_native(par, memo) if isinstance(par, dict) else None
    ps = mv.get("prev_sibling")
    if not hasattr(n, "prev_sibling"):
        n.prev_sibling = _ts_build_native(ps, memo) if isinstance(ps, dict) else None
    if not hasattr(n, "next_sibling"):
        n.next_sibling = None
    return n


TSNode.build_native = _ts_build_native

# ------------------------------------------------------------------------------------------- CPython ast
PyNode = NodeTy("PyNode")
PyNode.attrs.update(
    body=SeqOf(PyNode), orelse=SeqOf(PyNode), handlers=SeqOf(PyNode), finalbody=SeqOf(PyNode),
    decorator_list=SeqOf(PyNode), cases=SeqOf(PyNode), targets=SeqOf(PyNode), elts=SeqOf(PyNode), args=SeqOf(PyNode),
    keywords=SeqOf(PyNode), items=SeqOf(PyNode), values=SeqOf(PyNode), ops=SeqOf(PyNode), comparators=SeqOf(PyNode),
    bases=SeqOf(PyNode),
    name=Str, id=Str, attr=Str, arg=Opt(Str), lineno=Int, col_offset=Int, end_lineno=Opt(Int), end_col_offset=Opt(Int),
    value=PyNode, func=PyNode, target=PyNode, test=PyNode, left=PyNode, right=PyNode, op=PyNode, slice=PyNode,
    iter=PyNode, operand=PyNode, parent=PyNode, annotation=PyNode, returns=PyNode, context_expr=PyNode,
    optional_vars=PyNode, exc=PyNode, subject=PyNode, pattern=PyNode, guard=PyNode, type=PyNode, msg=PyNode,
    kind_=Str, const=Any, iter_children=SeqOf(PyNode), walk=SeqOf(PyNode),
)


def _ast_subclasses(name):
    base = getattr(_ast, name)
    return sorted(k for k, v in vars(_ast).items() if isinstance(v, type) and issubclass(v, base))


def _py_isinstance(ex, v: VNode, clsname):
    names = _ast_subclasses(clsname)
    k = PyNode.attr_func("kind_")(v.t)
    return z3.And(v.t != PyNode.null, z3.Or([k == z3.StringVal(n) for n in names]))


PyNode.isinstance_term = _py_isinstance


def _py_on_attr(ex, node, attr, v):
    if attr in ("lineno",):
        ex.ufs_used.add("ast: lineno >= 1, col_offset >= 0")
        ex.assume(v.t >= 1)
    elif attr == "col_offset":
        ex.assume(v.t >= 0)


PyNode.on_attr = _py_on_attr


def kind_of(n):
    """Native: class name of an ast node; symbolic: the kind_ attribute."""
    return type(n).__name__


def _py_build_native(mv, memo):
    if mv is None:
        return None
    key = mv.get("__node__")
    if key in memo:
        return memo[key]
    kind = mv.get("kind_", "Pass")
    cls = getattr(_ast, kind, None)
    if not (isinstance(cls, type) and issubclass(cls, _ast.AST)):
        cls = _ast.Pass
    n = cls()
    memo[key] = n
    for k, x in mv.items():
        if k.startswith("__") or k in ("kind_", "iter_children", "walk"):
            continue
        if isinstance(x, list):
            setattr(n, k, [_py_build_native(y, memo) if isinstance(y, dict) else y for y in x])
        elif isinstance(x, dict) and "__node__" in x:
            setattr(n, k, _py_build_native(x, memo))
        else:
            setattr(n, k, x)
    for f in getattr(cls, "_fields", ()):
        if not hasattr(n, f):
            setattr(n, f, [] if f in ("body", "orelse", "handlers", "finalbody", "decorator_list", "cases", "targets",
                                      "elts", "args", "keywords", "items", "values", "ops", "comparators", "bases") else None)
    if not hasattr(n, "lineno"):
        n.lineno = 1
    if not hasattr(n, "col_offset"):
        n.col_offset = 0
    return n


PyNode.build_native = _py_build_native


# ---- ast.Constant (added for C02): `node.value` of a Constant is the constant itself -------------------------------
def _py_attr_alias(ex, node, attr, lineno=0):
    """`x.value` is modelled by two attributes: `const` (dynamic value) when x is an ast.Constant, `value` (child
    node) for every other node kind. Outside recursive spec bodies the executor forks on the kind; inside them the
    kind must follow from the enclosing conditions (write `isinstance(n, ast.Constant) and ... n.value ...`)."""
    if attr != "value":
        return None
    is_const = _py_isinstance(ex, node, "Constant")  # (the deprecated Num/Str/... subclasses included)
    k = ex.known(is_const)
    if k is None:
        if ex.merge_depth > 0:
            from pyvc.ty import Unsupported
            raise Unsupported("`.value` of an ast node whose kind (Constant or not) is not determined by the enclosing "
                              "conditions inside a spec function body")
        k = ex.decide(is_const)
    return "const" if k else None


PyNode.attr_alias = _py_attr_alias


def _py_hasattr(ex, node, name):
    """hasattr(node, 'lineno'/'col_offset'): trusted parser fact -- every expr/stmt node produced by ast.parse carries
    a position. Decided only when the node is known to be an expr or stmt (else: not modelled -> Unsupported)."""
    if name in ("lineno", "col_offset"):
        positioned = z3.Or(_py_isinstance(ex, node, "expr"), _py_isinstance(ex, node, "stmt"))
        if ex.known(positioned) is True:
            ex.ufs_used.add("ast: expr/stmt nodes from ast.parse carry lineno/col_offset")
            return z3.BoolVal(True)
    return None


PyNode.hasattr_term = _py_hasattr


_py_build_native_base = _py_build_native


def _py_build_native(mv, memo):  # noqa: F811  (rebinds the name the base function recurses through)
    """Native rebuild: the modelled `const` of a Constant node is its real `.value`."""
    n = _py_build_native_base(mv, memo)
    if isinstance(mv, dict) and isinstance(n, _ast.Constant) and "const" in mv:
        n.value = mv["const"]
        if "const" in n.__dict__:
            del n.__dict__["const"]
    return n


PyNode.build_native = _py_build_native

# (C02) nodes of a tree in ast.NodeVisitor visiting order (depth-first pre-order, each node exactly once)
PyNode.attrs["visit_order"] = SeqOf(PyNode)


# (C16) trusted tree-sitter fact: trees come from Parser.parse(bytes), so tokens carry their text; instantiated for the
# member-name tokens whose text the SRP TypeScript metrics read without a None check
_ts_on_attr_base = TSNode.on_attr


def _ts_on_attr_text(ex, node, attr, v):
    _ts_on_attr_base(ex, node, attr, v)
    if attr == "text":
        ex.ufs_used.add("tree: a property_identifier token carries its text (parse trees keep the source bytes)")
        ex.assume(z3.Implies(TSNode.attr_func("type")(node.t) == z3.StringVal("property_identifier"), z3.Not(v.isnone)))


TSNode.on_attr = _ts_on_attr_text


# (C01/C16) native generator for the CPython cross-check (pyvc/selftest.py): a random node of a random, REAL parse tree
def _py_random_source(rng, depth=0, indent="    "):
    """A random block of statements (nesting constructs, defs, classes with decorated methods) as source text."""
    pad = indent * (depth + 1)
    out = []
    for _ in range(rng.choice([1, 1, 2, 3])):
        k = rng.randrange(12) if depth < 4 else 0
        if k <= 1:
            out.append(pad + rng.choice(["pass", "x = 1", "return x", "y = x + 2", "# comment\n" + pad + "z = 3", "\n" + pad + "w = 4"]))
        elif k == 2:
            out.append(pad + "if x:\n" + _py_random_source(rng, depth + 1))
            for _ in range(rng.choice([0, 0, 1, 2])):
                out.append(pad + "elif y:\n" + _py_random_source(rng, depth + 1))
            if rng.random() < 0.4:
                out.append(pad + "else:\n" + _py_random_source(rng, depth + 1))
        elif k == 3:
            out.append(pad + rng.choice(["for i in x:", "while x:", "async for i in x:"]) + "\n" + _py_random_source(rng, depth + 1))
        elif k == 4:
            out.append(pad + rng.choice(["with x as y:", "async with x as y:"]) + "\n" + _py_random_source(rng, depth + 1))
        elif k == 5:
            out.append(pad + "try:\n" + _py_random_source(rng, depth + 1) + "\n" + pad + "except E:\n"
                       + _py_random_source(rng, depth + 1) + ("\n" + pad + "finally:\n" + _py_random_source(rng, depth + 1)
                                                               if rng.random() < 0.4 else ""))
        elif k == 6:
            out.append(pad + "match x:\n" + pad + indent + "case 1:\n" + _py_random_source(rng, depth + 2)
                       + "\n" + pad + indent + "case _:\n" + _py_random_source(rng, depth + 2))
        elif k == 7:
            deco = rng.choice(["", "", pad + "@property\n", pad + "@staticmethod\n"])
            name = rng.choice(["run", "_helper", "__init__", "value", "do_it"])
            out.append(deco + pad + rng.choice(["def ", "async def "]) + name + "(self, x):\n" + _py_random_source(rng, depth + 1))
        elif k == 8:
            out.append(pad + "class " + rng.choice(["Foo", "DataManager", "RequestHandler", "Bar"]) + ":\n"
                       + _py_random_source(rng, depth + 1))
        elif k == 9:
            out.append(pad + "if x:\n" + pad + indent + "pass\n" + pad + "else:\n" + pad + indent + "if y:\n"
                       + _py_random_source(rng, depth + 2))
        else:
            out.append(pad + "f(lambda a: a, [b for b in x if b])")
    return "\n".join(out)


def _py_native_gen(g):
    src = "async def top(self, x):\n" if g.rng.random() < 0.2 else "def top(self, x):\n"
    src += _py_random_source(g.rng)
    try:
        tree = _ast.parse(src)
    except SyntaxError:
        tree = _ast.parse("def top(x):\n    if x:\n        pass\n")
    nodes = [n for n in _ast.walk(tree) if isinstance(n, (_ast.stmt, _ast.mod, _ast.match_case, _ast.ExceptHandler))]
    heads = [n for n in nodes if isinstance(n, (_ast.FunctionDef, _ast.AsyncFunctionDef, _ast.ClassDef, _ast.Module))]
    return g.rng.choice(heads if g.rng.random() < 0.5 else nodes)


PyNode.native_gen = _py_native_gen

# error-recovery flags of tree-sitter nodes (a tree with ERROR / MISSING nodes is still the parse tree)
TSNode.attrs.update(has_error=Bool, is_error=Bool, is_missing=Bool)

# (C02) ast.Dict.keys: the key expressions of a dict display (None for `**mapping` entries)
PyNode.attrs["keys"] = SeqOf(PyNode)
