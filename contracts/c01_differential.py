"""C01 -- bounded native differential check at the property's observation point (Orchestrator.lint_file).

NOT a proof (listed under `bounded` in the evidence). It is the concrete counterpart of the property's quantifier: random
control-structure trees (any mix of the documented constructs, any shape, several functions / methods / arrow functions
per file) are rendered into Python, TypeScript and Rust, linted through ONE Orchestrator per limit (so everything between
the command and the analyzers takes part: language detection, config loading, rule dispatch, collectors, analyzers,
reporting loop, violation builder), for every limit 1 .. depth + 2, and compared with the documented depth
D = 1 + (number of control structures enclosing the deepest statement) computed on the abstract tree:
reported iff D > limit, exactly one violation per offending function, at the header line, message stating D.
Python is compared with its finding-adjusted depth (known findings C01-python-depth-offset / -match-case-counted:
D - 1, a match statement counting twice), so that every OTHER deviation of the Python path is still caught."""
import random
import re

from pyvc.api import custom

# abstract control tree: ("stmt",) | (kind, [children...]) | ("ifchain", [arm1, arm2, ...]) each arm a list of nodes
COMMON = ["if", "for", "while", "match"]          # exist in all three languages (match = switch in TypeScript)
EXTRA = {"py": ["with", "try", "ifchain"], "ts": ["do", "try", "forin", "ifelse"], "rs": ["loop", "closure", "async", "ifelse"]}


def gen_block(rng, lang, depth, max_depth):
    out = []
    for _ in range(rng.choice([1, 1, 2, 3])):
        if depth >= max_depth or rng.random() < 0.35:
            out.append(("stmt",))
            continue
        kind = rng.choice(COMMON + COMMON + EXTRA[lang])
        if kind in ("ifchain", "ifelse", "try", "match"):
            arms = [gen_block(rng, lang, depth + 1, max_depth) for _ in range(2 if kind == "ifelse" else rng.choice([2, 2, 3]))]
            out.append((kind, arms))
        else:
            out.append((kind, [gen_block(rng, lang, depth + 1, max_depth)]))
    return out


def skeleton(rng, max_depth):
    """A language-independent skeleton (only the common constructs): used for the cross-language comparison."""
    out = []
    for _ in range(rng.choice([1, 2, 2])):
        if max_depth <= 0 or rng.random() < 0.3:
            out.append(("stmt",))
        else:
            kind = rng.choice(COMMON)
            arms = [skeleton(rng, max_depth - 1) for _ in range(2 if kind == "match" else 1)]
            out.append((kind, arms))
    return out


def doc_depth(block, lang, level=1):
    """Documented depth reached in a block whose statements sit at `level` (function body = 1)."""
    best = level
    for node in block:
        if node[0] == "stmt":
            continue
        for arm in node[1]:
            best = max(best, doc_depth(arm, lang, level + 1))
    return best


def py_code_depth(block, level=0):
    """What the Python analyzer reports (finding-adjusted): the deepest control-structure level, counting from 0 at the
    function body, an if/elif/else chain once, and a match statement twice (match + case arm)."""
    best = 0
    for node in block:
        if node[0] == "stmt":
            continue
        inc = 2 if node[0] == "match" else 1
        best = max(best, level + inc)
        for arm in node[1]:
            best = max(best, py_code_depth(arm, level + inc))
    return best


# ---------------------------------------------------------------------------------------------------- rendering
def render_py(block, ind):
    pad = "    " * ind
    out = []
    for node in block:
        k = node[0]
        if k == "stmt":
            out.append(pad + "work()")
        elif k == "if":
            out += [pad + "if a:"] + render_py(node[1][0], ind + 1)
        elif k == "ifchain":
            arms = node[1]
            out += [pad + "if a:"] + render_py(arms[0], ind + 1)
            for arm in arms[1:-1]:
                out += [pad + "elif b:"] + render_py(arm, ind + 1)
            out += [pad + "else:"] + render_py(arms[-1], ind + 1)
        elif k == "for":
            out += [pad + "for x in xs:"] + render_py(node[1][0], ind + 1)
        elif k == "while":
            out += [pad + "while a:"] + render_py(node[1][0], ind + 1)
        elif k == "with":
            out += [pad + "with a as y:"] + render_py(node[1][0], ind + 1)
        elif k == "try":
            arms = node[1]
            out += [pad + "try:"] + render_py(arms[0], ind + 1) + [pad + "except E:"] + render_py(arms[1], ind + 1)
            if len(arms) > 2:
                out += [pad + "finally:"] + render_py(arms[2], ind + 1)
        elif k == "match":
            out += [pad + "match a:"]
            for i, arm in enumerate(node[1]):
                out += [pad + "    " + ("case _:" if i == len(node[1]) - 1 else f"case {i}:")] + render_py(arm, ind + 2)
    return out


def render_ts(block, ind):
    pad = "  " * ind
    out = []
    for node in block:
        k = node[0]
        if k == "stmt":
            out.append(pad + "work();")
        elif k == "if":
            out += [pad + "if (a) {"] + render_ts(node[1][0], ind + 1) + [pad + "}"]
        elif k == "ifelse":
            arms = node[1]
            out += [pad + "if (a) {"] + render_ts(arms[0], ind + 1) + [pad + "} else {"] + render_ts(arms[-1], ind + 1) + [pad + "}"]
        elif k == "for":
            out += [pad + "for (const x of xs) {"] + render_ts(node[1][0], ind + 1) + [pad + "}"]
        elif k == "forin":
            out += [pad + "for (const k in a) {"] + render_ts(node[1][0], ind + 1) + [pad + "}"]
        elif k == "while":
            out += [pad + "while (a) {"] + render_ts(node[1][0], ind + 1) + [pad + "}"]
        elif k == "do":
            out += [pad + "do {"] + render_ts(node[1][0], ind + 1) + [pad + "} while (a);"]
        elif k == "try":
            arms = node[1]
            out += [pad + "try {"] + render_ts(arms[0], ind + 1) + [pad + "} catch (e) {"] + render_ts(arms[1], ind + 1)
            if len(arms) > 2:
                out += [pad + "} finally {"] + render_ts(arms[2], ind + 1)
            out += [pad + "}"]
        elif k == "match":
            out += [pad + "switch (a) {"]
            for i, arm in enumerate(node[1]):
                out += [pad + "  " + ("default:" if i == len(node[1]) - 1 else f"case {i}:")] + render_ts(arm, ind + 2) \
                    + [pad + "    break;"]
            out += [pad + "}"]
    return out


def render_rs(block, ind):
    pad = "    " * ind
    out = []
    for node in block:
        k = node[0]
        if k == "stmt":
            out.append(pad + "work();")
        elif k == "if":
            out += [pad + "if a {"] + render_rs(node[1][0], ind + 1) + [pad + "}"]
        elif k == "ifelse":
            arms = node[1]
            out += [pad + "if a {"] + render_rs(arms[0], ind + 1) + [pad + "} else {"] + render_rs(arms[-1], ind + 1) + [pad + "}"]
        elif k == "for":
            out += [pad + "for x in xs.iter() {"] + render_rs(node[1][0], ind + 1) + [pad + "}"]
        elif k == "while":
            out += [pad + "while a {"] + render_rs(node[1][0], ind + 1) + [pad + "}"]
        elif k == "loop":
            out += [pad + "loop {"] + render_rs(node[1][0], ind + 1) + [pad + "    break;", pad + "}"]
        elif k == "closure":
            out += [pad + "let c = || {"] + render_rs(node[1][0], ind + 1) + [pad + "};"]
        elif k == "async":
            out += [pad + "let fut = async {"] + render_rs(node[1][0], ind + 1) + [pad + "};"]
        elif k == "match":
            out += [pad + "match n {"]
            for i, arm in enumerate(node[1]):
                out += [pad + "    " + ("_ => {" if i == len(node[1]) - 1 else f"{i} => {{")] + render_rs(arm, ind + 2) + [pad + "    }"]
            out += [pad + "}"]
    return out


def render_file(lang, bodies, rng):
    """Source text of a file with one function per body (plain functions, methods, arrow functions) and, per function,
    (header line, name, body)."""
    lines, funcs = [], []
    for i, body in enumerate(bodies):
        style = rng.choice(["plain", "plain", "method", "arrow"])
        name = f"f{i}"
        if lang == "py":
            if style == "method":
                lines.append(f"class K{i}:")
                funcs.append((len(lines) + 1, name, body))
                lines += [f"    {'async ' if rng.random() < 0.3 else ''}def {name}(self, a, b, xs):"] + render_py(body, 2)
            else:
                if style == "arrow":
                    lines.append("@decorated")
                funcs.append((len(lines) + 1, name, body))
                lines += [f"def {name}(a, b, xs):"] + render_py(body, 1)
            lines.append("")
        elif lang == "ts":
            if style == "method":
                lines.append(f"class K{i} {{")
                funcs.append((len(lines) + 1, name, body))
                lines += [f"  {name}(a: any, xs: any[]) {{"] + render_ts(body, 2) + ["  }", "}"]
            elif style == "arrow":
                funcs.append((len(lines) + 1, name, body))
                lines += [f"const {name} = (a: any, xs: any[]) => {{"] + render_ts(body, 1) + ["};"]
            else:
                funcs.append((len(lines) + 1, name, body))
                lines += [f"function {name}(a: any, xs: any[]) {{"] + render_ts(body, 1) + ["}"]
            lines.append("")
        else:
            if style == "method":
                lines += [f"struct K{i};", f"impl K{i} {{"]
                funcs.append((len(lines) + 1, name, body))
                lines += [f"    fn {name}(&self, a: bool, n: i32, xs: Vec<i32>) {{"] + render_rs(body, 2) + ["    }", "}"]
            else:
                funcs.append((len(lines) + 1, name, body))
                lines += [f"{'async ' if style == 'arrow' else ''}fn {name}(a: bool, n: i32, xs: Vec<i32>) {{"] + render_rs(body, 1) + ["}"]
            lines.append("")
    return "\n".join(lines) + "\n", funcs


def expected_depth(lang, body):
    return py_code_depth(body) if lang == "py" else doc_depth(body, lang)


# every documented extension of the judged languages and the language (override section) it belongs to
LANGUAGE_OF_EXTENSION = {".py": "python", ".js": "javascript", ".jsx": "javascript", ".ts": "typescript", ".tsx": "typescript",
                         ".rs": "rust"}

_DEPTH = re.compile(r"nesting depth \((\d+)\)")


@custom("c01-skeleton-differential-bounded", props=["C01"])
def c01_skeleton_differential(ctx):
    import tempfile
    import time
    from pathlib import Path
    from pyvc.native import _ensure_repo_on_path
    t0 = time.time()
    name = "c01-skeleton-differential-bounded"
    try:
        _ensure_repo_on_path()
        from src.orchestrator.core import Orchestrator
    except Exception as e:  # noqa
        return [{"name": name, "kind": "bounded", "verdict": "unknown", "note": f"cannot import: {e!r}"[:300], "tool": "cpython",
                 "budget": "-", "cases": 0}]
    rng = random.Random(1000 + int(ctx.get("seed", 0)))
    n_files = 40 if ctx.get("tier") == "thorough" else 14
    ext = {"py": ".py", "ts": ".ts", "rs": ".rs"}
    bad, cases = None, 0
    with tempfile.TemporaryDirectory() as tmp:
        root = Path(tmp)
        files = []   # (path, lang, funcs)
        for i in range(n_files):
            for lang in ("py", "ts", "rs"):
                bodies = [gen_block(rng, lang, 0, rng.choice([1, 2, 3, 4, 5])) for _ in range(rng.choice([1, 2, 3]))]
                text, funcs = render_file(lang, bodies, rng)
                p = root / f"m{i}{('.ts', '.tsx', '.js', '.jsx')[i % 4] if lang == 'ts' else ext[lang]}"
                p.write_text(text)
                files.append((p, lang, funcs, text))
        # the same skeleton of common constructs in all three languages (cross-language agreement, documented depth)
        for i in range(n_files):
            sk = [skeleton(rng, rng.choice([1, 2, 3, 4])) for _ in range(2)]
            for lang in ("py", "ts", "rs"):
                text, funcs = render_file(lang, sk, random.Random(i))
                p = root / f"s{i}{ext[lang]}"
                p.write_text(text)
                files.append((p, lang, funcs, text))
        max_d = max(expected_depth(lang, body) for _, lang, funcs, _t in files for _, _, body in funcs)
        for limit in range(1, max_d + 3):
            # per-language override sections (docs: <language>.max_nesting_depth over max_nesting_depth): each language's
            # files are judged by ITS section; a language without a section by the top-level limit
            section = {"max_nesting_depth": limit}
            for lname in LANGUAGE_OF_EXTENSION.values():
                if rng.random() < 0.5:
                    section[lname] = {"max_nesting_depth": max(1, limit + rng.choice([-1, 1, 2]))}
            try:
                orch = Orchestrator(project_root=root, config={"nesting": section})
            except Exception as e:  # noqa
                bad = ("orchestrator", section, repr(e), "", "")
                break
            for p, lang, funcs, text in files:
                cases += 1
                eff = section.get(LANGUAGE_OF_EXTENSION[p.suffix], {}).get("max_nesting_depth", limit)
                try:
                    got = sorted((v.line, int(_DEPTH.search(v.message).group(1)), v.message.split("'")[1])
                                 for v in orch.lint_file(p) if v.rule_id.startswith("nesting"))
                except Exception as e:  # noqa
                    bad = (p.name, section, "exception " + repr(e)[:200], "", text)
                    break
                want = sorted((line, expected_depth(lang, body), fname) for line, fname, body in funcs
                              if expected_depth(lang, body) > eff)
                if got != want:
                    bad = (p.name, section, f"reported (line, depth, function) {got}", f"expected {want}", text)
                    break
            if bad:
                break
    note = "" if bad is None else (f"{bad[0]} with nesting config {bad[1]}: {bad[2]} {bad[3]}; source:\n{bad[4]}")[:1500]
    return [{"name": name, "kind": "bounded", "verdict": "passed" if bad is None else "refuted", "note": note,
             "tool": "cpython (Orchestrator.lint_file on generated Python/TypeScript/Rust files)",
             "budget": f"{len(files) if 'files' in dir() else 0} generated files x limits 1..depth+2", "cases": cases,
             "ms": round((time.time() - t0) * 1000, 1), "witness_confirmed": bad is not None,
             "model_inputs": {"file": bad[0], "max_nesting_depth": bad[1], "source": bad[4]} if bad else None}]
