"""C01 -- nesting depth (src/linters/nesting/*).

Documented depth (docs/nesting-linter.md, property text): D(f) = 1 for the function body + 1 for every control
structure enclosing the deepest statement; a Python if/elif/else chain counts once. Over the abstract control tree:
D(f) = 1 + H(body), H(ts) = max over t in ts of (is_ctl(t) ? 1 : 0) + H(kids(t)), max of nothing = 0.
Per-language control nodes (DESIGN.md 3/C01, read off the docs):
  Python      If (not in elif position), For, While, With, AsyncWith, Try, Match; match_case / ExceptHandler are arms
  TypeScript  if/for/for_in/while/do/try/switch/with statements
  Rust        if/match/loop/while/for expressions and closures
Which tree a source text yields is outside every proof (parsers trusted)."""
import ast

from pyvc.api import (contract, lemma, Any, Int, Bool, Str, Dict, SeqOf, Rec, Opt, TupleOf, Opaque, implies, call, mk, ih, uf,
                      opaque, reveal, use)
from contracts._nodes import TSNode, PyNode
from contracts._common import ViolationT, PathT, path_str, py_children, py_walk  # noqa: F401  (+ ast.walk / iter_child_nodes)
from contracts import c12_core  # noqa: F401  (BaseViolationBuilder.build_from_params)
from contracts.c12_core import violation_of

PY = "src/linters/nesting/python_analyzer.py::"
TS = "src/linters/nesting/typescript_analyzer.py::"
RS = "src/linters/nesting/rust_analyzer.py::"
LI = "src/linters/nesting/linter.py::"
VB = "src/linters/nesting/violation_builder.py::"
FX = "src/linters/nesting/typescript_function_extractor.py::"

TrackerT = Rec("_DepthTracker", cls=PY + "_DepthTracker", pycls="src.linters.nesting.python_analyzer:_DepthTracker",
               max_depth=Int, max_depth_line=Int)
PyAnalyzerT = Rec("PythonNestingAnalyzer", cls=PY + "PythonNestingAnalyzer")


# ====================================================================================== Python: specification
def is_elif_position(orelse):
    """An `elif` is an If that is the sole statement of its parent's orelse."""
    return len(orelse) == 1 and isinstance(orelse[0], ast.If)


def py_ctl_doc(n):
    """Documented Python nesting constructs other than `if` (docs/nesting-linter.md): for/while, with/async with,
    try (except/finally are its arms), match (case clauses are its arms)."""
    return isinstance(n, (ast.For, ast.While, ast.With, ast.AsyncWith, ast.Try, ast.Match))


def py_ctl_code(n):
    """_CONTROL_STRUCTURES of python_analyzer.py: the documented set PLUS match_case (known finding
    C01-python-match-case-counted)."""
    return isinstance(n, (ast.For, ast.While, ast.With, ast.AsyncWith, ast.Try, ast.Match, ast.match_case))


def imax(a, b):
    return a if a >= b else b


def is_funcdef(n):
    return n is not None and isinstance(n, (ast.FunctionDef, ast.AsyncFunctionDef))


def all_funcdefs(s: SeqOf(PyNode)) -> Bool:
    """Every element is a function definition (true of everything find_all_functions returns)."""
    return len(s) == 0 or (is_funcdef(s[0]) and all_funcdefs(s[1:]))


# R(node, d, is_elif, doc): deepest control level reached in the subtree of `node` when `d` control structures enclose
# it (0 if it contains none). doc=True: documented construct set, doc=False: the code's set.
def r_node(n: PyNode, d: Int, is_elif: Bool, doc: Bool) -> Int:
    if isinstance(n, ast.If):
        return r_if(n, d if is_elif else d + 1, is_elif, doc)
    if py_ctl_doc(n) if doc else py_ctl_code(n):
        return imax(d + 1, r_seq(py_children(n), d + 1, doc))
    return r_seq(py_children(n), d, doc)


def r_if(n: PyNode, dd: Int, is_elif: Bool, doc: Bool) -> Int:
    """An If whose statements live at level dd (an elif does not open a new level)."""
    return imax(0 if is_elif else dd,
                imax(r_seq(n.body, dd, doc),
                     r_node(n.orelse[0], dd, True, doc) if is_elif_position(n.orelse) else r_seq(n.orelse, dd, doc)))


def r_seq(s: SeqOf(PyNode), d: Int, doc: Bool) -> Int:
    if len(s) == 0:
        return 0
    return imax(r_node(s[0], d, False, doc), r_seq(s[1:], d, doc))


def h_py(func_node, doc):
    """H(body) of a Python function: number of control structures enclosing its deepest statement."""
    return imax(0, r_seq(func_node.body, 0, doc))


def d_py_documented(func_node):
    """The documented nesting depth: 1 for the function body plus H(body) over the documented constructs."""
    return 1 + h_py(func_node, True)


# ====================================================================================== Python: analyzer
@contract(PY + "_DepthTracker.__init__", props=["C01"], types=dict(self=TrackerT, default_line=Int),
          modifies=["self.max_depth", "self.max_depth_line"])
class TrackerInit:
    def ensures(self, default_line):
        return self.max_depth == 0 and self.max_depth_line == default_line


@contract(PY + "_DepthTracker.record", props=["C01"], types=dict(self=TrackerT, node=PyNode, depth=Int, default_line=Int),
          modifies=["self.max_depth", "self.max_depth_line"])
class TrackerRecord:
    def requires(self, node, depth, default_line):
        return node is not None

    def ensures_running_maximum(self, node, depth, default_line, old):
        return self.max_depth == imax(old.self.max_depth, depth)


@contract(PY + "_is_elif_chain", props=["C01", "C13"], types=dict(orelse=SeqOf(PyNode)), returns=Bool)
class IsElifChain:
    def value(orelse):
        return is_elif_position(orelse)


VISIT_TYPES = dict(node=PyNode, current_depth=Int, tracker=TrackerT, default_line=Int, is_elif=Bool, child=PyNode)
VISIT_MOD = ["tracker.max_depth", "tracker.max_depth_line"]


@contract(PY + "_visit_node", props=["C01"], types=VISIT_TYPES, modifies=VISIT_MOD)
class VisitNode:
    def requires(node, current_depth, tracker, default_line, is_elif):
        return node is not None and tracker.max_depth >= 0 and current_depth >= 0

    def ensures_running_maximum(node, current_depth, tracker, default_line, is_elif, old):
        return tracker.max_depth == imax(old.tracker.max_depth, r_node(node, current_depth, is_elif, False))


@contract(PY + "_visit_if_node", props=["C01"], types=VISIT_TYPES, modifies=VISIT_MOD)
class VisitIfNode:
    def requires(node, current_depth, tracker, default_line, is_elif):
        return node is not None and isinstance(node, ast.If) and tracker.max_depth >= 0 and current_depth >= 0

    def ensures_running_maximum(node, current_depth, tracker, default_line, is_elif, old):
        return tracker.max_depth == imax(old.tracker.max_depth,
                                         r_if(node, old.current_depth if is_elif else old.current_depth + 1, is_elif, False))

    def inv0(node, current_depth, tracker, is_elif, old, rest):
        return tracker.max_depth >= 0 and current_depth == (old.current_depth if is_elif else old.current_depth + 1) and \
            imax(imax(old.tracker.max_depth, 0 if is_elif else current_depth), r_seq(node.body, current_depth, False)) == \
            imax(tracker.max_depth, r_seq(rest, current_depth, False))

    def inv1(node, current_depth, tracker, is_elif, old, rest):
        return tracker.max_depth >= 0 and current_depth == (old.current_depth if is_elif else old.current_depth + 1) and \
            imax(imax(imax(old.tracker.max_depth, 0 if is_elif else current_depth), r_seq(node.body, current_depth, False)),
                 r_seq(node.orelse, current_depth, False)) == imax(tracker.max_depth, r_seq(rest, current_depth, False))


@contract(PY + "_visit_control_structure", props=["C01"], types=VISIT_TYPES, modifies=VISIT_MOD)
class VisitControlStructure:
    def requires(node, current_depth, tracker, default_line):
        return node is not None and tracker.max_depth >= 0 and current_depth >= 0

    def ensures_running_maximum(node, current_depth, tracker, default_line, old):
        return tracker.max_depth == imax(old.tracker.max_depth,
                                         imax(old.current_depth + 1, r_seq(py_children(node), old.current_depth + 1, False)))


@contract(PY + "_visit_children", props=["C01"], types=VISIT_TYPES, modifies=VISIT_MOD)
class VisitChildren:
    def requires(node, current_depth, tracker, default_line):
        return node is not None and tracker.max_depth >= 0 and current_depth >= 0

    def ensures_running_maximum(node, current_depth, tracker, default_line, old):
        return tracker.max_depth == imax(old.tracker.max_depth, r_seq(py_children(node), current_depth, False))

    def inv0(node, current_depth, tracker, old, rest):
        return tracker.max_depth >= 0 and imax(old.tracker.max_depth, r_seq(py_children(node), current_depth, False)) == \
            imax(tracker.max_depth, r_seq(rest, current_depth, False))


@opaque
def py_raw(func_node: PyNode) -> Int:
    """The depth PythonNestingAnalyzer.calculate_max_depth returns (opaque for the callers: the reporting loop only needs
    THAT it is a function of the node; what it is is stated and proved in the `~documented` view below)."""
    return h_py(func_node, False)


@contract(PY + "PythonNestingAnalyzer.calculate_max_depth", props=["C01"],
          types=dict(self=PyAnalyzerT, func_node=PyNode, tracker=TrackerT, stmt=PyNode), returns=TupleOf(Int, Int))
class PyCalculateMaxDepth:
    def requires(self, func_node):
        return is_funcdef(func_node)

    def reveals(self, func_node):
        return reveal(py_raw, func_node)

    def ensures_raw(self, func_node, result):
        return result[0] == py_raw(func_node)

    def inv0(self, func_node, tracker, rest):
        return tracker.max_depth >= 0 and \
            imax(0, r_seq(func_node.body, 0, False)) == imax(tracker.max_depth, r_seq(rest, 0, False))


@contract(PY + "PythonNestingAnalyzer.calculate_max_depth~documented", props=["C01"],
          types=dict(self=PyAnalyzerT, func_node=PyNode, tracker=TrackerT, stmt=PyNode), returns=TupleOf(Int, Int))
class PyCalculateMaxDepthDocumented:
    """Second view of the same function: the property-level clauses (not part of what callers assume)."""
    def requires(self, func_node):
        return is_funcdef(func_node)

    def ensures_documented_depth(self, func_node, result):
        # property text / docs: "Nesting depth starts at 1 for the function body"  (expected to fail: known finding
        # C01-python-depth-offset, the Python analyzer starts at 0)
        return imax(result[0], 1) == d_py_documented(func_node)

    def witness_documented_depth():
        # def f(x):\n    if x:\n        pass      -> documented depth 2, analyzer 1 (tests/unit/linters/nesting/test_elif_depth.py)
        return {"func_node": {"__node__": "f", "kind_": "FunctionDef", "name": "f", "lineno": 1, "col_offset": 0,
                              "decorator_list": [],
                              "body": [{"__node__": "i", "kind_": "If", "lineno": 2, "col_offset": 4, "orelse": [],
                                        "body": [{"__node__": "p", "kind_": "Pass", "lineno": 3, "col_offset": 8}]}]}}

    def ensures_code_depth(self, func_node, result):
        # finding-adjusted: exactly H(body) over the code's construct set, i.e. (documented depth) - 1 but for match_case
        return result[0] == h_py(func_node, False)

    def inv0(self, func_node, tracker, rest):
        return tracker.max_depth >= 0 and \
            imax(0, r_seq(func_node.body, 0, False)) == imax(tracker.max_depth, r_seq(rest, 0, False))


def py_function_nodes(s):
    return [node for node in s if isinstance(node, (ast.FunctionDef, ast.AsyncFunctionDef))]


@lemma(props=["C01"], types=dict(s=SeqOf(PyNode)), name="python-collected-functions-are-function-definitions")
def py_filter_funcdefs(s):
    """(proof artefact) everything the isinstance filter of find_all_functions keeps is a function definition."""
    if len(s) == 0:
        return all_funcdefs(py_function_nodes(s))
    ih(py_filter_funcdefs, s[1:])
    if isinstance(s[0], (ast.FunctionDef, ast.AsyncFunctionDef)):
        return py_function_nodes(s) == [s[0]] + py_function_nodes(s[1:]) and all_funcdefs(py_function_nodes(s))
    return py_function_nodes(s) == py_function_nodes(s[1:]) and all_funcdefs(py_function_nodes(s))


@contract(PY + "PythonNestingAnalyzer.find_all_functions", props=["C01", "C12"],
          types=dict(self=PyAnalyzerT, tree=PyNode, functions=SeqOf(PyNode), node=PyNode), returns=SeqOf(PyNode))
class PyFindAllFunctions:
    """Every (async) function definition reachable from the tree exactly once, in ast.walk order (ast.walk trusted)."""
    def requires(self, tree):
        return tree is not None

    def value(self, tree):
        return [node for node in py_walk(tree) if isinstance(node, (ast.FunctionDef, ast.AsyncFunctionDef))]

    def lemmas_only_function_definitions(self, tree):
        return py_filter_funcdefs(py_walk(tree))

    def ensures_only_function_definitions(self, tree, result):
        return all_funcdefs(result)

    def inv0(self, tree, functions, rest):
        return [node for node in py_walk(tree) if isinstance(node, (ast.FunctionDef, ast.AsyncFunctionDef))] == \
            functions + [node for node in rest if isinstance(node, (ast.FunctionDef, ast.AsyncFunctionDef))]


@lemma(props=["C01"], types=dict(node=PyNode, d=Int, line=Int), name="python-case-arm-is-transparent")
def py_case_arm_transparent(node, d, line):
    """docs: `match` / `case` is ONE nesting construct (like try/except/finally, TypeScript switch/case and Rust match
    arms): visiting a `case` arm with an empty body must not record a new level. EXPECTED TO FAIL (known finding
    C01-python-match-case-counted): match_case is listed in _CONTROL_STRUCTURES next to Match."""
    if node is None or not isinstance(node, ast.match_case) or d < 0 or len(py_children(node)) != 0:
        return True
    tracker = mk(TrackerT, max_depth=d, max_depth_line=line)
    call(PY + "_visit_node", node, d, tracker, line, False)
    return tracker.max_depth == d


@lemma(props=["C01"], types=dict(node=PyNode, d=Int, line=Int), name="python-case-arm-counts-one-level")
def py_case_arm_counted(node, d, line):
    """Finding-adjusted: a `case` arm opens exactly ONE extra level (like any control structure), nothing else."""
    if node is None or not isinstance(node, ast.match_case) or d < 0 or len(py_children(node)) != 0:
        return True
    tracker = mk(TrackerT, max_depth=d, max_depth_line=line)
    call(PY + "_visit_node", node, d, tracker, line, False)
    return tracker.max_depth == d + 1


# ====================================================================================== TypeScript / Rust: specification
# docs/nesting-linter.md, "Statements That Increase Depth"
TS_CTL = ("if_statement", "for_statement", "for_in_statement", "while_statement", "do_statement", "try_statement",
          "switch_statement", "with_statement")
RS_CTL = ("if_expression", "match_expression", "loop_expression", "while_expression", "for_expression", "closure_expression",
          "async_block")


def ts_is_ctl(n):
    """TypeScript: if / for / for...in / for...of / while / do...while / try / switch (and the deprecated with)."""
    return n.type in TS_CTL


def rs_is_ctl(n):
    """Rust: if / match / loop / while / for expressions, closures and `async` blocks."""
    return n.type in RS_CTL


# level(x) = 1 (function body) + number of control structures enclosing x; t_*(…, d) = the largest level of a node in
# the subtree when its root sits at level d (the documented depth D is this maximum over the body)
def ts_node_depth(n: TSNode, d: Int) -> Int:
    return imax(d, ts_seq_depth(n.children, d + 1 if ts_is_ctl(n) else d))


def ts_seq_depth(s: SeqOf(TSNode), d: Int) -> Int:
    if len(s) == 0:
        return 0
    return imax(ts_node_depth(s[0], d), ts_seq_depth(s[1:], d))


def rs_node_depth(n: TSNode, d: Int) -> Int:
    return imax(d, rs_seq_depth(n.children, d + 1 if rs_is_ctl(n) else d))


def rs_seq_depth(s: SeqOf(TSNode), d: Int) -> Int:
    if len(s) == 0:
        return 0
    return imax(rs_node_depth(s[0], d), rs_seq_depth(s[1:], d))


def first_child(s: SeqOf(TSNode), k: Str) -> TSNode:
    if len(s) == 0:
        return None
    if s[0].type == k:
        return s[0]
    return first_child(s[1:], k)


def d_ts(func_node):
    """Documented depth of a TypeScript function: 1 for the body, more if control structures enclose statements."""
    return 1 if first_child(func_node.children, "statement_block") is None \
        else imax(1, ts_seq_depth(first_child(func_node.children, "statement_block").children, 1))


def d_rs(func_node):
    """Documented depth of a Rust function: 1 for the body, more if listed constructs enclose statements."""
    return 1 if first_child(func_node.children, "block") is None \
        else imax(1, rs_seq_depth(first_child(func_node.children, "block").children, 1))


def ts_raw_depth(func_node):
    """What TypeScriptNestingAnalyzer.calculate_max_depth returns: max(raw, 1) is the documented depth d_ts."""
    return 0 if first_child(func_node.children, "statement_block") is None \
        else imax(0, ts_seq_depth(first_child(func_node.children, "statement_block").children, 1))


def rs_raw_depth(func_node):
    return 0 if first_child(func_node.children, "block") is None \
        else imax(0, rs_seq_depth(first_child(func_node.children, "block").children, 1))


# ====================================================================================== TypeScript analyzer
TsFxT = Rec("TypeScriptFunctionExtractor", cls=FX + "TypeScriptFunctionExtractor", tree_sitter_available=Bool)
TsAnalyzerT = Rec("TypeScriptNestingAnalyzer", cls=TS + "TypeScriptNestingAnalyzer", tree_sitter_available=Bool,
                  function_extractor=TsFxT)
RsAnalyzerT = Rec("RustNestingAnalyzer", cls=RS + "RustNestingAnalyzer", tree_sitter_available=Bool)


@contract(TS + "TypeScriptNestingAnalyzer._find_function_body", props=["C01"], types=dict(self=TsAnalyzerT, func_node=TSNode, child=TSNode),
          returns=TSNode)
class TsFindFunctionBody:
    def requires(self, func_node):
        return func_node is not None

    def value(self, func_node):
        return first_child(func_node.children, "statement_block")

    def inv0(self, func_node, rest):
        return first_child(func_node.children, "statement_block") == first_child(rest, "statement_block")


@contract(TS + "TypeScriptNestingAnalyzer.calculate_max_depth.visit_node", props=["C01"],
          types=dict(node=TSNode, current_depth=Int, new_depth=Int, child=TSNode, self=TsAnalyzerT, max_depth=Int, max_depth_line=Int),
          free=["self", "max_depth", "max_depth_line"], modifies=["max_depth", "max_depth_line"])
class TsVisitNode:
    def requires(node, current_depth, max_depth):
        return node is not None and max_depth >= 0 and current_depth >= 0

    def ensures_running_maximum(node, current_depth, max_depth, old):
        return max_depth == imax(old.max_depth, ts_node_depth(node, current_depth))

    def inv0(node, current_depth, new_depth, max_depth, old, rest):
        # (new_depth itself is not constrained here: a wrong increment must surface in the post-condition)
        return max_depth >= 0 and new_depth >= 0 and \
            imax(imax(old.max_depth, current_depth), ts_seq_depth(node.children, new_depth)) == \
            imax(max_depth, ts_seq_depth(rest, new_depth))


@opaque
def ts_raw(func_node: TSNode) -> Int:
    """The depth TypeScriptNestingAnalyzer.calculate_max_depth returns (opaque for callers, see the `~documented` view)."""
    return ts_raw_depth(func_node)


TS_CALC_TYPES = dict(self=TsAnalyzerT, func_node=TSNode, body_node=TSNode, max_depth=Int, max_depth_line=Int, child=TSNode)


@contract(TS + "TypeScriptNestingAnalyzer.calculate_max_depth", props=["C01"], types=TS_CALC_TYPES, returns=TupleOf(Int, Int))
class TsCalculateMaxDepth:
    def requires(self, func_node):
        return func_node is not None

    def reveals(self, func_node):
        return reveal(ts_raw, func_node)

    def ensures_raw(self, func_node, result):
        return result[0] == ts_raw(func_node)

    def inv1(self, func_node, body_node, max_depth, rest):   # loop #0 of the source text is the one inside visit_node
        return body_node is not None and body_node == first_child(func_node.children, "statement_block") and max_depth >= 0 and \
            imax(0, ts_seq_depth(body_node.children, 1)) == imax(max_depth, ts_seq_depth(rest, 1))


@contract(TS + "TypeScriptNestingAnalyzer.calculate_max_depth~documented", props=["C01"], types=TS_CALC_TYPES,
          returns=TupleOf(Int, Int))
class TsCalculateMaxDepthDocumented:
    def requires(self, func_node):
        return func_node is not None

    def ensures_documented_depth(self, func_node, result):
        # property text: 1 for the function body plus one per enclosing control structure
        return imax(result[0], 1) == d_ts(func_node)

    def inv1(self, func_node, body_node, max_depth, rest):
        return body_node is not None and body_node == first_child(func_node.children, "statement_block") and max_depth >= 0 and \
            imax(0, ts_seq_depth(body_node.children, 1)) == imax(max_depth, ts_seq_depth(rest, 1))


@lemma(props=["C01"], types=dict(func_node=TSNode), name="typescript-raw-depth-is-documented-depth")
def ts_raw_is_documented(func_node):
    """What the reporting loop compares with the limit is the documented depth (raw 0 = no body/empty body = depth 1)."""
    if func_node is None:
        return True
    reveal(ts_raw, func_node)
    return imax(ts_raw(func_node), 1) == d_ts(func_node) and ts_raw(func_node) >= 0


# ====================================================================================== Rust analyzer
@contract(RS + "RustNestingAnalyzer._find_function_body", props=["C01"], types=dict(self=RsAnalyzerT, func_node=TSNode, child=TSNode),
          returns=TSNode)
class RsFindFunctionBody:
    def requires(self, func_node):
        return func_node is not None

    def value(self, func_node):
        return first_child(func_node.children, "block")

    def inv0(self, func_node, rest):
        return first_child(func_node.children, "block") == first_child(rest, "block")


@contract(RS + "RustNestingAnalyzer.calculate_max_depth.visit_node", props=["C01"],
          types=dict(node=TSNode, current_depth=Int, new_depth=Int, child=TSNode, self=RsAnalyzerT, max_depth=Int, max_depth_line=Int),
          free=["self", "max_depth", "max_depth_line"], modifies=["max_depth", "max_depth_line"])
class RsVisitNode:
    def requires(node, current_depth, max_depth):
        return node is not None and max_depth >= 0 and current_depth >= 0

    def ensures_running_maximum(node, current_depth, max_depth, old):
        return max_depth == imax(old.max_depth, rs_node_depth(node, current_depth))

    def inv0(node, current_depth, new_depth, max_depth, old, rest):
        return max_depth >= 0 and new_depth >= 0 and \
            imax(imax(old.max_depth, current_depth), rs_seq_depth(node.children, new_depth)) == \
            imax(max_depth, rs_seq_depth(rest, new_depth))


@opaque
def rs_raw(func_node: TSNode) -> Int:
    """The depth RustNestingAnalyzer.calculate_max_depth returns (opaque for callers, see the `~documented` view)."""
    return rs_raw_depth(func_node)


RS_CALC_TYPES = dict(self=RsAnalyzerT, func_node=TSNode, body_node=TSNode, max_depth=Int, max_depth_line=Int, child=TSNode)


@contract(RS + "RustNestingAnalyzer.calculate_max_depth", props=["C01"], types=RS_CALC_TYPES, returns=TupleOf(Int, Int))
class RsCalculateMaxDepth:
    def requires(self, func_node):
        return func_node is not None

    def reveals(self, func_node):
        return reveal(rs_raw, func_node)

    def ensures_raw(self, func_node, result):
        return result[0] == rs_raw(func_node)

    def inv1(self, func_node, body_node, max_depth, rest):
        return body_node is not None and body_node == first_child(func_node.children, "block") and max_depth >= 0 and \
            imax(0, rs_seq_depth(body_node.children, 1)) == imax(max_depth, rs_seq_depth(rest, 1))


@contract(RS + "RustNestingAnalyzer.calculate_max_depth~documented", props=["C01"], types=RS_CALC_TYPES, returns=TupleOf(Int, Int))
class RsCalculateMaxDepthDocumented:
    def requires(self, func_node):
        return func_node is not None

    def ensures_documented_depth(self, func_node, result):
        # property text: 1 for the function body plus one per enclosing construct of the documented list (incl. `async`
        # blocks; fixed: C01-rust-async-block-not-counted)
        return imax(result[0], 1) == d_rs(func_node)

    def inv1(self, func_node, body_node, max_depth, rest):
        return body_node is not None and body_node == first_child(func_node.children, "block") and max_depth >= 0 and \
            imax(0, rs_seq_depth(body_node.children, 1)) == imax(max_depth, rs_seq_depth(rest, 1))


@lemma(props=["C01"], types=dict(func_node=TSNode), name="rust-raw-depth-is-documented-depth")
def rs_raw_is_documented(func_node):
    if func_node is None:
        return True
    reveal(rs_raw, func_node)
    return imax(rs_raw(func_node), 1) == d_rs(func_node) and rs_raw(func_node) >= 0


# ====================================================================================== function collection
from contracts import c01_ts_base  # noqa: E402,F401  (TypeScriptBaseAnalyzer contracts)
from contracts.c01_ts_base import ts_identifier_name, ts_root  # noqa: E402
from contracts.c17_clone import first_of_type, node_text  # noqa: E402  (spec functions of the RustBaseAnalyzer contracts)
from contracts.c17_rust_context import rust_root  # noqa: E402

FuncInfoT = TupleOf(TSNode, Str)
TS_FUNCTION_TYPES = ("function_declaration", "arrow_function", "method_definition", "function")


def ts_var_name(node, fallback):
    """Name of an arrow function / function expression: the variable it initialises, else the fallback label."""
    return fallback if node.parent is None or node.parent.type != "variable_declarator" \
        or ts_identifier_name(node.parent) == "anonymous" else ts_identifier_name(node.parent)


def ts_function_name(node):
    return ts_var_name(node, "arrow_function") if node.type == "arrow_function" else (
        ts_var_name(node, "function_expression") if node.type == "function" else ts_identifier_name(node))


def ts_functions(n: TSNode) -> SeqOf(FuncInfoT):
    """docs: functions, methods, arrow functions (and function expressions), each exactly once, in document order."""
    return ([(n, ts_function_name(n))] if n.type in TS_FUNCTION_TYPES else []) + ts_functions_seq(n.children)


def ts_functions_seq(s: SeqOf(TSNode)) -> SeqOf(FuncInfoT):
    if len(s) == 0:
        return []
    return ts_functions(s[0]) + ts_functions_seq(s[1:])


@contract(FX + "TypeScriptFunctionExtractor._extract_function_declaration", props=["C01"], types=dict(node=TSNode), returns=FuncInfoT)
class TsExtractFunctionDeclaration:
    def requires(self, node):
        return node is not None

    def value(self, node):
        return (node, ts_identifier_name(node))


@contract(FX + "TypeScriptFunctionExtractor._extract_method_definition", props=["C01"], types=dict(node=TSNode), returns=FuncInfoT)
class TsExtractMethodDefinition:
    def requires(self, node):
        return node is not None

    def value(self, node):
        return (node, ts_identifier_name(node))


@contract(FX + "TypeScriptFunctionExtractor._extract_arrow_function", props=["C01"], types=dict(node=TSNode, parent=TSNode, name=Str),
          returns=FuncInfoT)
class TsExtractArrowFunction:
    def requires(self, node):
        return node is not None

    def value(self, node):
        return (node, ts_var_name(node, "arrow_function"))


@contract(FX + "TypeScriptFunctionExtractor._extract_function_expression", props=["C01"],
          types=dict(node=TSNode, parent=TSNode, name=Str), returns=FuncInfoT)
class TsExtractFunctionExpression:
    def requires(self, node):
        return node is not None

    def value(self, node):
        return (node, ts_var_name(node, "function_expression"))


@contract(FX + "TypeScriptFunctionExtractor.extract_function_info", props=["C01", "C12"], types=dict(node=TSNode), returns=Opt(FuncInfoT))
class TsExtractFunctionInfo:
    def requires(self, node):
        return node is not None

    def value(self, node):
        return (node, ts_function_name(node)) if node.type in TS_FUNCTION_TYPES else None


@contract(FX + "TypeScriptFunctionExtractor._collect_functions_recursive", props=["C01", "C12"],
          types=dict(node=TSNode, functions=SeqOf(FuncInfoT), func_info=Opt(FuncInfoT), child=TSNode), modifies=["functions"])
class TsCollectFunctionsRecursive:
    def requires(self, node, functions):
        return node is not None

    def ensures_appends_functions_in_document_order(self, node, functions, old):
        return functions == old.functions + ts_functions(node)

    def inv0(self, node, functions, old, rest):
        return old.functions + ts_functions(node) == functions + ts_functions_seq(rest)


@contract(FX + "TypeScriptFunctionExtractor.collect_all_functions", props=["C01", "C12"], types=dict(self=TsFxT, root_node=TSNode),
          returns=SeqOf(FuncInfoT))
class TsCollectAllFunctions:
    def requires(self, root_node):
        return root_node is not None

    def value(self, root_node):
        return ts_functions(root_node)


@contract(TS + "TypeScriptNestingAnalyzer.find_all_functions", props=["C01", "C12"], types=dict(self=TsAnalyzerT, root_node=TSNode),
          returns=SeqOf(FuncInfoT))
class TsFindAllFunctions:
    """Every function of the file is analysed exactly once."""
    def requires(self, root_node):
        return root_node is not None

    def value(self, root_node):
        return ts_functions(root_node)


def rs_ident_name(node):
    """RustBaseAnalyzer.extract_identifier_name"""
    return "anonymous" if first_of_type(node.children, "identifier") is None \
        else node_text(first_of_type(node.children, "identifier"))


def rs_functions(n: TSNode) -> SeqOf(FuncInfoT):
    """Every function_item (free functions, methods in impl blocks, async fns), once, in document order."""
    return ([(n, rs_ident_name(n))] if n.type == "function_item" else []) + rs_functions_seq(n.children)


def rs_functions_seq(s: SeqOf(TSNode)) -> SeqOf(FuncInfoT):
    if len(s) == 0:
        return []
    return rs_functions(s[0]) + rs_functions_seq(s[1:])


@contract(RS + "RustNestingAnalyzer._collect_functions_recursive", props=["C01", "C12"],
          types=dict(node=TSNode, functions=SeqOf(FuncInfoT), name=Str, child=TSNode), modifies=["functions"])
class RsCollectFunctionsRecursive:
    def requires(self, node, functions):
        return node is not None

    def ensures_appends_functions_in_document_order(self, node, functions, old):
        return functions == old.functions + rs_functions(node)

    def inv0(self, node, functions, old, rest):
        return old.functions + rs_functions(node) == functions + rs_functions_seq(rest)


@contract(RS + "RustNestingAnalyzer.find_all_functions", props=["C01", "C12"], types=dict(self=RsAnalyzerT, root_node=TSNode),
          returns=SeqOf(FuncInfoT))
class RsFindAllFunctions:
    def ensures_every_function_once(self, root_node, result):
        return result == ([] if root_node is None else rs_functions(root_node))


# ====================================================================================== violation builder
BuilderT = Rec("NestingViolationBuilder", cls=VB + "NestingViolationBuilder", rule_id=Str)
OptPathT = Opt(PathT)
CtxT = Rec("LintContext", file_path=OptPathT, file_content=Opt(Str), language=Str, metadata=Any)
from contracts.c05_config import NestingConfigT  # noqa: E402  (record of NestingConfig; its contracts live in c05_config.py)

RULE_ID = "nesting.excessive-depth"


def path_text(context):
    """str(context.file_path or "")"""
    return path_str(context.file_path) if context.file_path is not None else ""


class _SeverityValue(str):
    """The value string of a Severity member that natively also compares equal to the member itself."""
    def __eq__(self, other):
        return getattr(other, "value", other) == str.__str__(self)

    def __ne__(self, other):
        return not self.__eq__(other)

    __hash__ = str.__hash__


SEV_ERROR = _SeverityValue("error")   # Severity.ERROR, the only severity

# same SMT sort as ViolationT (an EnumOf field is a string); natively the severity is the real Severity member
from pyvc.api import EnumOf  # noqa: E402
SevViolationT = ViolationT.extend(severity=EnumOf("src/core/types.py::Severity", pycls="src.core.types:Severity"))


def depth_message(name, depth):
    """Property text: the message states the depth."""
    return f"Function '{name}' has excessive nesting depth ({depth})"


def depth_suggestion(depth, limit):
    return (f"Maximum nesting depth of {depth} exceeds limit of {limit}. "
            "Consider extracting nested logic to separate functions, using early returns, "
            "or applying guard clauses to reduce nesting.")


def nesting_violation(rule_id, context, line, column, name, depth, limit):
    """THE violation of a function: at its header line/column, message stating the depth."""
    return violation_of(rule_id, path_text(context), line, column, depth_message(name, depth), SEV_ERROR,
                        depth_suggestion(depth, limit))


@contract(VB + "NestingViolationBuilder._generate_suggestion", props=["C01"],
          types=dict(self=BuilderT, actual_depth=Int, max_depth=Int), returns=Str)
class GenerateSuggestion:
    def value(self, actual_depth, max_depth):
        return depth_suggestion(actual_depth, max_depth)


@contract(VB + "NestingViolationBuilder.create_nesting_violation", props=["C01", "C12"],
          types=dict(self=BuilderT, func=PyNode, max_depth=Int, config=NestingConfigT, context=CtxT), returns=SevViolationT)
class CreateNestingViolation:
    def requires(self, func, max_depth, config, context):
        return is_funcdef(func)

    def value(self, func, max_depth, config, context):
        return nesting_violation(self.rule_id, context, func.lineno, func.col_offset, func.name, max_depth, config.max_nesting_depth)

    def ensures_header_line_and_depth(self, func, max_depth, config, context, result):
        return result.line == func.lineno and result.column == func.col_offset and result.message == depth_message(func.name, max_depth)


@contract(VB + "NestingViolationBuilder.create_typescript_nesting_violation", props=["C01", "C12"],
          types=dict(self=BuilderT, func_info=FuncInfoT, max_depth=Int, config=NestingConfigT, context=CtxT, func_node=TSNode,
                     func_name=Str, line=Int, column=Int), returns=SevViolationT)
class CreateTsNestingViolation:
    def requires(self, func_info, max_depth, config, context):
        return func_info[0] is not None

    def value(self, func_info, max_depth, config, context):
        return nesting_violation(self.rule_id, context, func_info[0].start_point[0] + 1, func_info[0].start_point[1],
                                 func_info[1], max_depth, config.max_nesting_depth)

    def ensures_header_line_and_depth(self, func_info, max_depth, config, context, result):
        return result.line == func_info[0].start_point[0] + 1 and result.column == func_info[0].start_point[1] \
            and result.message == depth_message(func_info[1], max_depth)


@contract(VB + "NestingViolationBuilder.create_rust_nesting_violation", props=["C01", "C12"],
          types=dict(self=BuilderT, func_info=FuncInfoT, max_depth=Int, config=NestingConfigT, context=CtxT, func_node=TSNode,
                     func_name=Str, line=Int, column=Int), returns=SevViolationT)
class CreateRsNestingViolation:
    def requires(self, func_info, max_depth, config, context):
        return func_info[0] is not None

    def value(self, func_info, max_depth, config, context):
        return nesting_violation(self.rule_id, context, func_info[0].start_point[0] + 1, func_info[0].start_point[1],
                                 func_info[1], max_depth, config.max_nesting_depth)

    def ensures_header_line_and_depth(self, func_info, max_depth, config, context, result):
        return result.line == func_info[0].start_point[0] + 1 and result.column == func_info[0].start_point[1] \
            and result.message == depth_message(func_info[1], max_depth)


SyntaxErrorT = Rec("SyntaxErrorInfo", lineno=Opt(Int), offset=Opt(Int), msg=Str)


@contract(VB + "NestingViolationBuilder.create_syntax_error_violation", props=["C01", "C12"],
          types=dict(self=BuilderT, error=SyntaxErrorT, context=CtxT), returns=SevViolationT)
class CreateSyntaxErrorViolation:
    def ensures_points_at_the_error(self, error, context, result):
        return (result.rule_id == self.rule_id and result.file_path == path_text(context)
                and result.line == (error.lineno if error.lineno else 0) and result.column == (error.offset if error.offset else 0)
                and result.message == f"Syntax error: {error.msg}")


# ====================================================================================== linter
IgnoreParserT = Opaque("IgnoreDirectiveParser")
RuleT = Rec("NestingDepthRule", cls=LI + "NestingDepthRule", pycls="src.linters.nesting.linter:NestingDepthRule",
            _ignore_parser=IgnoreParserT, _violation_builder=BuilderT,
            _python_analyzer=PyAnalyzerT, _typescript_analyzer=TsAnalyzerT, _rust_analyzer=RsAnalyzerT)


def _native_rule(obj):
    """Native rendering of a rule object built from a model/witness: the real ignore parser is plugged in."""
    from src.linter_config.ignore import get_ignore_parser
    object.__setattr__(obj, "_ignore_parser", get_ignore_parser())
    return obj


RuleT.native_post = _native_rule


def _register_native_generators():
    from pyvc import selftest
    from src.linter_config.ignore import get_ignore_parser
    selftest.OPAQUE_GENERATORS.setdefault("IgnoreDirectiveParser", lambda g: get_ignore_parser())


try:
    _register_native_generators()
except Exception:  # noqa  (repository not importable at contract-load time: the cross-check then skips these units)
    pass

# inline suppression directives are property C04's subject: for C01 an uninterpreted predicate of the violation's
# (rule id, line) and the file content
def _native_inline_ignored(rule_id, line, content):
    from src.core.types import Severity, Violation
    from src.linter_config.ignore import get_ignore_parser
    v = Violation(rule_id=rule_id, file_path="", line=line, column=0, message="", severity=Severity.ERROR)
    return bool(get_ignore_parser().should_ignore_violation(v, content))


nesting_inline_ignored = uf("nesting_inline_ignored", [Str, Int, Str], Bool, concrete=_native_inline_ignored)


def content_of(context):
    return context.file_content if context.file_content else ""


def suppressed(rule_id, line, context):
    return nesting_inline_ignored(rule_id, line, content_of(context))


@contract(LI + "NestingDepthRule.rule_id", props=["C01"], types=dict(self=RuleT), returns=Str)
class NestingRuleId:
    def value(self):
        return RULE_ID


@contract(LI + "NestingDepthRule._should_ignore", props=["C01"], types=dict(self=RuleT, violation=ViolationT, context=CtxT),
          returns=Bool,
          assumed="inline suppression directives (ignore parser): subject of property C04; for C01 an uninterpreted "
                  "predicate of (rule id, line, file content)")
class NestingShouldIgnore:
    def value(self, violation, context):
        return nesting_inline_ignored(violation.rule_id, violation.line, content_of(context))


def flagged(depth, limit):
    """Property text: reported iff the nesting depth EXCEEDS max_nesting_depth."""
    return depth > limit


def py_verdict(func, depth, limit, rule_id, context):
    """The decision for ONE function of the given depth: a single violation (header line, depth in the message) iff the
    depth exceeds the limit and no inline directive suppresses it."""
    return [nesting_violation(rule_id, context, func.lineno, func.col_offset, func.name, depth, limit)] \
        if flagged(depth, limit) and not suppressed(rule_id, func.lineno, context) else []


def py_verdicts_doc(funcs: SeqOf(PyNode), limit: Int, rule_id: Str, context: CtxT) -> SeqOf(ViolationT):
    """Property text: the verdicts of all functions, in order, on the DOCUMENTED depth."""
    if len(funcs) == 0:
        return []
    return py_verdict(funcs[0], d_py_documented(funcs[0]), limit, rule_id, context) + py_verdicts_doc(funcs[1:], limit, rule_id, context)


def py_verdicts(funcs: SeqOf(PyNode), limit: Int, rule_id: Str, context: CtxT) -> SeqOf(ViolationT):
    """The same decision procedure on the depth the Python analyzer computes (py_raw = documented depth - 1, match_case
    arms aside: known findings on calculate_max_depth~documented)."""
    if len(funcs) == 0:
        return []
    return py_verdict(funcs[0], py_raw(funcs[0]), limit, rule_id, context) + py_verdicts(funcs[1:], limit, rule_id, context)


@contract(LI + "NestingDepthRule._process_python_functions", props=["C01"],
          types=dict(self=RuleT, functions=SeqOf(PyNode), analyzer=PyAnalyzerT, config=NestingConfigT, context=CtxT,
                     violations=SeqOf(ViolationT), func=PyNode, max_depth=Int, _line=Int, violation=ViolationT),
          returns=SeqOf(ViolationT))
class ProcessPythonFunctions:
    def requires(self, functions, analyzer, config, context):
        return config.max_nesting_depth >= 1 and self._violation_builder.rule_id == RULE_ID and all_funcdefs(functions)

    def ensures_documented_verdicts(self, functions, analyzer, config, context, result):
        # property text (expected to fail with the analyzer: known finding C01-python-depth-offset-verdict)
        return result == py_verdicts_doc(functions, config.max_nesting_depth, RULE_ID, context)

    def witness_code_verdicts():
        # one function whose analyzer depth (1) EQUALS the limit (1): must not be reported (strict >)
        return {"self": {"_violation_builder": {"rule_id": RULE_ID}, "_python_analyzer": {}, "_typescript_analyzer": {},
                         "_rust_analyzer": {}},
                "functions": [{"__node__": "f", "kind_": "FunctionDef", "name": "f", "lineno": 1, "col_offset": 0,
                               "decorator_list": [],
                               "body": [{"__node__": "i", "kind_": "If", "lineno": 2, "col_offset": 4, "orelse": [],
                                         "body": [{"__node__": "p", "kind_": "Pass", "lineno": 3, "col_offset": 8}]}]}],
                "analyzer": {}, "config": {"max_nesting_depth": 1, "enabled": True},
                "context": {"file_path": None, "file_content": "def f(x):\n    if x:\n        pass\n", "language": "python"}}

    def ensures_code_verdicts(self, functions, analyzer, config, context, result):
        # finding-adjusted: the same decision procedure (strict >, one violation per function, header line, depth in the
        # message) on the depth the Python analyzer computes
        return result == py_verdicts(functions, config.max_nesting_depth, RULE_ID, context)

    def inv0(self, functions, config, context, violations, old, rest):
        return self == old.self and config == old.config and context == old.context and all_funcdefs(rest) and \
            py_verdicts(functions, config.max_nesting_depth, RULE_ID, context) == \
            violations + py_verdicts(rest, config.max_nesting_depth, RULE_ID, context)


@contract(LI + "NestingDepthRule._process_python_functions~location", props=["C12"],
          types=dict(self=RuleT, functions=SeqOf(PyNode), analyzer=PyAnalyzerT, config=NestingConfigT, context=CtxT,
                     violations=SeqOf(ViolationT), func=PyNode, max_depth=Int, _line=Int, violation=ViolationT),
          returns=SeqOf(ViolationT))
class ProcessPythonFunctionsLocation:
    """C12 view of the Python reporting loop (the depth clauses, incl. the documented one with its known finding, are C01's):
    every violation is the one of a function of the list, at that function's header line / column, naming it."""
    def requires(self, functions, analyzer, config, context):
        return config.max_nesting_depth >= 1 and self._violation_builder.rule_id == RULE_ID and all_funcdefs(functions)

    def ensures_each_violation_at_its_functions_header(self, functions, analyzer, config, context, result):
        return result == py_verdicts(functions, config.max_nesting_depth, RULE_ID, context)

    def inv0(self, functions, config, context, violations, old, rest):
        return self == old.self and config == old.config and context == old.context and all_funcdefs(rest) and \
            py_verdicts(functions, config.max_nesting_depth, RULE_ID, context) == \
            violations + py_verdicts(rest, config.max_nesting_depth, RULE_ID, context)


def ts_depth(func_node):
    """The documented depth of a TypeScript function (= d_ts(func_node), lemma typescript-raw-depth-is-documented-depth)."""
    return imax(ts_raw(func_node), 1)


def ts_verdict(fn, limit, rule_id, context):
    return [nesting_violation(rule_id, context, fn[0].start_point[0] + 1, fn[0].start_point[1], fn[1], ts_depth(fn[0]), limit)] \
        if flagged(ts_depth(fn[0]), limit) and not suppressed(rule_id, fn[0].start_point[0] + 1, context) else []


def ts_verdicts(funcs: SeqOf(FuncInfoT), limit: Int, rule_id: Str, context: CtxT) -> SeqOf(ViolationT):
    """One violation (header line, depth in the message) for every function whose documented depth exceeds the limit."""
    if len(funcs) == 0:
        return []
    return ts_verdict(funcs[0], limit, rule_id, context) + ts_verdicts(funcs[1:], limit, rule_id, context)


def fn_nodes_ok(funcs: SeqOf(FuncInfoT)) -> Bool:
    """Every collected function is an actual node (true of everything the collectors return)."""
    return len(funcs) == 0 or (funcs[0][0] is not None and fn_nodes_ok(funcs[1:]))


@contract(LI + "NestingDepthRule._process_typescript_functions", props=["C01", "C12"],
          types=dict(self=RuleT, functions=SeqOf(FuncInfoT), analyzer=TsAnalyzerT, config=NestingConfigT, context=CtxT,
                     violations=SeqOf(ViolationT), func_node=TSNode, func_name=Str, max_depth=Int, _line=Int, violation=ViolationT),
          returns=SeqOf(ViolationT))
class ProcessTypescriptFunctions:
    def requires(self, functions, analyzer, config, context):
        return config.max_nesting_depth >= 1 and self._violation_builder.rule_id == RULE_ID and fn_nodes_ok(functions)

    def witness_documented_verdicts():
        # function f() { if (x) {} }: depth 2 EQUALS the limit 2: must not be reported (strict >)
        return {"self": {"_violation_builder": {"rule_id": RULE_ID}, "_python_analyzer": {}, "_typescript_analyzer": {},
                         "_rust_analyzer": {}},
                "functions": [[{"__node__": "f", "type": "function_declaration", "start_point": [0, 0], "end_point": [2, 1], "text": None, "children": [
                    {"__node__": "b", "type": "statement_block", "start_point": [0, 13], "end_point": [2, 1], "text": None, "children": [
                        {"__node__": "i", "type": "if_statement", "start_point": [1, 2], "end_point": [1, 10], "text": None,
                         "children": [{"__node__": "k", "type": "if", "start_point": [1, 2], "end_point": [1, 4],
                                       "text": None, "children": []}]}]}]}, "f"]],
                "analyzer": {"tree_sitter_available": True, "function_extractor": {}},
                "config": {"max_nesting_depth": 2, "enabled": True},
                "context": {"file_path": None, "file_content": "function f() {\n  if (x) {}\n}\n", "language": "typescript"}}

    def ensures_documented_verdicts(self, functions, analyzer, config, context, result):
        # property text: reported iff the documented depth exceeds max_nesting_depth; one violation per function; the
        # message states the depth; line = header line
        return result == ts_verdicts(functions, config.max_nesting_depth, RULE_ID, context)

    def inv0(self, functions, config, context, violations, old, rest):
        return self == old.self and config == old.config and context == old.context and fn_nodes_ok(rest) and \
            ts_verdicts(functions, config.max_nesting_depth, RULE_ID, context) == \
            violations + ts_verdicts(rest, config.max_nesting_depth, RULE_ID, context)


def rs_depth(func_node):
    """The documented depth of a Rust function (= d_rs(func_node), lemma rust-raw-depth-is-documented-depth)."""
    return imax(rs_raw(func_node), 1)


def rs_verdict(fn, limit, rule_id, context):
    return [nesting_violation(rule_id, context, fn[0].start_point[0] + 1, fn[0].start_point[1], fn[1], rs_depth(fn[0]), limit)] \
        if flagged(rs_depth(fn[0]), limit) and not suppressed(rule_id, fn[0].start_point[0] + 1, context) else []


def rs_verdicts(funcs: SeqOf(FuncInfoT), limit: Int, rule_id: Str, context: CtxT) -> SeqOf(ViolationT):
    if len(funcs) == 0:
        return []
    return rs_verdict(funcs[0], limit, rule_id, context) + rs_verdicts(funcs[1:], limit, rule_id, context)


@contract(LI + "NestingDepthRule._process_rust_functions", props=["C01", "C12"],
          types=dict(self=RuleT, functions=SeqOf(FuncInfoT), config=NestingConfigT, context=CtxT,
                     violations=SeqOf(ViolationT), func_node=TSNode, func_name=Str, max_depth=Int, _line=Int, violation=ViolationT),
          returns=SeqOf(ViolationT))
class ProcessRustFunctions:
    def requires(self, functions, config, context):
        return config.max_nesting_depth >= 1 and self._violation_builder.rule_id == RULE_ID and fn_nodes_ok(functions)

    def witness_documented_verdicts():
        # fn f() { if x {} }: depth 2 EQUALS the limit 2: must not be reported (strict >)
        return {"self": {"_violation_builder": {"rule_id": RULE_ID}, "_python_analyzer": {}, "_typescript_analyzer": {},
                         "_rust_analyzer": {"tree_sitter_available": True}},
                "functions": [[{"__node__": "f", "type": "function_item", "start_point": [0, 0], "end_point": [2, 1], "text": None, "children": [
                    {"__node__": "b", "type": "block", "start_point": [0, 13], "end_point": [2, 1], "text": None, "children": [
                        {"__node__": "i", "type": "if_expression", "start_point": [1, 2], "end_point": [1, 10], "text": None,
                         "children": [{"__node__": "k", "type": "if", "start_point": [1, 2], "end_point": [1, 4],
                                       "text": None, "children": []}]}]}]}, "f"]],
                "config": {"max_nesting_depth": 2, "enabled": True},
                "context": {"file_path": None, "file_content": "fn f() {\n  if x {}\n}\n", "language": "rust"}}

    def ensures_documented_verdicts(self, functions, config, context, result):
        # property text: reported iff the documented depth exceeds max_nesting_depth; one violation per function
        return result == rs_verdicts(functions, config.max_nesting_depth, RULE_ID, context)

    def inv0(self, functions, config, context, violations, old, rest):
        return self == old.self and config == old.config and context == old.context and fn_nodes_ok(rest) and \
            rs_verdicts(functions, config.max_nesting_depth, RULE_ID, context) == \
            violations + rs_verdicts(rest, config.max_nesting_depth, RULE_ID, context)


def _native_py_parse(text):
    return ast.parse(text)


py_root = uf("py_root_c01", [Str], PyNode, concrete=_native_py_parse)   # Module node of a source text (CPython parser trusted)


def py_functions(tree):
    return [node for node in py_walk(tree) if isinstance(node, (ast.FunctionDef, ast.AsyncFunctionDef))]


@contract(LI + "NestingDepthRule._analyze_python_tree", props=["C01", "C12"],
          types=dict(self=RuleT, tree=PyNode, config=NestingConfigT, context=CtxT), returns=SeqOf(ViolationT))
class AnalyzePythonTree:
    """Every function definition of the tree is analysed exactly once (ast.walk order)."""
    def requires(self, tree, config, context):
        return tree is not None and config.max_nesting_depth >= 1 and self._violation_builder.rule_id == RULE_ID

    def ensures_code_verdicts(self, tree, config, context, result):
        return result == py_verdicts(py_functions(tree), config.max_nesting_depth, RULE_ID, context)


@contract(LI + "NestingDepthRule._check_python", props=["C01", "C12"], types=dict(self=RuleT, context=CtxT, config=NestingConfigT),
          returns=SeqOf(ViolationT),
          assumed="with_parsed_python (higher-order helper around the CPython parser): parses the file content and applies "
                  "_analyze_python_tree to the Module node; the SyntaxError branch is outside the model (C01 quantifies "
                  "over parseable programs)")
class CheckPython:
    def ensures_code_verdicts(self, context, config, result):
        return result == py_verdicts(py_functions(py_root(content_of(context))), config.max_nesting_depth, RULE_ID, context)




@contract(LI + "NestingDepthRule._check_typescript", props=["C01", "C12"],
          types=dict(self=RuleT, context=CtxT, config=NestingConfigT, root_node=Opt(TSNode), functions=SeqOf(FuncInfoT)),
          returns=SeqOf(ViolationT))
class CheckTypescript:
    def requires(self, context, config):
        return config.max_nesting_depth >= 1 and self._violation_builder.rule_id == RULE_ID and \
            implies(ts_root(content_of(context)) is not None, fn_nodes_ok(ts_functions(ts_root(content_of(context)))))

    def ensures_documented_verdicts(self, context, config, result):
        return result == ([] if ts_root(content_of(context)) is None else
                          ts_verdicts(ts_functions(ts_root(content_of(context))), config.max_nesting_depth, RULE_ID, context))


@contract(LI + "NestingDepthRule._check_rust", props=["C01", "C12"],
          types=dict(self=RuleT, context=CtxT, config=NestingConfigT, root_node=Opt(TSNode), functions=SeqOf(FuncInfoT)),
          returns=SeqOf(ViolationT))
class CheckRust:
    def requires(self, context, config):
        return config.max_nesting_depth >= 1 and self._violation_builder.rule_id == RULE_ID and \
            implies(rust_root(content_of(context)) is not None, fn_nodes_ok(rs_functions(rust_root(content_of(context)))))

    def ensures_documented_verdicts(self, context, config, result):
        return result == ([] if rust_root(content_of(context)) is None else
                          rs_verdicts(rs_functions(rust_root(content_of(context))), config.max_nesting_depth, RULE_ID, context))


def nesting_section(context):
    """The ONLY configuration the rule consults: metadata["nesting"] of the file's context ({} when absent)."""
    return (dict(context.metadata) if isinstance(context.metadata, dict) else {}).get("nesting", {})


def nesting_lang_section(context):
    return nesting_section(context).get(context.language, {}) if context.language != "" else {}


def nesting_limit_of(context):
    """Property text / docs: <language>.max_nesting_depth over max_nesting_depth over the default 4, for THIS file's
    language; 4 when there is no (dict) section."""
    return nesting_lang_section(context).get("max_nesting_depth", nesting_section(context).get("max_nesting_depth", 4)) \
        if isinstance(nesting_section(context), dict) else 4


def nesting_section_ok(context):
    return implies(isinstance(nesting_section(context), dict),
                   isinstance(nesting_lang_section(context), dict)
                   and isinstance(nesting_lang_section(context).get("max_nesting_depth", 0), int)
                   and isinstance(nesting_section(context).get("max_nesting_depth", 0), int)
                   and isinstance(nesting_section(context).get("enabled", True), bool))


@opaque
def nesting_cfg(context: CtxT) -> NestingConfigT:
    """THE configuration of a file (a function of its context only)."""
    return mk(NestingConfigT, max_nesting_depth=nesting_limit_of(context),
              enabled=nesting_section(context).get("enabled", True) if isinstance(nesting_section(context), dict) else True)


@contract(LI + "NestingDepthRule._load_config", props=["C01"],
          types=dict(self=RuleT, context=CtxT, metadata=Any, config_dict=Any, language=Opt(Str)),
          returns=NestingConfigT, raises=["ValueError"], inline=["load_linter_config"])
class NestingLoadConfig:
    """Stateless: the limit of a file is a function of its context's `nesting` section and ITS language only; a limit
    below 1 is rejected."""
    def requires(self, context):
        return nesting_section_ok(context)

    def raises_when(self, context):
        return nesting_limit_of(context) <= 0

    def reveals(self, context):
        return reveal(nesting_cfg, context)

    def value(self, context):
        return nesting_cfg(context)

    def ensures_limit_of_this_language(self, context, result):
        return result.max_nesting_depth == nesting_limit_of(context) and result.max_nesting_depth >= 1


# ====================================================================================== property-level lemmas
P_TS = LI + "NestingDepthRule._process_typescript_functions"
P_PY = LI + "NestingDepthRule._process_python_functions"
P_RS = LI + "NestingDepthRule._process_rust_functions"


@lemma(props=["C01"], types=dict(depth=Int, k=Int), name="flip-exactly-one-limit-value-spec")
def flip_spec(depth, k):
    """The verdict, as a function of the limit, changes between k and k+1 for exactly one k (k = depth - 1): reported for
    every smaller limit, not reported for every larger one."""
    return ((flagged(depth, k) != flagged(depth, k + 1)) == (k + 1 == depth)
            and implies(flagged(depth, k + 1), flagged(depth, k))
            and flagged(depth, depth - 1) and not flagged(depth, depth))


@lemma(props=["C01"], types=dict(rule=RuleT, fn=FuncInfoT, analyzer=TsAnalyzerT, k=Int, context=CtxT), name="flip-typescript")
def flip_ts(rule, fn, analyzer, k, context):
    """TypeScript: one function, limits k and k+1: at most one violation each, and the verdict flips iff depth == k+1."""
    if fn[0] is None or k < 1 or rule._violation_builder.rule_id != RULE_ID or suppressed(RULE_ID, fn[0].start_point[0] + 1, context):
        return True
    a = call(P_TS, rule, [fn], analyzer, mk(NestingConfigT, max_nesting_depth=k, enabled=True), context)
    b = call(P_TS, rule, [fn], analyzer, mk(NestingConfigT, max_nesting_depth=k + 1, enabled=True), context)
    use(ts_raw_is_documented, fn[0])
    return (len(a) <= 1 and len(b) <= 1 and (len(a) == 1) == (d_ts(fn[0]) > k) and (len(b) == 1) == (d_ts(fn[0]) > k + 1)
            and (len(a) != len(b)) == (d_ts(fn[0]) == k + 1)
            and implies(len(a) == 1, a[0].line == fn[0].start_point[0] + 1 and a[0].message == depth_message(fn[1], d_ts(fn[0]))))


@lemma(props=["C01"], types=dict(rule=RuleT, fn=FuncInfoT, k=Int, context=CtxT), name="flip-rust")
def flip_rs(rule, fn, k, context):
    if fn[0] is None or k < 1 or rule._violation_builder.rule_id != RULE_ID or suppressed(RULE_ID, fn[0].start_point[0] + 1, context):
        return True
    a = call(P_RS, rule, [fn], mk(NestingConfigT, max_nesting_depth=k, enabled=True), context)
    b = call(P_RS, rule, [fn], mk(NestingConfigT, max_nesting_depth=k + 1, enabled=True), context)
    use(rs_raw_is_documented, fn[0])
    return (len(a) <= 1 and len(b) <= 1 and (len(a) != len(b)) == (d_rs(fn[0]) == k + 1)
            and implies(len(a) == 1, a[0].line == fn[0].start_point[0] + 1
                        and a[0].message == depth_message(fn[1], d_rs(fn[0]))))


@lemma(props=["C01"], types=dict(rule=RuleT, fn=PyNode, analyzer=PyAnalyzerT, k=Int, context=CtxT), name="flip-python")
def flip_py(rule, fn, analyzer, k, context):
    """Python (on the analyzer's depth, see C01-python-depth-offset): the verdict flips at exactly one limit value."""
    if not is_funcdef(fn) or k < 1 or rule._violation_builder.rule_id != RULE_ID or suppressed(RULE_ID, fn.lineno, context):
        return True
    a = call(P_PY, rule, [fn], analyzer, mk(NestingConfigT, max_nesting_depth=k, enabled=True), context)
    b = call(P_PY, rule, [fn], analyzer, mk(NestingConfigT, max_nesting_depth=k + 1, enabled=True), context)
    reveal(py_raw, fn)
    return (len(a) <= 1 and len(b) <= 1 and (len(a) != len(b)) == (h_py(fn, False) == k + 1)
            and implies(len(a) == 1, a[0].line == fn.lineno and a[0].message == depth_message(fn.name, h_py(fn, False))))


# ---- wrap lemmas (spec level): a statement at level d that gets wrapped in ONE more control structure sits at d + 1 ----
@lemma(props=["C01"], types=dict(w=TSNode, x=TSNode, d=Int), name="wrap-typescript")
def wrap_ts(w, x, d):
    """TypeScript: x a statement without nested structure at level d (deepest level below it: d); wrapped as the only
    child of a control node w at the same place, the deepest level becomes exactly d + 1."""
    if w is None or x is None or d < 1 or not ts_is_ctl(w) or x.children != [] or w.children != [x]:
        return True
    return ts_node_depth(x, d) == d and ts_node_depth(w, d) == d + 1


@lemma(props=["C01"], types=dict(w=TSNode, x=TSNode, d=Int), name="wrap-rust")
def wrap_rs(w, x, d):
    if w is None or x is None or d < 1 or not rs_is_ctl(w) or x.children != [] or w.children != [x]:
        return True
    return rs_node_depth(x, d) == d and rs_node_depth(w, d) == d + 1


@lemma(props=["C01"], types=dict(w=PyNode, x=PyNode, d=Int), name="wrap-python")
def wrap_py(w, x, d):
    """Python (documented constructs): a simple statement x under d control structures; wrapped in a loop / with / try /
    match w (its only child), or in an `if` (its whole body, no else), it is under exactly d + 1."""
    if w is None or x is None or d < 0 or isinstance(x, ast.If) or py_ctl_doc(x) or len(py_children(x)) != 0:
        return True
    if isinstance(w, ast.If):
        if len(w.body) != 1 or w.body[0] != x or len(w.orelse) != 0:
            return True
        return r_node(x, d, False, True) == 0 and r_node(w, d, False, True) == d + 1
    if not py_ctl_doc(w) or len(py_children(w)) != 1 or py_children(w)[0] != x:
        return True
    return r_node(x, d, False, True) == 0 and r_node(w, d, False, True) == d + 1


@lemma(props=["C01"], types=dict(a=PyNode, b=PyNode, x=PyNode, y=PyNode, d=Int), name="python-elif-chain-counts-once")
def elif_once(a, b, x, y, d):
    """if c1: x  elif c2: y   -- both branches of the chain sit at level d + 1 (the elif opens no further level)."""
    if a is None or b is None or x is None or y is None or d < 0:
        return True
    if not (isinstance(a, ast.If) and isinstance(b, ast.If) and len(a.body) == 1 and a.body[0] == x and len(a.orelse) == 1
            and a.orelse[0] == b and len(b.body) == 1 and b.body[0] == y and len(b.orelse) == 0):
        return True
    if isinstance(x, ast.If) or py_ctl_code(x) or len(py_children(x)) != 0 or isinstance(y, ast.If) or py_ctl_code(y) \
            or len(py_children(y)) != 0:
        return True
    return r_node(a, d, False, True) == d + 1 and r_node(a, d, False, False) == d + 1


# ---- cross-language agreement (spec level): base and step of the induction over a skeleton of nested constructs --------
def lvl_py(x, d):
    """Deepest level below Python node x sitting under d control structures, in the TypeScript/Rust convention
    (function body = level 1)."""
    return 1 + imax(d, r_node(x, d, False, True))


@lemma(props=["C01"], types=dict(xp=PyNode, xt=TSNode, xr=TSNode, d=Int), name="cross-language-base")
def cross_base(xp, xt, xr, d):
    """A simple statement under d control structures is at level d + 1 in all three languages."""
    if xp is None or xt is None or xr is None or d < 0:
        return True
    if isinstance(xp, ast.If) or py_ctl_doc(xp) or len(py_children(xp)) != 0 or len(xt.children) != 0 or len(xr.children) != 0:
        return True
    return lvl_py(xp, d) == d + 1 and ts_node_depth(xt, d + 1) == d + 1 and rs_node_depth(xr, d + 1) == d + 1


@lemma(props=["C01"], types=dict(wp=PyNode, xp=PyNode, wt=TSNode, xt=TSNode, wr=TSNode, xr=TSNode, d=Int),
       name="cross-language-step")
def cross_step(wp, xp, wt, xt, wr, xr, d):
    """If three renderings xp/xt/xr of a sub-skeleton agree on their deepest level one level further in, then wrapping each
    in a (documented, non-if) control structure of its language yields renderings that agree, too. With the base lemma:
    the same skeleton of nested control structures gets the same documented depth in Python, TypeScript and Rust."""
    if wp is None or xp is None or wt is None or xt is None or wr is None or xr is None or d < 0:
        return True
    if not (py_ctl_doc(wp) and not isinstance(wp, ast.If) and len(py_children(wp)) == 1 and py_children(wp)[0] == xp
            and ts_is_ctl(wt) and len(wt.children) == 1 and wt.children[0] == xt
            and rs_is_ctl(wr) and len(wr.children) == 1 and wr.children[0] == xr):
        return True
    if not (lvl_py(xp, d + 1) == ts_node_depth(xt, d + 2) and ts_node_depth(xt, d + 2) == rs_node_depth(xr, d + 2)):
        return True
    return lvl_py(wp, d) == ts_node_depth(wt, d + 1) and ts_node_depth(wt, d + 1) == rs_node_depth(wr, d + 1)


# ---- configuration (contracts on NestingConfig live in c05_config.py, props C05 + C01) --------------------------------
from pyvc.api import dict_put  # noqa: E402

NEST_FROM_DICT = "src/linters/nesting/config.py::NestingConfig.from_dict"


def nest_pick(config, language):
    """Documented precedence: <language>.max_nesting_depth over max_nesting_depth over the default 4."""
    return (config[language]["max_nesting_depth"]
            if language is not None and language != "" and language in config and "max_nesting_depth" in config[language]
            else (config["max_nesting_depth"] if "max_nesting_depth" in config else 4))


def nest_cfg_ok(config, language):
    return (implies(language is not None and language != "" and language in config, isinstance(config[language], dict))
            and implies("max_nesting_depth" in config, isinstance(config["max_nesting_depth"], int))
            and implies(language is not None and language != "" and language in config,
                        implies("max_nesting_depth" in config[language], isinstance(config[language]["max_nesting_depth"], int))))


@lemma(props=["C01"], types=dict(config=Dict, language=Str, other=Str, section=Any), name="nesting-limit-per-language")
def nesting_limit_per_language(config, language, other, section):
    """The limit used for a file is its language's override, else the top-level value, else 4; it is always >= 1 (invalid
    values are rejected); changing ANOTHER language's section never changes it."""
    if language == other or language == "" or other == "max_nesting_depth":
        return True
    config2 = dict_put(config, other, section)
    if not (nest_cfg_ok(config, language) and nest_cfg_ok(config2, language)):
        return True
    if not (nest_pick(config, language) > 0 and nest_pick(config2, language) > 0):
        return True  # rejected with ValueError by NestingConfig.__post_init__
    a = call(NEST_FROM_DICT, config, language)
    b = call(NEST_FROM_DICT, config2, language)
    return a.max_nesting_depth == nest_pick(config, language) and a.max_nesting_depth >= 1 \
        and b.max_nesting_depth == a.max_nesting_depth


# ====================================================================================== the rule's entry point (inherited)
BASE_CHECK = "src/core/base.py::MultiLanguageLintRule.check"


def nesting_verdicts(context, limit):
    """The verdicts of one file under the given limit, by language (Python / TypeScript+JavaScript / Rust; else nothing)."""
    return py_verdicts(py_functions(py_root(content_of(context))), limit, RULE_ID, context) if context.language == "python" else (
        ([] if ts_root(content_of(context)) is None else ts_verdicts(ts_functions(ts_root(content_of(context))), limit, RULE_ID, context))
        if context.language in ("typescript", "javascript") else (
            ([] if rust_root(content_of(context)) is None
             else rs_verdicts(rs_functions(rust_root(content_of(context))), limit, RULE_ID, context))
            if context.language == "rust" else []))


@contract(BASE_CHECK + "~nesting", props=["C01", "C12"], types=dict(self=RuleT, context=CtxT, config=NestingConfigT),
          returns=SeqOf(ViolationT), raises=["ValueError"], inline=["has_file_content", "_dispatch_by_language"])
class NestingRuleCheck:
    """NestingDepthRule.check (inherited from MultiLanguageLintRule, verified here for the nesting rule): nothing without
    content or when disabled; else the verdicts of the file's language under the limit of THAT language -- a function of
    this context only (no state carried from one file to the next)."""
    def requires(self, context):
        return nesting_section_ok(context) and self._violation_builder.rule_id == RULE_ID \
            and implies(ts_root(content_of(context)) is not None, fn_nodes_ok(ts_functions(ts_root(content_of(context))))) \
            and implies(rust_root(content_of(context)) is not None, fn_nodes_ok(rs_functions(rust_root(content_of(context)))))

    def raises_when(self, context):
        return context.file_content is not None and nesting_limit_of(context) <= 0

    def reveals(self, context):
        return reveal(nesting_cfg, context)

    def ensures_verdicts_under_this_languages_limit(self, context, result):
        return result == (nesting_verdicts(context, nesting_limit_of(context))
                          if context.file_content is not None and nesting_cfg(context).enabled else [])
