"""C01 -- nesting depth (src/linters/nesting/*).

Documented depth (docs/nesting-linter.md, property text): D(f) = 1 for the function body + 1 for every control
structure enclosing the deepest statement; a Python if/elif/else chain counts once. Over the abstract control tree:
D(f) = 1 + H(body), H(ts) = max over t in ts of (is_ctl(t) ? 1 : 0) + H(kids(t)), max of nothing = 0.
Per-language control nodes (DESIGN.md 3/C01, read off the docs):
  Python      If (not in elif position), For, While, With, AsyncWith, Try, Match; match_case / ExceptHandler are arms
  TypeScript  if/for/for_in/while/do/try/switch/with statements
  Rust        if/match/loop/while/for expressions and closures
Which tree a source text yields is outside every proof (parsers trusted)."""
import ast

from pyvc.api import (contract, lemma, Any, Int, Bool, Str, Dict, SeqOf, Rec, Opt, TupleOf, Opaque, implies, call, mk, ih, uf,
                      opaque, reveal, use)
from contracts._nodes import TSNode, PyNode
from contracts._common import ViolationT, PathT, path_str, py_children, py_walk  # noqa: F401  (+ ast.walk / iter_child_nodes)
from contracts import c12_core  # noqa: F401  (BaseViolationBuilder.build_from_params)
from contracts.c12_core import violation_of

PY = "src/linters/nesting/python_analyzer.py::"
TS = "src/linters/nesting/typescript_analyzer.py::"
RS = "src/linters/nesting/rust_analyzer.py::"
LI = "src/linters/nesting/linter.py::"
VB = "src/linters/nesting/violation_builder.py::"
FX = "src/linters/nesting/typescript_function_extractor.py::"

TrackerT = Rec("_DepthTracker", cls=PY + "_DepthTracker", pycls="src.linters.nesting.python_analyzer:_DepthTracker",
               max_depth=Int, max_depth_line=Int)
PyAnalyzerT = Rec("PythonNestingAnalyzer", cls=PY + "PythonNestingAnalyzer")


# ====================================================================================== Python: specification
def is_elif_position(orelse):
    """An `elif` is an If that is the sole statement of its parent's orelse."""
    return len(orelse) == 1 and isinstance(orelse[0], ast.If)


def py_ctl_doc(n):
    """Documented Python nesting constructs other than `if` (docs/nesting-linter.md): for/while, with/async with,
    try (except/finally are its arms), match (case clauses are its arms)."""
    return isinstance(n, (ast.For, ast.While, ast.With, ast.AsyncWith, ast.Try, ast.Match))


def py_ctl_code(n):
    """_CONTROL_STRUCTURES of python_analyzer.py: the documented set PLUS match_case (known finding
    C01-python-match-case-counted)."""
    return isinstance(n, (ast.For, ast.While, ast.With, ast.AsyncWith, ast.Try, ast.Match, ast.match_case))


def imax(a, b):
    return a if a >= b else b


# R(node, d, is_elif, doc): deepest control level reached in the subtree of `node` when `d` control structures enclose
# it (0 if it contains none). doc=True: documented construct set, doc=False: the code's set.
def r_node(n: PyNode, d: Int, is_elif: Bool, doc: Bool) -> Int:
    if isinstance(n, ast.If):
        return r_if(n, d if is_elif else d + 1, is_elif, doc)
    if py_ctl_doc(n) if doc else py_ctl_code(n):
        return imax(d + 1, r_seq(py_children(n), d + 1, doc))
    return r_seq(py_children(n), d, doc)


def r_if(n: PyNode, dd: Int, is_elif: Bool, doc: Bool) -> Int:
    """An If whose statements live at level dd (an elif does not open a new level)."""
    return imax(0 if is_elif else dd,
                imax(r_seq(n.body, dd, doc),
                     r_node(n.orelse[0], dd, True, doc) if is_elif_position(n.orelse) else r_seq(n.orelse, dd, doc)))


def r_seq(s: SeqOf(PyNode), d: Int, doc: Bool) -> Int:
    if len(s) == 0:
        return 0
    return imax(r_node(s[0], d, False, doc), r_seq(s[1:], d, doc))


def h_py(func_node, doc):
    """H(body) of a Python function: number of control structures enclosing its deepest statement."""
    return imax(0, r_seq(func_node.body, 0, doc))


def d_py_documented(func_node):
    """The documented nesting depth: 1 for the function body plus H(body) over the documented constructs."""
    return 1 + h_py(func_node, True)


# ====================================================================================== Python: analyzer
@contract(PY + "_DepthTracker.__init__", props=["C01"], types=dict(self=TrackerT, default_line=Int),
          modifies=["self.max_depth", "self.max_depth_line"])
class TrackerInit:
    def ensures(self, default_line):
        return self.max_depth == 0 and self.max_depth_line == default_line


@contract(PY + "_DepthTracker.record", props=["C01"], types=dict(self=TrackerT, node=PyNode, depth=Int, default_line=Int),
          modifies=["self.max_depth", "self.max_depth_line"])
class TrackerRecord:
    def requires(self, node, depth, default_line):
        return node is not None

    def ensures_running_maximum(self, node, depth, default_line, old):
        return self.max_depth == imax(old.self.max_depth, depth)


@contract(PY + "_is_elif_chain", props=["C01"], types=dict(orelse=SeqOf(PyNode)), returns=Bool)
class IsElifChain:
    def value(orelse):
        return is_elif_position(orelse)


VISIT_TYPES = dict(node=PyNode, current_depth=Int, tracker=TrackerT, default_line=Int, is_elif=Bool, child=PyNode)
VISIT_MOD = ["tracker.max_depth", "tracker.max_depth_line"]


@contract(PY + "_visit_node", props=["C01"], types=VISIT_TYPES, modifies=VISIT_MOD)
class VisitNode:
    def requires(node, current_depth, tracker, default_line, is_elif):
        return node is not None and tracker.max_depth >= 0 and current_depth >= 0

    def ensures_running_maximum(node, current_depth, tracker, default_line, is_elif, old):
        return tracker.max_depth == imax(old.tracker.max_depth, r_node(node, current_depth, is_elif, False))


@contract(PY + "_visit_if_node", props=["C01"], types=VISIT_TYPES, modifies=VISIT_MOD)
class VisitIfNode:
    def requires(node, current_depth, tracker, default_line, is_elif):
        return node is not None and isinstance(node, ast.If) and tracker.max_depth >= 0 and current_depth >= 0

    def ensures_running_maximum(node, current_depth, tracker, default_line, is_elif, old):
        return tracker.max_depth == imax(old.tracker.max_depth,
                                         r_if(node, old.current_depth if is_elif else old.current_depth + 1, is_elif, False))

    def inv0(node, current_depth, tracker, is_elif, old, rest):
        return tracker.max_depth >= 0 and current_depth == (old.current_depth if is_elif else old.current_depth + 1) and \
            imax(imax(old.tracker.max_depth, 0 if is_elif else current_depth), r_seq(node.body, current_depth, False)) == \
            imax(tracker.max_depth, r_seq(rest, current_depth, False))

    def inv1(node, current_depth, tracker, is_elif, old, rest):
        return tracker.max_depth >= 0 and current_depth == (old.current_depth if is_elif else old.current_depth + 1) and \
            imax(imax(imax(old.tracker.max_depth, 0 if is_elif else current_depth), r_seq(node.body, current_depth, False)),
                 r_seq(node.orelse, current_depth, False)) == imax(tracker.max_depth, r_seq(rest, current_depth, False))


@contract(PY + "_visit_control_structure", props=["C01"], types=VISIT_TYPES, modifies=VISIT_MOD)
class VisitControlStructure:
    def requires(node, current_depth, tracker, default_line):
        return node is not None and tracker.max_depth >= 0 and current_depth >= 0

    def ensures_running_maximum(node, current_depth, tracker, default_line, old):
        return tracker.max_depth == imax(old.tracker.max_depth,
                                         imax(old.current_depth + 1, r_seq(py_children(node), old.current_depth + 1, False)))


@contract(PY + "_visit_children", props=["C01"], types=VISIT_TYPES, modifies=VISIT_MOD)
class VisitChildren:
    def requires(node, current_depth, tracker, default_line):
        return node is not None and tracker.max_depth >= 0 and current_depth >= 0

    def ensures_running_maximum(node, current_depth, tracker, default_line, old):
        return tracker.max_depth == imax(old.tracker.max_depth, r_seq(py_children(node), current_depth, False))

    def inv0(node, current_depth, tracker, old, rest):
        return tracker.max_depth >= 0 and imax(old.tracker.max_depth, r_seq(py_children(node), current_depth, False)) == \
            imax(tracker.max_depth, r_seq(rest, current_depth, False))


@contract(PY + "PythonNestingAnalyzer.calculate_max_depth", props=["C01"],
          types=dict(self=PyAnalyzerT, func_node=PyNode, tracker=TrackerT, stmt=PyNode), returns=TupleOf(Int, Int))
class PyCalculateMaxDepth:
    def requires(self, func_node):
        return func_node is not None

    def ensures_documented_depth(self, func_node, result):
        # property text / docs: "Nesting depth starts at 1 for the function body"  (expected to fail: known finding
        # C01-python-depth-offset, the Python analyzer starts at 0)
        return imax(result[0], 1) == d_py_documented(func_node)

    def witness_documented_depth():
        # def f(x):\n    if x:\n        pass      -> documented depth 2, analyzer 1 (tests/unit/linters/nesting/test_elif_depth.py)
        return {"func_node": {"__node__": "f", "kind_": "FunctionDef", "name": "f", "lineno": 1, "col_offset": 0,
                              "decorator_list": [],
                              "body": [{"__node__": "i", "kind_": "If", "lineno": 2, "col_offset": 4, "orelse": [],
                                        "body": [{"__node__": "p", "kind_": "Pass", "lineno": 3, "col_offset": 8}]}]}}

    def ensures_code_depth(self, func_node, result):
        # finding-adjusted: exactly H(body) over the code's construct set, i.e. (documented depth) - 1 but for match_case
        return result[0] == h_py(func_node, False)

    def inv0(self, func_node, tracker, rest):
        return tracker.max_depth >= 0 and \
            imax(0, r_seq(func_node.body, 0, False)) == imax(tracker.max_depth, r_seq(rest, 0, False))


@contract(PY + "PythonNestingAnalyzer.find_all_functions", props=["C01"],
          types=dict(self=PyAnalyzerT, tree=PyNode, functions=SeqOf(PyNode), node=PyNode), returns=SeqOf(PyNode))
class PyFindAllFunctions:
    """Every (async) function definition reachable from the tree exactly once, in ast.walk order (ast.walk trusted)."""
    def requires(self, tree):
        return tree is not None

    def value(self, tree):
        return [node for node in py_walk(tree) if isinstance(node, (ast.FunctionDef, ast.AsyncFunctionDef))]

    def inv0(self, tree, functions, rest):
        return [node for node in py_walk(tree) if isinstance(node, (ast.FunctionDef, ast.AsyncFunctionDef))] == \
            functions + [node for node in rest if isinstance(node, (ast.FunctionDef, ast.AsyncFunctionDef))]


@lemma(props=["C01"], types=dict(node=PyNode, d=Int, line=Int), name="python-case-arm-is-transparent")
def py_case_arm_transparent(node, d, line):
    """docs: `match` / `case` is ONE nesting construct (like try/except/finally, TypeScript switch/case and Rust match
    arms): visiting a `case` arm with an empty body must not record a new level. EXPECTED TO FAIL (known finding
    C01-python-match-case-counted): match_case is listed in _CONTROL_STRUCTURES next to Match."""
    if node is None or not isinstance(node, ast.match_case) or d < 0 or len(py_children(node)) != 0:
        return True
    tracker = mk(TrackerT, max_depth=d, max_depth_line=line)
    call(PY + "_visit_node", node, d, tracker, line, False)
    return tracker.max_depth == d


@lemma(props=["C01"], types=dict(node=PyNode, d=Int, line=Int), name="python-case-arm-counts-one-level")
def py_case_arm_counted(node, d, line):
    """Finding-adjusted: a `case` arm opens exactly ONE extra level (like any control structure), nothing else."""
    if node is None or not isinstance(node, ast.match_case) or d < 0 or len(py_children(node)) != 0:
        return True
    tracker = mk(TrackerT, max_depth=d, max_depth_line=line)
    call(PY + "_visit_node", node, d, tracker, line, False)
    return tracker.max_depth == d + 1
