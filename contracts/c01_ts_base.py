"""TypeScriptBaseAnalyzer (src/analyzers/typescript_base.py): tree helpers shared by the TypeScript nesting (C01) and
SRP (C16) analyzers. Same shapes as the RustBaseAnalyzer contracts in c17_rust_context.py."""
from pyvc.api import contract, Int, Bool, Str, SeqOf, Rec, Opt, implies
from contracts._nodes import TSNode

TB = "src/analyzers/typescript_base.py::"
TsBaseT = Rec("TypeScriptBaseAnalyzer", cls=TB + "TypeScriptBaseAnalyzer", tree_sitter_available=Bool)
TS_NAME_TYPES = ("identifier", "type_identifier", "property_identifier")


def ts_text(n):
    return "" if n.text is None else n.text.decode()


def ts_collect_type(n: TSNode, node_type: Str) -> SeqOf(TSNode):
    """Pre-order (document order) list of the nodes of the given type in the subtree of n."""
    return ([n] if n.type == node_type else []) + ts_collect_type_seq(n.children, node_type)


def ts_collect_type_seq(s: SeqOf(TSNode), node_type: Str) -> SeqOf(TSNode):
    if len(s) == 0:
        return []
    return ts_collect_type(s[0], node_type) + ts_collect_type_seq(s[1:], node_type)


def ts_first_child(s: SeqOf(TSNode), k: Str) -> TSNode:
    if len(s) == 0:
        return None
    if s[0].type == k:
        return s[0]
    return ts_first_child(s[1:], k)


def ts_first_name_child(s: SeqOf(TSNode)) -> TSNode:
    if len(s) == 0:
        return None
    if s[0].type in TS_NAME_TYPES:
        return s[0]
    return ts_first_name_child(s[1:])


def ts_identifier_name(node):
    return "anonymous" if ts_first_name_child(node.children) is None else ts_text(ts_first_name_child(node.children))


@contract(TB + "TypeScriptBaseAnalyzer.extract_node_text", props=["C01", "C16"], types=dict(self=TsBaseT, node=TSNode),
          returns=Str)
class TsExtractNodeText:
    def requires(self, node):
        return node is not None

    def value(self, node):
        return ts_text(node)


@contract(TB + "TypeScriptBaseAnalyzer._walk_tree_recursive", props=["C01", "C16"],
          types=dict(node=TSNode, node_type=Str, nodes=SeqOf(TSNode)), modifies=["nodes"])
class TsWalkTreeRecursive:
    def requires(self, node, node_type, nodes):
        return node is not None

    def ensures_appends_matches_in_document_order(self, node, node_type, nodes, old):
        return nodes == old.nodes + ts_collect_type(node, node_type)

    def inv0(self, node, node_type, nodes, old, rest):
        return old.nodes + ts_collect_type(node, node_type) == nodes + ts_collect_type_seq(rest, node_type)


@contract(TB + "TypeScriptBaseAnalyzer.walk_tree", props=["C01", "C16"], types=dict(self=TsBaseT, node=TSNode, node_type=Str),
          returns=SeqOf(TSNode))
class TsWalkTree:
    def ensures_all_matches_once_in_document_order(self, node, node_type, result):
        return implies(node is not None, result == ts_collect_type(node, node_type)) \
            and implies(node is None, len(result) == 0)


@contract(TB + "TypeScriptBaseAnalyzer.find_child_by_type", props=["C01", "C16"],
          types=dict(self=TsBaseT, node=TSNode, child_type=Str), returns=TSNode)
class TsFindChildByType:
    def requires(self, node, child_type):
        return node is not None

    def value(self, node, child_type):
        return ts_first_child(node.children, child_type)

    def inv0(self, node, child_type, rest):
        return ts_first_child(node.children, child_type) == ts_first_child(rest, child_type)


@contract(TB + "TypeScriptBaseAnalyzer.extract_identifier_name", props=["C01", "C16"], types=dict(node=TSNode),
          returns=Str)
class TsExtractIdentifierName:
    def requires(self, node):
        return node is not None

    def value(self, node):
        return ts_identifier_name(node)

    def inv0(self, node, rest):
        return ts_first_name_child(node.children) == ts_first_name_child(rest)


def _native_parse_ts(code):
    from src.analyzers.typescript_base import TypeScriptBaseAnalyzer
    return TypeScriptBaseAnalyzer().parse_typescript(code)


from pyvc.api import uf  # noqa: E402

ts_root = uf("ts_root", [Str], TSNode, concrete=_native_parse_ts)  # parse tree of a source text (parser trusted)


@contract(TB + "TypeScriptBaseAnalyzer.parse_typescript", props=["C01", "C16", "C02"], types=dict(self=TsBaseT, code=Str),
          returns=Opt(TSNode),
          assumed="tree-sitter parser (external): returns the root node of the parse tree of `code` (a function of the "
                  "text), or None when tree-sitter is unavailable; every clause is decided modulo the parse tree")
class TsParseTypescript:
    def value(self, code):
        return ts_root(code)     # None (the null node) when tree-sitter is unavailable
