"""C02 -- magic numbers: exactly the non-allowed numeric literals outside the documented exemptions
(src/linters/magic_numbers/*).

Top-level spec (property text + docs/magic-numbers-linter.md "Acceptable Contexts"):
    flag(literal)  <=>  value(literal) not in allowed_numbers  and  not exempt(literal)
exempt (Python)  = UPPERCASE constant definition | small int (0..max_small_integer) directly inside range()/enumerate()
                   | string repetition ("-" * 40) | test file (test_*.py, *_test.py)
exempt (TS/JS)   = UPPERCASE constant definition | enum member | test file (*.test.*, *.spec.*, ...)
exempt (Rust)    = inside const_item / static_item | test code (#[test], #[cfg(test)])
Every numeric literal is collected exactly once, on its own line; booleans/strings/identifiers never.

Numeric values: ints are modelled exactly (Python `True == 1` included: a dynamic value is I(int) or B(bool));
floats are NOT modelled (a float constant has no SMT form), so every clause below is a statement about
integer-valued literals. Literal text -> value (hex / underscore / suffix parsing) is checked by the
bounded stand-in `c02-literal-parsing` at the end of this file, not by the solvers."""
import ast

from pyvc.api import (contract, lemma, custom, Any, Int, Bool, Str, Dict, Opt, SeqOf, TupleOf, Rec, Opaque, implies, call,
                      mk, ih, opaque, reveal, uf)
from contracts._nodes import PyNode, TSNode, ts_depth
from contracts._common import ViolationT, PathT, path_str, path_name

CA = "src/linters/magic_numbers/context_analyzer.py::"
LI = "src/linters/magic_numbers/linter.py::"
PA = "src/linters/magic_numbers/python_analyzer.py::"
TA = "src/linters/magic_numbers/typescript_analyzer.py::"
RA = "src/linters/magic_numbers/rust_analyzer.py::"
CF = "src/linters/magic_numbers/config.py::"
VB = "src/linters/magic_numbers/violation_builder.py::"

OptPath = Opt(PathT)


# =================================================================== Python: acceptable contexts (context_analyzer.py)
def is_int_value(v):
    """The literal's value is an integer (Python: bool is a subclass of int, so True/False qualify)."""
    return isinstance(v, int)


def py_test_file(file_path):
    """docs: test files are `test_*.py`, `*_test.py` (judged on the file NAME)."""
    return file_path is not None and (path_name(file_path).startswith("test_") or "_test.py" in path_name(file_path))


def is_constant_name(name):
    """docs: UPPERCASE name (at least two characters: `X = 5` is not treated as a constant definition)."""
    return name.isupper() and len(name) > 1


def is_assign(parent):
    return parent is not None and isinstance(parent, ast.Assign)


def has_constant_target(parent):
    return any(isinstance(target, ast.Name) and is_constant_name(target.id) for target in parent.targets)


def py_constant_definition(parent):
    """docs: `MAX_SIZE = 100` -- the literal is the direct value of an assignment to an UPPERCASE name."""
    return is_assign(parent) and has_constant_target(parent)


def call_of(parent, fname):
    return isinstance(parent, ast.Call) and isinstance(parent.func, ast.Name) and parent.func.id == fname


def small_int(v, max_small):
    """0 <= v <= max_small_integer (both bounds inclusive)."""
    return isinstance(v, int) and 0 <= v and v <= max_small


def is_string_constant(n):
    return isinstance(n, ast.Constant) and isinstance(n.value, str)


def string_repetition(v, parent):
    return (isinstance(v, int) and isinstance(parent, ast.BinOp) and isinstance(parent.op, ast.Mult)
            and (is_string_constant(parent.left) or is_string_constant(parent.right)))


@opaque
def py_exempt(v: Any, parent: PyNode, file_path: OptPath, max_small: Int) -> Bool:
    """The documented exempt positions of a Python literal with value v whose parent node is `parent`.
    NOTE: no allowed_numbers argument -- the exemption does not depend on the allowed list (frame condition used
    by the delta lemma)."""
    return (py_test_file(file_path) or py_constant_definition(parent)
            or (small_int(v, max_small) and call_of(parent, "range"))
            or (small_int(v, max_small) and call_of(parent, "enumerate"))
            or string_repetition(v, parent))


def max_small_of(config):
    return config.get("max_small_integer", 10)


@contract(CA + "is_test_file", props=["C02"], types=dict(file_path=OptPath), returns=Bool)
class IsTestFile:
    def value(file_path):
        return py_test_file(file_path)


@contract(CA + "_is_assignment_node", props=["C02"], types=dict(parent=PyNode), returns=Bool)
class IsAssignmentNode:
    def value(parent):
        return is_assign(parent)


@contract(CA + "_is_constant_name", props=["C02"], types=dict(name=Str), returns=Bool)
class IsConstantName:
    def value(name):
        return is_constant_name(name)


@contract(CA + "_has_constant_target", props=["C02"], types=dict(parent=PyNode), returns=Bool)
class HasConstantTarget:
    def requires(parent):
        return isinstance(parent, ast.Assign)  # (the function's declared parameter type; callers check it)

    def value(parent):
        return has_constant_target(parent)


@contract(CA + "is_constant_definition", props=["C02"], types=dict(node=PyNode, parent=PyNode), returns=Bool)
class IsConstantDefinition:
    def value(node, parent):
        return py_constant_definition(parent)


@contract(CA + "_is_in_range_call", props=["C02"], types=dict(parent=PyNode), returns=Bool)
class IsInRangeCall:
    def value(parent):
        return call_of(parent, "range")


@contract(CA + "_is_in_enumerate_call", props=["C02"], types=dict(parent=PyNode), returns=Bool)
class IsInEnumerateCall:
    def value(parent):
        return call_of(parent, "enumerate")


def max_small_ok(config):
    """Shape of the config dict handed to the context functions: max_small_integer (if present) is an int."""
    return isinstance(config.get("max_small_integer", 10), int)


@contract(CA + "is_small_integer_in_range", props=["C02"], types=dict(node=PyNode, parent=PyNode, config=Dict),
          returns=Bool)
class IsSmallIntegerInRange:
    def requires(node, parent, config):
        return isinstance(node, ast.Constant) and max_small_ok(config)

    def value(node, parent, config):
        return small_int(node.value, max_small_of(config)) and call_of(parent, "range")

    def ensures_bound_is_inclusive_0_to_max(node, parent, config, result):
        # property text / docs: "small integer inside range()": 0 <= v <= max_small_integer, directly inside range(...)
        return implies(isinstance(node.value, int) and not isinstance(node.value, bool),
                       result == (0 <= node.value and node.value <= max_small_of(config) and call_of(parent, "range")))


@contract(CA + "is_small_integer_in_enumerate", props=["C02"], types=dict(node=PyNode, parent=PyNode, config=Dict),
          returns=Bool)
class IsSmallIntegerInEnumerate:
    def requires(node, parent, config):
        return isinstance(node, ast.Constant) and max_small_ok(config)

    def value(node, parent, config):
        return small_int(node.value, max_small_of(config)) and call_of(parent, "enumerate")

    def ensures_bound_is_inclusive_0_to_max(node, parent, config, result):
        return implies(isinstance(node.value, int) and not isinstance(node.value, bool),
                       result == (0 <= node.value and node.value <= max_small_of(config) and call_of(parent, "enumerate")))


@contract(CA + "_is_string_constant", props=["C02"], types=dict(node=PyNode), returns=Bool)
class IsStringConstant:
    def value(node):
        return is_string_constant(node)


@contract(CA + "_has_string_operand", props=["C02"], types=dict(binop=PyNode), returns=Bool)
class HasStringOperand:
    def requires(binop):
        return isinstance(binop, ast.BinOp)  # (the function's declared parameter type; callers check it)

    def value(binop):
        return is_string_constant(binop.left) or is_string_constant(binop.right)


@contract(CA + "is_string_repetition", props=["C02"], types=dict(node=PyNode, parent=PyNode), returns=Bool)
class IsStringRepetition:
    def requires(node, parent):
        return isinstance(node, ast.Constant)

    def value(node, parent):
        return string_repetition(node.value, parent)


@contract(CA + "_is_acceptable_usage_pattern", props=["C02"], types=dict(node=PyNode, parent=PyNode, config=Dict),
          returns=Bool)
class IsAcceptableUsagePattern:
    def requires(node, parent, config):
        return isinstance(node, ast.Constant) and max_small_ok(config)

    def value(node, parent, config):
        return ((small_int(node.value, max_small_of(config)) and call_of(parent, "range"))
                or (small_int(node.value, max_small_of(config)) and call_of(parent, "enumerate"))
                or string_repetition(node.value, parent))


@contract(CA + "is_acceptable_context", props=["C02"],
          types=dict(node=PyNode, parent=PyNode, file_path=OptPath, config=Dict), returns=Bool)
class IsAcceptableContext:
    def requires(node, parent, file_path, config):
        return isinstance(node, ast.Constant) and max_small_ok(config)

    def reveals(node, parent, file_path, config):
        return reveal(py_exempt, node.value, parent, file_path, max_small_of(config))

    def ensures_exactly_the_documented_exemptions(node, parent, file_path, config, result):
        # docs "Acceptable Contexts": constant definitions, small range()/enumerate(), test files, string repetition
        return result == py_exempt(node.value, parent, file_path, max_small_of(config))


# =================================================================== configuration (config.py)
from pyvc.api import same_members, is_int_list  # noqa: E402

# allowed_numbers is a SET of numbers; the code under contract only ever tests membership, so it is viewed as a
# sequence of ints (floats are not modelled).
ConfigT = Rec("MagicNumberConfig", cls=CF + "MagicNumberConfig", pycls="src.linters.magic_numbers.config:MagicNumberConfig",
              enabled=Bool, allowed_numbers=SeqOf(Int), max_small_integer=Int, ignore=SeqOf(Str),
              exempt_definition_files=Bool)

# the code's default set (config.DEFAULT_ALLOWED_NUMBERS); docs list only the first ten values
# (a LIST, so that `section value if present else default` is one dynamic value instead of a path split)
DEFAULT_ALLOWED = [-1, 0, 1, 2, 3, 4, 5, 10, 21, 22, 80, 100, 443, 1000, 3000, 5000, 8080, 8443]  # (ascending)


@contract(CF + "MagicNumberConfig.__post_init__", props=["C02", "C05", "C04", "C08", "C10"], types=dict(self=ConfigT), raises=["ValueError"])
class ConfigPostInit:
    def raises_when(self):
        # property/DESIGN: max_small_integer <= 0 is rejected
        return self.max_small_integer <= 0


def has_lang(config, language):
    return language is not None and len(language) > 0 and language in config


def wf_section(d):
    """Shape of a (top-level or language) section: allowed_numbers a list of ints, max_small_integer an int."""
    return (implies("allowed_numbers" in d, is_int_list(d["allowed_numbers"]))
            and implies("max_small_integer" in d, isinstance(d["max_small_integer"], int)))


def wf_config(config, language):
    return (wf_section(config)
            and implies(has_lang(config, language), isinstance(config[language], dict) and wf_section(config[language]))
            and implies("enabled" in config, isinstance(config["enabled"], bool))
            and implies("exempt_definition_files" in config, isinstance(config["exempt_definition_files"], bool)))


def top_allowed(config):
    return config["allowed_numbers"] if "allowed_numbers" in config else DEFAULT_ALLOWED


def chosen_allowed(config, language):
    """Precedence: <language>.allowed_numbers, then top-level allowed_numbers, then the default set."""
    if has_lang(config, language) and "allowed_numbers" in config[language]:
        return config[language]["allowed_numbers"]
    return top_allowed(config)


def top_max_small(config):
    return config["max_small_integer"] if "max_small_integer" in config else 10


def chosen_max_small(config, language):
    """Precedence: <language>.max_small_integer, then top-level max_small_integer, then 10."""
    if has_lang(config, language) and "max_small_integer" in config[language]:
        return config[language]["max_small_integer"]
    return top_max_small(config)


# (C04/C08/C10: the section dict is shared by the orchestrator across files and runs -- from_dict must not write it:
# `config` is not in modifies, so every run carries a frame obligation on it)
@contract(CF + "MagicNumberConfig.from_dict", props=["C02", "C05", "C04", "C08", "C10"], types=dict(config=Dict, language=Opt(Str)),
          returns=ConfigT, raises=["ValueError"])
class ConfigFromDict:
    def requires(config, language):
        return wf_config(config, language)

    def raises_when(config, language):
        return chosen_max_small(config, language) <= 0

    def ensures_allowed_numbers_language_override_wins(config, language, result):
        return same_members(result.allowed_numbers, chosen_allowed(config, language))

    def ensures_max_small_integer_language_override_wins(config, language, result):
        return result.max_small_integer == chosen_max_small(config, language) and result.max_small_integer > 0


# =================================================================== violations (violation_builder.py)
BuilderT = Rec("ViolationBuilder", cls=VB + "ViolationBuilder", rule_id=Str)


def magic_message(value):
    """docs / property: the violation names the literal's value."""
    return f"Magic number {value} should be a named constant"


def fp_text(file_path):
    return path_str(file_path) if file_path is not None else ""


def _native_severity(v):
    """Native rendering only: the model's severity string 'error' is the enum member Severity.ERROR."""
    try:
        from src.core.types import Severity
        if isinstance(v.severity, str):
            object.__setattr__(v, "severity", Severity(v.severity))
    except Exception:  # noqa
        pass
    return v


# same record (same SMT sort) as contracts._common.ViolationT; natively built with the real Severity member
MNViolationT = Rec("Violation", cls=ViolationT.cls, pycls=ViolationT.pycls, **ViolationT.fields)
MNViolationT.native_post = _native_severity


def magic_violation(rule_id, file_path, line, column, value, suggestion):
    return mk(MNViolationT, rule_id=rule_id, file_path=fp_text(file_path), line=line, column=column,
              message=magic_message(value), severity="error", suggestion=suggestion)


def py_suggestion(value):
    return f"Extract {value} to a named constant (e.g., CONSTANT_NAME = {value})"


def ts_suggestion(value):
    return f"Extract {value} to a named constant (e.g., const CONSTANT_NAME = {value})"


def rust_suggestion(value):
    return f"Extract {value} to a named constant (e.g., const CONSTANT_NAME: i32 = {value})"


@contract(VB + "ViolationBuilder.create_violation", props=["C02", "C12"],
          types=dict(self=BuilderT, node=PyNode, value=Any, line=Int, file_path=OptPath), returns=ViolationT)
class CreateViolation:
    def requires(self, node, value, line, file_path):
        return isinstance(node, ast.Constant)

    def value(self, node, value, line, file_path):
        return magic_violation(self.rule_id, file_path, line, node.col_offset, value, py_suggestion(value))

    def ensures_on_the_literals_line_naming_its_value(self, node, value, line, file_path, result):
        return result.line == line and result.message == magic_message(value) and result.rule_id == self.rule_id


@contract(VB + "ViolationBuilder.create_typescript_violation", props=["C02", "C12"],
          types=dict(self=BuilderT, value=Int, line=Int, file_path=OptPath), returns=ViolationT)
class CreateTypescriptViolation:
    def value(self, value, line, file_path):
        return magic_violation(self.rule_id, file_path, line, 0, value, ts_suggestion(value))

    def ensures_on_the_literals_line_naming_its_value(self, value, line, file_path, result):
        return result.line == line and result.message == magic_message(value) and result.rule_id == self.rule_id


@contract(VB + "ViolationBuilder.create_rust_violation", props=["C02", "C12"],
          types=dict(self=BuilderT, value=Int, line=Int, file_path=OptPath), returns=ViolationT)
class CreateRustViolation:
    def value(self, value, line, file_path):
        return magic_violation(self.rule_id, file_path, line, 0, value, rust_suggestion(value))

    def ensures_on_the_literals_line_naming_its_value(self, value, line, file_path, result):
        return result.line == line and result.message == magic_message(value) and result.rule_id == self.rule_id


# =================================================================== the rule (linter.py): Python path
IgnoreParserT = Opaque("IgnoreDirectiveParser")
TSIgnoreT = Opaque("TypeScriptIgnoreChecker")
RuleT = Rec("MagicNumberRule", cls=LI + "MagicNumberRule", _violation_builder=BuilderT, _ignore_parser=IgnoreParserT,
            _typescript_ignore_checker=TSIgnoreT)
CtxT = Rec("LintContext", file_path=OptPath, file_content=Opt(Str), language=Str)
PyLitT = TupleOf(PyNode, PyNode, Any, Int)  # (node, parent, value, line) as produced by PythonMagicNumberAnalyzer

RULE_ID = "magic-numbers.numeric-literal"

# inline suppression directives (# thailint: ignore, # noqa, ignore files ...) are property C04's subject: here they are
# an uninterpreted predicate of the violation's (rule id, file path, line) and the file content, for a fixed project
# on disk (repository-level ignore files are environment)
def _native_ignored(method):
    def run(rule_id, file_path, line, content):
        import types as _t
        from src.core.types import Violation
        from src.linters.magic_numbers.linter import MagicNumberRule
        v = Violation(rule_id=rule_id, file_path=file_path, line=line, column=0, message="")
        return bool(getattr(MagicNumberRule(), method)(v, _t.SimpleNamespace(file_content=content, file_path=None)))
    return run


inline_ignored = uf("c02_inline_ignored", [Str, Str, Int, Opt(Str)], Bool, concrete=_native_ignored("_should_ignore"))
ts_inline_ignored = uf("c02_ts_inline_ignored", [Str, Str, Int, Opt(Str)], Bool,
                       concrete=_native_ignored("_should_ignore_typescript"))


def in_allowed(value, allowed):
    """value in allowed_numbers (Python equality on numbers: True == 1)."""
    return value in allowed


def py_flag(value, parent, file_path, allowed, max_small):
    """TOP-LEVEL SPEC (Python): flagged  <=>  value not allowed  and  not in a documented exempt position."""
    return (not in_allowed(value, allowed)) and not py_exempt(value, parent, file_path, max_small)


@contract(LI + "MagicNumberRule.rule_id", props=["C02"], types=dict(self=RuleT), returns=Str)
class RuleId:
    def value(self):
        return RULE_ID


@contract(LI + "MagicNumberRule._should_flag_number", props=["C02"],
          types=dict(self=RuleT, value=Any, node_info=TupleOf(PyNode, PyNode), config=ConfigT, context=CtxT), returns=Bool)
class ShouldFlagNumber:
    def requires(self, value, node_info, config, context):
        # (node, parent) with node the Constant whose value is `value`
        return isinstance(node_info[0], ast.Constant) and value == node_info[0].value

    def ensures_flag_iff_not_allowed_and_not_exempt(self, value, node_info, config, context, result):
        return result == py_flag(value, node_info[1], context.file_path, config.allowed_numbers, config.max_small_integer)


@contract(LI + "MagicNumberRule._should_ignore", props=["C02"], types=dict(self=RuleT, violation=ViolationT, context=CtxT),
          returns=Bool,
          assumed="inline suppression directives (ignore parser, # noqa): subject of property C04; for C02 an "
                  "uninterpreted predicate of (rule id, file path, line, file content) for a fixed project on disk")
class ShouldIgnore:
    def value(self, violation, context):
        return inline_ignored(violation.rule_id, violation.file_path, violation.line, context.file_content)


@opaque
def py_passes_filters(lit: PyLitT, file_path: OptPath, content: Opt(Str), max_small: Int) -> Bool:
    """Neither in an exempt position nor suppressed by a directive (both independent of allowed_numbers)."""
    return (not py_exempt(lit[2], lit[1], file_path, max_small)) and \
        not inline_ignored(RULE_ID, fp_text(file_path), lit[3], content)


@opaque
def py_lit_allowed(lit: PyLitT, allowed: SeqOf(Int)) -> Bool:
    """The literal's value is in allowed_numbers (kept opaque so that the folds below stay small)."""
    return in_allowed(lit[2], allowed)


@opaque
def py_lit_is(lit: PyLitT, a: Int) -> Bool:
    """The literal's value equals the number a (Python equality: True == 1)."""
    return lit[2] == a


def py_reported(lit, file_path, content, allowed, max_small):
    """A collected literal (node, parent, value, line) is reported: flagged (value not allowed, not exempt) and not
    suppressed by a directive."""
    return (not py_lit_allowed(lit, allowed)) and py_passes_filters(lit, file_path, content, max_small)


@opaque
def py_violation(lit: PyLitT, file_path: OptPath) -> ViolationT:
    return magic_violation(RULE_ID, file_path, lit[3], lit[0].col_offset, lit[2], py_suggestion(lit[2]))


def wf_rule(self):
    return self._violation_builder.rule_id == RULE_ID


@opaque
def wf_py_lit(lit: PyLitT) -> Bool:
    """A tuple as produced by the collector: node is a Constant and the recorded value is that node's value."""
    return isinstance(lit[0], ast.Constant) and lit[2] == lit[0].value


@contract(LI + "MagicNumberRule._try_create_violation", props=["C02"],
          types=dict(self=RuleT, literal_info=PyLitT, context=CtxT, config=ConfigT), returns=Opt(ViolationT))
class TryCreateViolation:
    def requires(self, literal_info, context, config):
        return wf_rule(self) and wf_py_lit(literal_info)

    def reveals(self, literal_info, context, config):
        return (reveal(wf_py_lit, literal_info) and reveal(py_violation, literal_info, context.file_path)
                and reveal(py_lit_allowed, literal_info, config.allowed_numbers)
                and reveal(py_passes_filters, literal_info, context.file_path, context.file_content,
                           config.max_small_integer))

    def ensures_reported_iff_flagged_and_not_suppressed(self, literal_info, context, config, result):
        return (result is not None) == py_reported(literal_info, context.file_path, context.file_content,
                                                   config.allowed_numbers, config.max_small_integer)

    def ensures_violation_on_the_literals_line_naming_its_value(self, literal_info, context, config, result):
        return implies(result is not None, result == py_violation(literal_info, context.file_path)
                       and result.line == literal_info[3] and result.message == magic_message(literal_info[2])
                       and result.rule_id == RULE_ID)


def collect_py(lits: SeqOf(PyLitT), acc: SeqOf(ViolationT), file_path: OptPath, content: Opt(Str), allowed: SeqOf(Int),
               max_small: Int) -> SeqOf(ViolationT):
    """acc followed by one violation per reported literal of lits, in collection order (the fold performed by
    _collect_violations)."""
    if len(lits) == 0:
        return acc
    if py_reported(lits[0], file_path, content, allowed, max_small):
        return collect_py(lits[1:], acc + [py_violation(lits[0], file_path)], file_path, content, allowed, max_small)
    return collect_py(lits[1:], acc, file_path, content, allowed, max_small)


def all_wf_py(lits):
    return all(wf_py_lit(lit) for lit in lits)


@contract(LI + "MagicNumberRule._collect_violations", props=["C02"],
          types=dict(self=RuleT, numeric_literals=SeqOf(PyLitT), context=CtxT, config=ConfigT,
                     violations=SeqOf(ViolationT), violation=Opt(ViolationT), literal_info=PyLitT),
          returns=SeqOf(ViolationT))
class CollectViolations:
    def requires(self, numeric_literals, context, config):
        return wf_rule(self) and all_wf_py(numeric_literals)

    def ensures_one_violation_per_reported_literal(self, numeric_literals, context, config, result):
        return result == collect_py(numeric_literals, [], context.file_path, context.file_content, config.allowed_numbers,
                                    config.max_small_integer)

    def inv0(self, numeric_literals, context, config, violations, rest, old):
        return self == old.self and context == old.context and config == old.config and all_wf_py(rest) and \
            collect_py(numeric_literals, [], context.file_path, context.file_content, config.allowed_numbers,
                       config.max_small_integer) == \
            collect_py(rest, violations, context.file_path, context.file_content, config.allowed_numbers,
                       config.max_small_integer)


# ------------------------------------------------------------------ the delta lemma (property: "adding a value to
# allowed_numbers removes exactly the violations for literals of that value and removing it adds exactly those")
def with_allowed(config, allowed):
    return mk(ConfigT, enabled=config.enabled, allowed_numbers=allowed, max_small_integer=config.max_small_integer,
              ignore=config.ignore, exempt_definition_files=config.exempt_definition_files)


@lemma(props=["C02"], types=dict(rule=RuleT, value=Any, node=PyNode, parent=PyNode, config=ConfigT, context=CtxT, a=Int),
       name="python-allowed-numbers-delta")
def py_allowed_delta(rule, value, node, parent, config, context, a):
    """flag(A + {a}) == flag(A) and value != a, over the CONTRACT of _should_flag_number (integer-valued literals)."""
    if not (isinstance(node, ast.Constant) and value == node.value and isinstance(value, int)):
        return True
    f0 = call(LI + "MagicNumberRule._should_flag_number", rule, value, (node, parent), config, context)
    f1 = call(LI + "MagicNumberRule._should_flag_number", rule, value, (node, parent),
              with_allowed(config, config.allowed_numbers + [a]), context)
    return f1 == (f0 and not (value == a))


@lemma(props=["C02"], types=dict(node=PyNode, parent=PyNode, file_path=OptPath, max_small=Int, allowed1=SeqOf(Int),
                                 allowed2=SeqOf(Int)),
       name="python-acceptable-context-independent-of-allowed-numbers")
def py_context_frame(node, parent, file_path, max_small, allowed1, allowed2):
    """Frame: the verdict of is_acceptable_context does not depend on the allowed_numbers entry of its config dict."""
    if not isinstance(node, ast.Constant):
        return True
    r1 = call(CA + "is_acceptable_context", node, parent, file_path, {"max_small_integer": max_small, "allowed_numbers": allowed1})
    r2 = call(CA + "is_acceptable_context", node, parent, file_path, {"max_small_integer": max_small, "allowed_numbers": allowed2})
    return r1 == r2


# =================================================================== Python collector (python_analyzer.py)
import z3 as _z3  # noqa: E402

from pyvc.ex_call import external  # noqa: E402
from pyvc.ty import VNone as _VNone  # noqa: E402

ParentMapT = Opaque("MNParentMap")  # dict[ast.AST, ast.AST] built by analyzers.ast_utils.build_parent_map
pm_get = uf("mn_pm_get", [ParentMapT, PyNode], PyNode, concrete=lambda m, n: m.get(n))
PyAnalyzerT = Rec("PythonMagicNumberAnalyzer", cls=PA + "PythonMagicNumberAnalyzer", numeric_literals=SeqOf(PyLitT),
                  parent_map=ParentMapT)


@external("MNParentMap.get")
def _parent_map_get(ex, args, kwargs, lineno):
    """parent_map.get(node): an uninterpreted lookup (dict semantics are trusted)."""
    f = _z3.Function("uf.mn_pm_get", ParentMapT.sort(), PyNode.sort(), PyNode.sort())
    ex.ufs_used.add("mn_pm_get")
    return PyNode.wrap(f(args[0].t, PyNode.pack(args[1])))


@external("PythonMagicNumberAnalyzer.generic_visit")
def _generic_visit_of_constant(ex, args, kwargs, lineno):
    """ast.NodeVisitor.generic_visit(node) visits the AST children of node. An ast.Constant has none (its fields
    `value` and `kind` are not nodes), so on a Constant it does nothing. Other node kinds: traversal not modelled."""
    node = args[1]
    ex.safety(PyNode.isinstance_term(ex, node, "Constant"), "generic_visit of a non-Constant node (traversal is not modelled)",
              lineno)
    return _VNone()


def is_numeric_literal_value(v):
    """PROPERTY: numeric literals are ints and floats; booleans are NOT numeric literals (`True`/`False` are
    keywords). Floats are not modelled, so over the modelled values: an int that is not a bool."""
    return isinstance(v, int) and not isinstance(v, bool)


@contract(PA + "PythonMagicNumberAnalyzer.visit_Constant", props=["C02"], types=dict(self=PyAnalyzerT, node=PyNode),
          modifies=["self.numeric_literals"])
class VisitConstant:
    def requires(self, node):
        return isinstance(node, ast.Constant)

    def ensures_collects_exactly_the_numeric_literals(self, node, old):
        # property text: "nothing that is not a numeric literal (booleans, strings ...) is ever reported": a Constant is
        # recorded exactly once -- with its parent from the parent map, its own value and its own line -- iff its value
        # is a number that is not a bool (isinstance(True, int) holds in Python; repaired by the fix for the former
        # finding C02-python-bool-literal)
        return self.numeric_literals == old.self.numeric_literals + (
            [(node, pm_get(self.parent_map, node), node.value, node.lineno)] if is_numeric_literal_value(node.value) else [])


def py_collected(n):
    """What visit_Constant records: Constant nodes whose value is a number and not a bool (ints in this model)."""
    return isinstance(n, ast.Constant) and isinstance(n.value, int) and not isinstance(n.value, bool)


def py_lits_of(tree):
    """One tuple per recorded Constant node of the tree, in visiting order; parent = the node's tree parent."""
    return [(n, n.parent, n.value, n.lineno) for n in tree.visit_order if py_collected(n)]


@contract(PA + "PythonMagicNumberAnalyzer.find_numeric_literals", props=["C02"], types=dict(self=PyAnalyzerT, tree=PyNode),
          returns=SeqOf(PyLitT), modifies=["self.numeric_literals", "self.parent_map"],
          assumed="ast.NodeVisitor dispatch and traversal are external (trusted): visit(tree) calls visit_Constant exactly "
                  "once for every Constant node of the tree, depth first, and build_parent_map maps each node to its "
                  "tree parent; what visit_Constant records per node is PROVED (visit_Constant contract)")
class FindNumericLiterals:
    def requires(self, tree):
        return tree is not None

    def ensures_each_recorded_constant_exactly_once(self, tree, result):
        return result == py_lits_of(tree) and all_wf_py(result)


@contract(LI + "MagicNumberRule._find_numeric_literals", props=["C02"], types=dict(self=RuleT, tree=PyNode),
          returns=SeqOf(PyLitT), inline=["__init__"])
class RuleFindNumericLiterals:
    def requires(self, tree):
        return tree is not None

    def ensures_each_recorded_constant_exactly_once(self, tree, result):
        return result == py_lits_of(tree) and all_wf_py(result)


# =================================================================== TypeScript / JavaScript (typescript_analyzer.py)
TSAnalyzerT = Rec("TypeScriptMagicNumberAnalyzer", cls=TA + "TypeScriptMagicNumberAnalyzer", tree_sitter_available=Bool)
TSLitT = TupleOf(TSNode, Int, Int)  # (node, value, line)


def node_text(n):
    return "" if n.text is None else n.text.decode()


def _ts_code_value(text):
    """Native mirror of TypeScriptMagicNumberAnalyzer._extract_numeric_value on the literal TEXT (ints only)."""
    try:
        if text.endswith("n"):
            text = text[:-1]
        if text[:2].lower() in ("0x", "0o", "0b"):
            return int(text, 0)
        if "." not in text and "e" not in text.lower():
            if len(text) > 1 and text[0] == "0" and text.isdigit():
                return int(text, 8) if set(text) <= set("01234567") else int(text, 10)
            return int(text, 0)
        v = float(text)
        return int(v) if v == int(v) else None
    except (ValueError, TypeError, OverflowError):
        return None


# value of a JS/TS number literal text as computed by the code (`ts_literal_ok` false: the literal is dropped);
# checked against the language's value by the bounded stand-in c02-literal-parsing
ts_literal_ok = uf("c02_ts_literal_ok", [Str], Bool, concrete=lambda t: _ts_code_value(t) is not None)
ts_literal_int = uf("c02_ts_literal_int", [Str], Int, concrete=lambda t: _ts_code_value(t) or 0)


def ts_literal_value(text):
    return ts_literal_int(text) if ts_literal_ok(text) else None


@contract(TA + "TypeScriptMagicNumberAnalyzer._extract_numeric_value", props=["C02"], types=dict(self=TSAnalyzerT, node=TSNode),
          returns=Opt(Int),
          assumed="literal text -> value is string parsing (int(text, 0) / float(text)) that the solvers do not decide; "
                  "checked by exhaustive enumeration of the JS numeric-literal grammar: bounded stand-in "
                  "c02-literal-parsing. Float-valued literals are outside the integer model")
class TSExtractNumericValue:
    def requires(self, node):
        return node is not None

    def value(self, node):
        return ts_literal_value(node_text(node))


def ts_own(n):
    """What a single node contributes: a `number` token whose text has a value -> (node, value, row + 1)."""
    return [(n, ts_literal_int(node_text(n)), n.start_point[0] + 1)] \
        if n.type == "number" and ts_literal_ok(node_text(n)) else []


def all_nodes_present(lits):
    """Every collected tuple carries a real (non-null) node."""
    return all(lit[0] is not None for lit in lits)


@lemma(props=["C02"], types=dict(a=SeqOf(TSLitT), x=TSLitT), name="all-nodes-present-append")
def all_present_append(a, x):
    """all_nodes_present(a + [x]) == all_nodes_present(a) and x's node is present (induction on a)."""
    if len(a) == 0:
        return all_nodes_present(a + [x]) == (x[0] is not None)
    ih(all_present_append, a[1:], x)
    return all_nodes_present(a + [x]) == (all_nodes_present(a) and x[0] is not None)


def ts_walk(n: TSNode, acc: SeqOf(TSLitT)) -> SeqOf(TSLitT):
    """acc followed by the literals of the subtree of n in pre-order: every node of the subtree contributes
    ts_own exactly once (node first, then its children left to right)."""
    return ts_walk_seq(n.children, acc + ts_own(n))


def ts_walk_seq(s: SeqOf(TSNode), acc: SeqOf(TSLitT)) -> SeqOf(TSLitT):
    if len(s) == 0:
        return acc
    return ts_walk_seq(s[1:], ts_walk(s[0], acc))


@contract(TA + "TypeScriptMagicNumberAnalyzer._collect_numeric_literals", props=["C02"],
          types=dict(self=TSAnalyzerT, node=TSNode, literals=SeqOf(TSLitT), value=Opt(Int), line_number=Int, child=TSNode),
          modifies=["literals"])
class TSCollectNumericLiterals:
    def requires(self, node, literals):
        return node is not None and all_nodes_present(literals)

    def ensures_each_number_node_of_the_subtree_once_with_line_row_plus_1(self, node, literals, old):
        return literals == ts_walk(node, old.literals)

    def ensures_only_real_nodes(self, node, literals):
        return all_nodes_present(literals)

    def lemmas_inv0(self, node, old):
        return all_present_append(old.literals, (node, ts_literal_int(node_text(node)), node.start_point[0] + 1))

    def inv0(self, node, literals, rest, old):
        return self == old.self and all_nodes_present(literals) and \
            ts_walk(node, old.literals) == ts_walk_seq(rest, literals)


@contract(TA + "TypeScriptMagicNumberAnalyzer.find_numeric_literals", props=["C02"],
          types=dict(self=TSAnalyzerT, root_node=TSNode), returns=SeqOf(TSLitT))
class TSFindNumericLiterals:
    def ensures_all_literals_of_the_tree(self, root_node, result):
        return implies(root_node is not None, result == ts_walk(root_node, []))

    def ensures_only_real_nodes(self, root_node, result):
        return all_nodes_present(result)

    def ensures_no_tree_no_literals(self, root_node, result):
        return implies(root_node is None, result == [])


# ------------------------------------------------------------------ TS exempt contexts
def up_has_type(n: TSNode, k: Str) -> Bool:
    """n or one of its ancestors has node type k."""
    return n is not None and (n.type == k or up_has_type(n.parent, k))


@contract(TA + "TypeScriptMagicNumberAnalyzer.is_enum_context", props=["C02"], types=dict(self=TSAnalyzerT, node=TSNode),
          returns=Bool)
class TSIsEnumContext:
    def requires(self, node):
        return node is not None

    def ensures_inside_an_enum_declaration(self, node, result):
        # docs: "Enum values: enum Status { ACTIVE = 1 }" -- some proper ancestor is an enum_declaration
        return result == up_has_type(node.parent, "enum_declaration")

    def inv0(self, node, current):
        return up_has_type(node.parent, "enum_declaration") == up_has_type(current, "enum_declaration")

    def var0(current):
        return ts_depth(current)


DECL_TYPES = ("variable_declarator", "lexical_declaration", "pair")


def is_decl(n):
    return n is not None and n.type in DECL_TYPES


def decl_parent(node):
    """The declaration the literal is the (possibly once-nested) value of: parent, else grandparent."""
    if is_decl(node.parent):
        return node.parent
    if node.parent is not None and is_decl(node.parent.parent):
        return node.parent.parent
    return None


@contract(TA + "TypeScriptMagicNumberAnalyzer._is_declaration_type", props=["C02"], types=dict(self=TSAnalyzerT, node=TSNode),
          returns=Bool)
class TSIsDeclarationType:
    def value(self, node):
        return is_decl(node)


@contract(TA + "TypeScriptMagicNumberAnalyzer._find_declaration_parent", props=["C02"],
          types=dict(self=TSAnalyzerT, node=TSNode), returns=TSNode)
class TSFindDeclarationParent:
    def requires(self, node):
        return node is not None

    def value(self, node):
        return decl_parent(node)


def first_ident(n: TSNode) -> TSNode:
    """First identifier / property_identifier strictly below n in pre-order (None if there is none)."""
    return first_ident_seq(n.children)


def first_ident_seq(s: SeqOf(TSNode)) -> TSNode:
    if len(s) == 0:
        return None
    if s[0].type in ("identifier", "property_identifier"):
        return s[0]
    if first_ident(s[0]) is not None:
        return first_ident(s[0])
    return first_ident_seq(s[1:])


@contract(TA + "TypeScriptMagicNumberAnalyzer._find_identifier_in_declaration", props=["C02"],
          types=dict(self=TSAnalyzerT, node=TSNode, child=TSNode, result=TSNode), returns=TSNode)
class TSFindIdentifierInDeclaration:
    def requires(self, node):
        return node is not None

    def value(self, node):
        return first_ident(node)

    def inv0(self, node, rest, old):
        return self == old.self and first_ident(node) == first_ident_seq(rest)


def _upper_const(name):
    letters = "".join(c for c in name if c.isalpha())
    return bool(letters) and letters.isupper()


# "UPPERCASE constant": at least one letter and every letter upper case (digits / underscores allowed)
ts_upper_name = uf("c02_ts_upper_name", [Str], Bool, concrete=_upper_const)


def upper_const(name):
    return len(name) > 0 and ts_upper_name(name)


@contract(TA + "TypeScriptMagicNumberAnalyzer._is_uppercase_constant", props=["C02"], types=dict(self=TSAnalyzerT, name=Str),
          returns=Bool,
          assumed="character-level filtering of the identifier (''.join(c for c in name if c.isalpha()).isupper()): string "
                  "iteration is outside the solver-decided subset; checked by the bounded stand-in c02-literal-parsing "
                  "(identifier enumeration)")
class TSIsUppercaseConstant:
    def value(self, name):
        return upper_const(name)


@opaque
def ts_constant_definition(node: TSNode) -> Bool:
    """docs: `const MAX_SIZE = 100` (UPPERCASE): the literal's declaration (parent or grandparent declarator /
    lexical declaration / object pair) names an UPPERCASE identifier first."""
    return decl_parent(node) is not None and first_ident(decl_parent(node)) is not None \
        and upper_const(node_text(first_ident(decl_parent(node))))


@contract(TA + "TypeScriptMagicNumberAnalyzer._has_uppercase_identifier", props=["C02"],
          types=dict(self=TSAnalyzerT, parent_node=TSNode), returns=Bool, inline=["extract_node_text"])
class TSHasUppercaseIdentifier:
    def requires(self, parent_node):
        return parent_node is not None

    def value(self, parent_node):
        return first_ident(parent_node) is not None and upper_const(node_text(first_ident(parent_node)))


@contract(TA + "TypeScriptMagicNumberAnalyzer.is_constant_definition", props=["C02"],
          types=dict(self=TSAnalyzerT, node=TSNode, source_code=Str), returns=Bool)
class TSIsConstantDefinition:
    def requires(self, node, source_code):
        return node is not None

    def reveals(self, node, source_code):
        return reveal(ts_constant_definition, node)

    def ensures_uppercase_constant_definition(self, node, source_code, result):
        return result == ts_constant_definition(node)


# =================================================================== Rust (rust_analyzer.py)
RustAnalyzerT = Rec("RustMagicNumberAnalyzer", cls=RA + "RustMagicNumberAnalyzer", tree_sitter_available=Bool)
RUST_SUFFIXES = ("u8", "u16", "u32", "u64", "u128", "usize", "i8", "i16", "i32", "i64", "i128", "isize", "f32", "f64")
RUST_LITERAL_TYPES = ("integer_literal", "float_literal")


def is_type_suffix_of(s, text):
    return text.endswith(s) and not (s.startswith("f") and text.startswith("0x"))


@contract(RA + "RustMagicNumberAnalyzer._strip_type_suffix", props=["C02"], types=dict(self=RustAnalyzerT, text=Str),
          returns=Str)
class RustStripTypeSuffix:
    def ensures_cuts_one_trailing_type_suffix(self, text, result):
        # a trailing type suffix is cut -- except f32/f64 after a hex literal, where those characters are digits
        # (`0x1f32`); at most one suffix of the list can match, so this determines the result (the agreement with the
        # language's literal values is checked by the bounded stand-in c02-literal-parsing)
        return implies(not any(is_type_suffix_of(s, text) for s in RUST_SUFFIXES), result == text) and \
            (result == text or any(text == result + s and is_type_suffix_of(s, text) for s in RUST_SUFFIXES)) and \
            implies(any(is_type_suffix_of(s, text) for s in RUST_SUFFIXES), len(result) < len(text))


def _rust_code_value(kind, text):
    """Native mirror of RustMagicNumberAnalyzer._extract_numeric_value on (node type, literal text), ints only."""
    cleaned = text
    for s in RUST_SUFFIXES:
        if cleaned.endswith(s) and not (s.startswith("f") and text.startswith("0x")):
            cleaned = cleaned[: -len(s)]
            break
    cleaned = cleaned.replace("_", "")
    try:
        if kind == "float_literal":
            v = float(cleaned)
            return int(v) if v == int(v) else None
        return int(cleaned, 10) if cleaned.isdigit() else int(cleaned, 0)
    except (ValueError, TypeError, OverflowError):
        return None


rust_literal_ok = uf("c02_rust_literal_ok", [Str, Str], Bool, concrete=lambda k, t: _rust_code_value(k, t) is not None)
rust_literal_int = uf("c02_rust_literal_int", [Str, Str], Int, concrete=lambda k, t: _rust_code_value(k, t) or 0)


def rust_literal_value(kind, text):
    return rust_literal_int(kind, text) if rust_literal_ok(kind, text) else None


@contract(RA + "RustMagicNumberAnalyzer._extract_numeric_value", props=["C02"], types=dict(self=RustAnalyzerT, node=TSNode),
          returns=Opt(Int),
          assumed="literal text -> value is string parsing (suffix stripping, underscore removal, int(text, 0) / float) "
                  "that the solvers do not decide; checked by exhaustive enumeration of the Rust literal grammar: bounded "
                  "stand-in c02-literal-parsing. Float-valued literals are outside the integer model")
class RustExtractNumericValue:
    def requires(self, node):
        return node is not None

    def value(self, node):
        return rust_literal_value(node.type, node_text(node))


def rust_own(n):
    return [(n, rust_literal_int(n.type, node_text(n)), n.start_point[0] + 1)] \
        if n.type in RUST_LITERAL_TYPES and rust_literal_ok(n.type, node_text(n)) else []


def rust_walk(n: TSNode, acc: SeqOf(TSLitT)) -> SeqOf(TSLitT):
    """acc followed by the literals of the subtree of n in pre-order (each literal node exactly once)."""
    return rust_walk_seq(n.children, acc + rust_own(n))


def rust_walk_seq(s: SeqOf(TSNode), acc: SeqOf(TSLitT)) -> SeqOf(TSLitT):
    if len(s) == 0:
        return acc
    return rust_walk_seq(s[1:], rust_walk(s[0], acc))


@contract(RA + "RustMagicNumberAnalyzer._collect_numeric_literals", props=["C02"],
          types=dict(self=RustAnalyzerT, node=TSNode, literals=SeqOf(TSLitT), value=Opt(Int), line_number=Int, child=TSNode),
          modifies=["literals"])
class RustCollectNumericLiterals:
    def requires(self, node, literals):
        return node is not None and all_nodes_present(literals)

    def ensures_each_literal_node_of_the_subtree_once_with_line_row_plus_1(self, node, literals, old):
        return literals == rust_walk(node, old.literals)

    def ensures_only_real_nodes(self, node, literals):
        return all_nodes_present(literals)

    def lemmas_inv0(self, node, old):
        return all_present_append(old.literals, (node, rust_literal_int(node.type, node_text(node)), node.start_point[0] + 1))

    def inv0(self, node, literals, rest, old):
        return self == old.self and all_nodes_present(literals) and \
            rust_walk(node, old.literals) == rust_walk_seq(rest, literals)


@contract(RA + "RustMagicNumberAnalyzer.find_numeric_literals", props=["C02"],
          types=dict(self=RustAnalyzerT, root_node=TSNode), returns=SeqOf(TSLitT))
class RustFindNumericLiterals:
    def ensures_all_literals_of_the_tree(self, root_node, result):
        return implies(root_node is not None, result == rust_walk(root_node, []))

    def ensures_only_real_nodes(self, root_node, result):
        return all_nodes_present(result)

    def ensures_no_tree_no_literals(self, root_node, result):
        return implies(root_node is None, result == [])


def in_const_or_static(n: TSNode) -> Bool:
    """n or one of its ancestors is a const_item / static_item."""
    return n is not None and (n.type in ("const_item", "static_item") or in_const_or_static(n.parent))


@contract(RA + "RustMagicNumberAnalyzer.is_constant_definition", props=["C02"], types=dict(self=RustAnalyzerT, node=TSNode),
          returns=Bool)
class RustIsConstantDefinition:
    def requires(self, node):
        return node is not None

    def ensures_inside_const_or_static_item(self, node, result):
        # docs: "Constant definitions: const MAX_SIZE: usize = 100; Static items: static TIMEOUT: u64 = 3600"
        return result == in_const_or_static(node.parent)

    def inv0(self, node, current):
        return in_const_or_static(node.parent) == in_const_or_static(current)

    def var0(current):
        return ts_depth(current)


# test code (#[test] functions, #[cfg(test)] modules): src/analyzers/rust_context.is_inside_test, shared by the Rust
# linters; its contracts, spec (inside_test_from) and known findings live under C17 (contracts/c17_rust_context.py)
from contracts.c17_rust_context import inside_test_from  # noqa: E402


def rust_in_test(node):
    return inside_test_from(node)


@contract(RA + "RustMagicNumberAnalyzer.is_test_context", props=["C02"], types=dict(self=RustAnalyzerT, node=TSNode),
          returns=Bool)
class RustIsTestContext:
    def value(self, node):
        return rust_in_test(node)


# =================================================================== the rule (linter.py): TypeScript / Rust paths
TS_TEST_MARKERS = (".test.", ".spec.", "test_", "_test.", "/tests/", "/test/")


def obj_str(file_path):
    """str(file_path) for an Optional path (str(None) == 'None')."""
    return path_str(file_path) if file_path is not None else "None"


def ts_test_file(file_path):
    """docs: test files `*.test.ts`, `*.spec.ts`, ... (code: any of six markers anywhere in the path string)."""
    return any(m in obj_str(file_path) for m in TS_TEST_MARKERS)


@contract(LI + "MagicNumberRule._is_test_file", props=["C02"], types=dict(self=RuleT, file_path=OptPath), returns=Bool)
class RuleIsTestFile:
    def value(self, file_path):
        return ts_test_file(file_path)


def ts_exempt(node, file_path):
    """The documented exempt positions of a TS/JS literal (independent of allowed_numbers)."""
    return ts_test_file(file_path) or up_has_type(node.parent, "enum_declaration") or ts_constant_definition(node)


def ts_flag(value, node, file_path, allowed):
    """TOP-LEVEL SPEC (TS/JS): flagged  <=>  value not allowed  and  not in a documented exempt position."""
    return (value not in allowed) and not ts_exempt(node, file_path)


@contract(LI + "MagicNumberRule._is_typescript_allowed_context", props=["C02"],
          types=dict(self=RuleT, value=Int, context=CtxT, config=ConfigT), returns=Bool)
class IsTypescriptAllowedContext:
    def value(self, value, context, config):
        return value in config.allowed_numbers or ts_test_file(context.file_path)


@contract(LI + "MagicNumberRule._is_typescript_special_context", props=["C02"],
          types=dict(self=RuleT, node=TSNode, analyzer=TSAnalyzerT, context=CtxT), returns=Bool)
class IsTypescriptSpecialContext:
    def requires(self, node, analyzer, context):
        return node is not None

    def value(self, node, analyzer, context):
        return up_has_type(node.parent, "enum_declaration") or ts_constant_definition(node)


@contract(LI + "MagicNumberRule._should_flag_typescript_number", props=["C02"],
          types=dict(self=RuleT, node=TSNode, value=Int, context=CtxT, config=ConfigT, analyzer=TSAnalyzerT), returns=Bool)
class ShouldFlagTypescriptNumber:
    def requires(self, node, value, context, config, analyzer):
        return node is not None

    def ensures_flag_iff_not_allowed_and_not_exempt(self, node, value, context, config, analyzer, result):
        return result == ts_flag(value, node, context.file_path, config.allowed_numbers)


@contract(LI + "MagicNumberRule._should_ignore_typescript", props=["C02"],
          types=dict(self=RuleT, violation=ViolationT, context=CtxT), returns=Bool,
          assumed="inline suppression directives (// thailint: ignore, // noqa): subject of property C04; for C02 an "
                  "uninterpreted predicate of (rule id, file path, line, file content) for a fixed project on disk")
class ShouldIgnoreTypescript:
    def value(self, violation, context):
        return ts_inline_ignored(violation.rule_id, violation.file_path, violation.line, context.file_content)


@opaque
def ts_passes_filters(lit: TSLitT, file_path: OptPath, content: Opt(Str)) -> Bool:
    return (not ts_exempt(lit[0], file_path)) and not ts_inline_ignored(RULE_ID, fp_text(file_path), lit[2], content)


@opaque
def lit_allowed(lit: TSLitT, allowed: SeqOf(Int)) -> Bool:
    """The literal's value is in allowed_numbers (kept opaque so that the folds and their lemmas stay small)."""
    return lit[1] in allowed


def ts_reported(lit, file_path, content, allowed):
    return (not lit_allowed(lit, allowed)) and ts_passes_filters(lit, file_path, content)


@opaque
def ts_violation(lit: TSLitT, file_path: OptPath) -> ViolationT:
    return magic_violation(RULE_ID, file_path, lit[2], 0, lit[1], ts_suggestion(lit[1]))


@contract(LI + "MagicNumberRule._try_create_typescript_violation", props=["C02"],
          types=dict(self=RuleT, node=TSNode, value=Int, line_number=Int, context=CtxT, config=ConfigT, analyzer=TSAnalyzerT),
          returns=Opt(ViolationT))
class TryCreateTypescriptViolation:
    def requires(self, node, value, line_number, context, config, analyzer):
        return wf_rule(self) and node is not None

    def reveals(self, node, value, line_number, context, config, analyzer):
        return (reveal(ts_violation, (node, value, line_number), context.file_path)
                and reveal(lit_allowed, (node, value, line_number), config.allowed_numbers)
                and reveal(ts_passes_filters, (node, value, line_number), context.file_path, context.file_content))

    def ensures_reported_iff_flagged_and_not_suppressed(self, node, value, line_number, context, config, analyzer, result):
        return (result is not None) == ts_reported((node, value, line_number), context.file_path, context.file_content,
                                                   config.allowed_numbers)

    def ensures_violation_on_the_literals_line_naming_its_value(self, node, value, line_number, context, config, analyzer,
                                                                result):
        return implies(result is not None, result == ts_violation((node, value, line_number), context.file_path)
                       and result.line == line_number and result.message == magic_message(value)
                       and result.rule_id == RULE_ID)


def collect_ts(lits: SeqOf(TSLitT), acc: SeqOf(ViolationT), file_path: OptPath, content: Opt(Str),
               allowed: SeqOf(Int)) -> SeqOf(ViolationT):
    """acc followed by one violation per reported literal, in collection order."""
    if len(lits) == 0:
        return acc
    if ts_reported(lits[0], file_path, content, allowed):
        return collect_ts(lits[1:], acc + [ts_violation(lits[0], file_path)], file_path, content, allowed)
    return collect_ts(lits[1:], acc, file_path, content, allowed)


@contract(LI + "MagicNumberRule._collect_typescript_violations", props=["C02"],
          types=dict(self=RuleT, numeric_literals=SeqOf(TSLitT), context=CtxT, config=ConfigT, analyzer=TSAnalyzerT,
                     violations=SeqOf(ViolationT), violation=Opt(ViolationT), node=TSNode, value=Int, line_number=Int),
          returns=SeqOf(ViolationT))
class CollectTypescriptViolations:
    def requires(self, numeric_literals, context, config, analyzer):
        return wf_rule(self) and all_nodes_present(numeric_literals)

    def ensures_one_violation_per_reported_literal(self, numeric_literals, context, config, analyzer, result):
        return result == collect_ts(numeric_literals, [], context.file_path, context.file_content, config.allowed_numbers)

    def inv0(self, numeric_literals, context, config, analyzer, violations, rest, old):
        return self == old.self and context == old.context and config == old.config and analyzer == old.analyzer \
            and all_nodes_present(rest) and \
            collect_ts(numeric_literals, [], context.file_path, context.file_content, config.allowed_numbers) == \
            collect_ts(rest, violations, context.file_path, context.file_content, config.allowed_numbers)


def rust_exempt(node):
    """The documented exempt positions of a Rust literal (independent of allowed_numbers)."""
    return in_const_or_static(node.parent) or rust_in_test(node)


def rust_flag(value, node, allowed):
    """TOP-LEVEL SPEC (Rust): flagged  <=>  value not allowed  and  not in a documented exempt position."""
    return (value not in allowed) and not rust_exempt(node)


@opaque
def rust_passes_filters(lit: TSLitT, file_path: OptPath, content: Opt(Str)) -> Bool:
    return (not rust_exempt(lit[0])) and not inline_ignored(RULE_ID, fp_text(file_path), lit[2], content)


def rust_reported(lit, file_path, content, allowed):
    return (not lit_allowed(lit, allowed)) and rust_passes_filters(lit, file_path, content)


@opaque
def rust_violation(lit: TSLitT, file_path: OptPath) -> ViolationT:
    return magic_violation(RULE_ID, file_path, lit[2], 0, lit[1], rust_suggestion(lit[1]))


@contract(LI + "MagicNumberRule._try_create_rust_violation", props=["C02"],
          types=dict(self=RuleT, node=TSNode, value=Int, line_number=Int, context=CtxT, config=ConfigT,
                     analyzer=RustAnalyzerT), returns=Opt(ViolationT))
class TryCreateRustViolation:
    def requires(self, node, value, line_number, context, config, analyzer):
        return wf_rule(self) and node is not None

    def reveals(self, node, value, line_number, context, config, analyzer):
        return (reveal(rust_violation, (node, value, line_number), context.file_path)
                and reveal(lit_allowed, (node, value, line_number), config.allowed_numbers)
                and reveal(rust_passes_filters, (node, value, line_number), context.file_path, context.file_content))

    def ensures_reported_iff_flagged_and_not_suppressed(self, node, value, line_number, context, config, analyzer, result):
        return (result is not None) == rust_reported((node, value, line_number), context.file_path, context.file_content,
                                                     config.allowed_numbers)

    def ensures_flag_iff_not_allowed_and_not_exempt(self, node, value, line_number, context, config, analyzer, result):
        return (result is not None) == (rust_flag(value, node, config.allowed_numbers)
                                        and not inline_ignored(RULE_ID, fp_text(context.file_path), line_number,
                                                               context.file_content))

    def ensures_violation_on_the_literals_line_naming_its_value(self, node, value, line_number, context, config, analyzer,
                                                                result):
        return implies(result is not None, result == rust_violation((node, value, line_number), context.file_path)
                       and result.line == line_number and result.message == magic_message(value)
                       and result.rule_id == RULE_ID)


def collect_rust(lits: SeqOf(TSLitT), acc: SeqOf(ViolationT), file_path: OptPath, content: Opt(Str),
                 allowed: SeqOf(Int)) -> SeqOf(ViolationT):
    """acc followed by one violation per reported literal, in collection order."""
    if len(lits) == 0:
        return acc
    if rust_reported(lits[0], file_path, content, allowed):
        return collect_rust(lits[1:], acc + [rust_violation(lits[0], file_path)], file_path, content, allowed)
    return collect_rust(lits[1:], acc, file_path, content, allowed)


@contract(LI + "MagicNumberRule._collect_rust_violations", props=["C02"],
          types=dict(self=RuleT, numeric_literals=SeqOf(TSLitT), context=CtxT, config=ConfigT, analyzer=RustAnalyzerT,
                     violations=SeqOf(ViolationT), violation=Opt(ViolationT), node=TSNode, value=Int, line_number=Int),
          returns=SeqOf(ViolationT))
class CollectRustViolations:
    def requires(self, numeric_literals, context, config, analyzer):
        return wf_rule(self) and all_nodes_present(numeric_literals)

    def ensures_one_violation_per_reported_literal(self, numeric_literals, context, config, analyzer, result):
        return result == collect_rust(numeric_literals, [], context.file_path, context.file_content, config.allowed_numbers)

    def inv0(self, numeric_literals, context, config, analyzer, violations, rest, old):
        return self == old.self and context == old.context and config == old.config and analyzer == old.analyzer \
            and all_nodes_present(rest) and \
            collect_rust(numeric_literals, [], context.file_path, context.file_content, config.allowed_numbers) == \
            collect_rust(rest, violations, context.file_path, context.file_content, config.allowed_numbers)


# ------------------------------------------------------------------ delta lemmas (TS, Rust)
@lemma(props=["C02"], types=dict(rule=RuleT, node=TSNode, value=Int, context=CtxT, config=ConfigT, analyzer=TSAnalyzerT, a=Int),
       name="typescript-allowed-numbers-delta")
def ts_allowed_delta(rule, node, value, context, config, analyzer, a):
    """flag(A + {a}) == flag(A) and value != a, over the contract of _should_flag_typescript_number."""
    if node is None:
        return True
    f0 = call(LI + "MagicNumberRule._should_flag_typescript_number", rule, node, value, context, config, analyzer)
    f1 = call(LI + "MagicNumberRule._should_flag_typescript_number", rule, node, value, context,
              with_allowed(config, config.allowed_numbers + [a]), analyzer)
    return f1 == (f0 and value != a)


@lemma(props=["C02"], types=dict(rule=RuleT, node=TSNode, value=Int, line=Int, context=CtxT, config=ConfigT,
                                 analyzer=RustAnalyzerT, a=Int),
       name="rust-allowed-numbers-delta")
def rust_allowed_delta(rule, node, value, line, context, config, analyzer, a):
    """reported(A + {a}) == reported(A) and value != a, over the contract of _try_create_rust_violation."""
    if node is None or rule._violation_builder.rule_id != RULE_ID:
        return True
    v0 = call(LI + "MagicNumberRule._try_create_rust_violation", rule, node, value, line, context, config, analyzer)
    v1 = call(LI + "MagicNumberRule._try_create_rust_violation", rule, node, value, line, context,
              with_allowed(config, config.allowed_numbers + [a]), analyzer)
    return (v1 is not None) == (v0 is not None and value != a)


# =================================================================== per-language entry points (linter.py)
# file-level filters: the `ignore` pattern list and the definition-module heuristic
from pyvc.ty import VBool as _VBool, VOpaque as _VOpaque, Unsupported as _Unsupported  # noqa: E402

# pathlib.PurePath.match (glob matching from the right) is external: an uninterpreted predicate of (path, pattern)
path_glob_match = uf("c02_path_glob_match", [PathT, Str], Bool, concrete=lambda p, pat: p.match(pat))


# (pathlib.Path(<Path>) -- identity -- is the external registered by contracts/c09_paths.py)


def _path_match(ex, args, kwargs, lineno):
    """path.match(pattern): the uninterpreted glob predicate. NOT modelled: pathlib raises ValueError('empty pattern')
    for an empty pattern (the call sits under a generator, where no raise can be tracked); the contracts of the callers
    (_is_file_ignored, _check_*) therefore REQUIRE non-empty patterns."""
    path, pattern = args[0], args[1]
    ex.ufs_used.add("c02_path_glob_match")
    f = _z3.Function("uf.c02_path_glob_match", PathT.sort(), _z3.StringSort(), _z3.BoolSort())
    return _VBool(f(path.t, pattern.t))


from pyvc.ex_call import EXTERNALS as _EXTERNALS  # noqa: E402

_EXTERNALS.setdefault("Path.match", _path_match)  # (never replaces a handler another contract file registered)


def pattern_matches(file_path, pattern):
    """docs (ignore patterns): a glob match of the path, or the pattern occurring in the path string."""
    return path_glob_match(file_path, pattern) or pattern in path_str(file_path)


def file_ignored(file_path, patterns):
    """The file is excluded by the linter's `ignore` list: it has a path and some pattern matches it."""
    return file_path is not None and any(pattern_matches(file_path, pattern) for pattern in patterns)


def no_empty_pattern(patterns):
    return all(len(p) > 0 for p in patterns)


@contract(LI + "MagicNumberRule._matches_pattern", props=["C02", "C04", "C09"], types=dict(self=RuleT, file_path=PathT, pattern=Str),
          returns=Bool)
class MatchesPattern:
    def native_domain(pattern):
        # an EMPTY pattern makes pathlib raise ValueError('empty pattern') (observed natively on the CLI): not modelled, see
        # Path.match above; the callers' contracts require non-empty patterns
        return len(pattern) > 0

    def value(self, file_path, pattern):
        return pattern_matches(file_path, pattern)


@contract(LI + "MagicNumberRule._is_file_ignored", props=["C02", "C04", "C09"], types=dict(self=RuleT, context=CtxT, config=ConfigT),
          returns=Bool)
class IsFileIgnored:
    def requires(self, context, config):
        return no_empty_pattern(config.ignore)

    def value(self, context, config):
        return file_ignored(context.file_path, config.ignore)


definition_file = uf("c02_definition_file", [OptPath, Opt(Str)], Bool)
py_tree = uf("c02_py_tree", [Opt(Str)], PyNode)  # ast.parse(code or "") -- None on SyntaxError (parser trusted)


@contract(LI.replace("linter.py", "definition_detector.py") + "is_definition_file", props=["C02"],
          types=dict(file_path=OptPath, content=Opt(Str)), returns=Bool,
          assumed="heuristic recognition of a constants-definition module (file-name patterns plus regex counting over the "
                  "content): an uninterpreted predicate of (path, content); the property only needs that such a file yields "
                  "no violations when exempt_definition_files is on")
class IsDefinitionFile:
    def value(file_path, content):
        return definition_file(file_path, content)


@contract(LI + "MagicNumberRule._parse_python_code", props=["C02"], types=dict(self=RuleT, code=Opt(Str)), returns=PyNode,
          assumed="CPython parser (ast.parse, external, trusted): the tree is a function of the source text, None on a "
                  "SyntaxError")
class ParsePythonCode:
    def value(self, code):
        return py_tree(code)


def py_file_exempt(context, config):
    """File-level exemptions: ignored by pattern, or a constants-definition module (when enabled)."""
    return file_ignored(context.file_path, config.ignore) or \
        (config.exempt_definition_files and definition_file(context.file_path, context.file_content))


@contract(LI + "MagicNumberRule._check_python", props=["C02"], types=dict(self=RuleT, context=CtxT, config=ConfigT),
          returns=SeqOf(ViolationT))
class CheckPython:
    def requires(self, context, config):
        return wf_rule(self) and no_empty_pattern(config.ignore)

    def ensures_exempt_file_or_unparsable_no_violations(self, context, config, result):
        return implies(py_file_exempt(context, config) or py_tree(context.file_content) is None, result == [])

    def ensures_one_violation_per_reported_literal_of_the_file(self, context, config, result):
        return implies(not py_file_exempt(context, config) and py_tree(context.file_content) is not None,
                       result == collect_py(py_lits_of(py_tree(context.file_content)), [], context.file_path,
                                            context.file_content, config.allowed_numbers, config.max_small_integer))


# =================================================================== BOUNDED stand-in: literal text -> value
# The two _extract_numeric_value functions (and _is_uppercase_constant) are string parsing the solvers do not decide.
# Their contracts above are `assumed`; this check replaces the proof by EXHAUSTIVE ENUMERATION of each language's
# numeric-literal grammar up to a stated length (over a reduced digit alphabet), calling the REAL functions of
# $VERIF_REPO and comparing with a reference evaluator written from the language rules. It is labelled bounded.
DEC = "01789"
NZ = "1789"
HEXD = "01234689abcdefABCDEF"
OCTD = "017"
BIND = "01"
RUST_INT_SUFFIXES = ("u8", "u16", "u32", "u64", "u128", "usize", "i8", "i16", "i32", "i64", "i128", "isize")
RUST_FLOAT_SUFFIXES = ("f32", "f64")


def _sep_digits(digits, maxlen, sep_single=True):
    """d (_? d)*  (JS: single separators between digits) / with sep_single False: d (d|_)* (Rust)."""
    out, frontier = [], [d for d in digits] if maxlen >= 1 else []
    while frontier:
        out.extend(frontier)
        nxt = []
        for s in frontier:
            for d in digits:
                if len(s) + 1 <= maxlen:
                    nxt.append(s + d)
                if sep_single and len(s) + 2 <= maxlen:
                    nxt.append(s + "_" + d)
            if not sep_single and len(s) + 1 <= maxlen:
                nxt.append(s + "_")
        frontier = nxt
    return out


def _rust_digits(digits, maxlen):
    """(d|_)* d (d|_)*: at least one digit, underscores anywhere."""
    import itertools
    out = []
    for n in range(1, maxlen + 1):
        for t in itertools.product(digits + "_", repeat=n):
            s = "".join(t)
            if any(c != "_" for c in s):
                out.append(s)
    return out


def js_literals(maxlen):
    """(grammar class, text, reference value) for every ECMAScript NumericLiteral up to maxlen characters (ES2023
    12.9.3 incl. numeric separators and BigInt; Annex B legacy octal-like forms as their own class)."""
    out = []
    dd = _sep_digits(DEC, maxlen)
    dec_int = ["0"] + [s for s in dd if s[0] in NZ]
    for s in dec_int:
        out.append(("decimal-integer", s, int(s.replace("_", ""))))
        if len(s) + 1 <= maxlen:
            out.append(("bigint", s + "n", int(s.replace("_", ""))))
    for pfx, digs, base, cls in (("0x", HEXD, 16, "hex-integer"), ("0X", HEXD, 16, "hex-integer"),
                                 ("0o", OCTD, 8, "octal-binary-integer"), ("0O", OCTD, 8, "octal-binary-integer"),
                                 ("0b", BIND, 2, "octal-binary-integer"), ("0B", BIND, 2, "octal-binary-integer")):
        for s in _sep_digits(digs, maxlen - 2):
            v = int(s.replace("_", ""), base)
            out.append((cls, pfx + s, v))
            if len(s) + 3 <= maxlen:
                out.append(("bigint", pfx + s + "n", v))
    exps = [""] + [e + sg + d for e in "eE" for sg in ("", "+", "-") for d in _sep_digits(DEC, maxlen - 2)
                   if len(e + sg + d) <= maxlen - 1]
    fracs = [""] + dd

    def bucket(xs):
        b = {}
        for x in xs:
            b.setdefault(len(x), []).append(x)
        return b
    bi, bf, be = bucket(dec_int), bucket(fracs), bucket(exps)

    def combos(first, dot, second, third):
        for l1, xs in first.items():
            for l2, ys in second.items():
                for l3, zs in third.items():
                    if l1 + len(dot) + l2 + l3 <= maxlen:
                        for x in xs:
                            for y in ys:
                                for z in zs:
                                    yield x + dot + y + z
    for t in combos(bi, ".", bf, be):                         # DecimalIntegerLiteral . DecimalDigits? ExponentPart?
        out.append(("decimal-fraction-exponent", t, float(t.replace("_", ""))))
    for t in combos(bi, "", {0: [""]}, bucket(exps[1:])):     # DecimalIntegerLiteral ExponentPart
        out.append(("decimal-fraction-exponent", t, float(t.replace("_", ""))))
    for t in combos({0: [""]}, ".", bucket(dd), be):          # . DecimalDigits ExponentPart?
        out.append(("decimal-fraction-exponent", t, float(t.replace("_", ""))))
    import itertools
    for n in range(1, maxlen):
        for t in itertools.product(DEC, repeat=n):
            s = "0" + "".join(t)
            # Annex B.1.1: 0[0-7]+ is octal; with an 8 or 9 it is decimal (sloppy-mode JavaScript only)
            out.append(("legacy-octal", s, int(s, 8) if all(c in "01234567" for c in s) else int(s)))
    return out


def rust_literals(maxlen):
    """(grammar class, node type, text, reference value) for every Rust numeric literal token up to maxlen characters
    (Rust Reference, tokens: integer / floating-point literals; node types as tree-sitter-rust assigns them)."""
    out = []
    # decimal: every body up to maxlen without suffix, bodies up to 3 characters with each of the 14 suffixes
    for s in _sep_digits(DEC, maxlen, sep_single=False):
        v = int(s.replace("_", ""))
        out.append(("decimal-integer", "integer_literal", s, v))
        if len(s) <= 3:
            for suf in RUST_INT_SUFFIXES + RUST_FLOAT_SUFFIXES:
                out.append(("decimal-integer", "integer_literal", s + suf, v))
    # hex: bodies up to maxlen-1 (>= 4) characters, no suffix or one of a few integer suffixes (f32/f64 are NOT
    # suffixes after a hex literal: `0x1f32` is the number 0x1f32); octal / binary: bodies up to 4, every int suffix
    for pfx, digs, base, cls, blen, sufs in (("0x", HEXD, 16, "hex-integer", max(4, maxlen - 1), ("", "u8", "i64", "usize")),
                                             ("0o", OCTD, 8, "octal-binary-integer", 4, ("",) + RUST_INT_SUFFIXES),
                                             ("0b", BIND, 2, "octal-binary-integer", 4, ("",) + RUST_INT_SUFFIXES)):
        for s in _rust_digits(digs, blen):
            v = int(s.replace("_", ""), base)
            for suf in sufs:
                out.append((cls, "integer_literal", pfx + s + suf, v))
    decs = _sep_digits(DEC, 3, sep_single=False)
    exps = [e + sg + d for e in "eE" for sg in ("", "+", "-") for d in _rust_digits("17", 2)]
    fsufs = ("",) + RUST_FLOAT_SUFFIXES
    for i in decs:
        out.append(("float", "float_literal", i + ".", float(i.replace("_", ""))))   # `2.` (no suffix possible)
        for f in decs:
            for e in [""] + exps:
                t = i + "." + f + e
                if len(t) <= maxlen + 1:
                    for suf in fsufs:
                        out.append(("float", "float_literal", t + suf, float(t.replace("_", ""))))
        for e in exps:
            t = i + e
            if len(t) <= maxlen:
                for suf in fsufs:
                    out.append(("float", "float_literal", t + suf, float(t.replace("_", ""))))
    return out


# The genuine defects this enumeration found (TS/JS: hex literals with an e digit, BigInt, legacy octal; Rust: f32/f64
# cut from hex literals, leading-zero decimal bodies) are repaired: every grammar class of both languages is checked by
# its plain property-level obligation. A language with recorded defect classes would pass a `known(cls, kind, text) ->
# (finding id, recorded code value) | None` predicate to run() and get one finding-adjusted obligation in addition.


def _same_number(a, b):
    return a is not None and b is not None and not isinstance(a, bool) and a == b


@custom("c02-literal-parsing", props=["C02"])
def literal_parsing_bounded(ctx):
    import importlib
    import os
    import sys
    import types
    repo = ctx.get("repo") or os.environ.get("VERIF_REPO", "/repo")
    if repo not in sys.path:
        sys.path.insert(0, repo)
    for m in [k for k in sys.modules if k == "src" or k.startswith("src.")]:
        if not getattr(sys.modules[m], "__file__", "").startswith(os.path.abspath(repo)):
            del sys.modules[m]
    ts_mod = importlib.import_module("src.linters.magic_numbers.typescript_analyzer")
    rs_mod = importlib.import_module("src.linters.magic_numbers.rust_analyzer")
    ts, rs = ts_mod.TypeScriptMagicNumberAnalyzer(), rs_mod.RustMagicNumberAnalyzer()
    maxlen = 5 if ctx.get("tier", "quick") == "quick" else 6
    budget = f"all literals of the grammar up to {maxlen} characters over the digit alphabet dec={DEC!r} hex={HEXD!r}"
    obs = []

    def node(kind, text):
        return types.SimpleNamespace(type=kind, text=text.encode(), children=[], parent=None, start_point=(0, 0))

    def run(lang, target, cases, call, known):
        """cases: (class, kind, text, ref). Per grammar class one PROPERTY-LEVEL obligation (code value == language
        value); for a language with recorded defect classes (`known`) additionally ONE finding-adjusted obligation:
        outside the recorded classes the value is right, inside them the code does exactly what the finding says."""
        per_cls, adjusted_bad, n_adj = {}, [], 0
        for cls, kind, text, ref in cases:
            try:
                got = call(kind, text)
            except BaseException as e:  # noqa
                got = f"raised {type(e).__name__}"
            ok = _same_number(got, ref)
            st = per_cls.setdefault(cls, {"n": 0, "bad": []})
            st["n"] += 1
            if not ok and len(st["bad"]) < 5:
                st["bad"].append({"literal": text, "language_value": ref, "code_value": got})
            elif not ok:
                st["more"] = st.get("more", 0) + 1
            if known is None:
                continue
            kd = known(cls, kind, text)
            n_adj += 1
            if kd is None:
                if not ok and len(adjusted_bad) < 8:
                    adjusted_bad.append({"literal": text, "language_value": ref, "code_value": got})
            else:
                expect = kd[1]
                if not (got == expect and type(got) is type(expect)) and len(adjusted_bad) < 8:
                    adjusted_bad.append({"literal": text, "finding": kd[0], "recorded_code_value": expect, "code_value": got})
        for cls, st in sorted(per_cls.items()):
            bad = st["bad"]
            obs.append({"name": f"bounded:{target}/{cls}-value-is-language-value", "kind": "bounded",
                        "verdict": "refuted" if bad else "passed", "tool": "exhaustive enumeration", "budget": budget,
                        "cases": st["n"], "witness": bad[:5], "witness_confirmed": bool(bad),
                        "note": (f"{lang} {cls}: {len(bad) + st.get('more', 0)} of {st['n']} literals get a wrong value "
                                 f"(first: {bad[0]})" if bad else f"{lang} {cls}: all {st['n']} literals get the language's value")})
        if known is None:
            return  # no recorded defect class for this language: the plain per-class obligations are the whole check
        obs.append({"name": f"bounded:{target}/value-is-language-value-adjusted", "kind": "bounded",
                    "verdict": "refuted" if adjusted_bad else "passed", "tool": "exhaustive enumeration", "budget": budget,
                    "cases": n_adj, "witness": adjusted_bad, "witness_confirmed": bool(adjusted_bad),
                    "note": (f"{lang}: deviation outside the recorded defect classes: {adjusted_bad[0]}" if adjusted_bad else
                             f"{lang}: all {n_adj} literals get the language's value except exactly the recorded defect classes")})

    run("JS/TS", "TypeScriptMagicNumberAnalyzer._extract_numeric_value",
        [(c, "number", t, v) for c, t, v in js_literals(maxlen)],
        lambda kind, text: ts._extract_numeric_value(node(kind, text)), None)
    run("Rust", "RustMagicNumberAnalyzer._extract_numeric_value", rust_literals(maxlen),
        lambda kind, text: rs._extract_numeric_value(node(kind, text)), None)

    # _is_uppercase_constant: "UPPERCASE" = has a letter and every letter is upper case
    import itertools
    bad, n = [], 0
    for ln in range(0, 6):
        for t in itertools.product("aZbA_$19", repeat=ln):
            name = "".join(t)
            n += 1
            want = any(c.isalpha() for c in name) and all(c.isupper() for c in name if c.isalpha())
            got = ts._is_uppercase_constant(name)
            if got != want and len(bad) < 5:
                bad.append({"name": name, "expected": want, "code": got})
    obs.append({"name": "bounded:TypeScriptMagicNumberAnalyzer._is_uppercase_constant/uppercase-iff-all-letters-upper",
                "kind": "bounded", "verdict": "refuted" if bad else "passed", "tool": "exhaustive enumeration",
                "budget": "all strings up to 5 characters over 'aZbA_$19'", "cases": n, "witness": bad,
                "witness_confirmed": bool(bad), "note": f"{n} identifiers" + (f"; first deviation {bad[0]}" if bad else "")})
    return obs


# =================================================================== TS / Rust entry points
from contracts.c01_ts_base import ts_root  # noqa: E402  (parse tree of a TS/JS source text; parser trusted, C01 file)
from contracts.c17_rust_context import rust_root  # noqa: E402  (parse tree of a Rust source text; C17 file)


def text_of(content):
    return content if content is not None and len(content) > 0 else ""


@contract(LI + "MagicNumberRule._check_typescript", props=["C02"], types=dict(self=RuleT, context=CtxT, config=ConfigT),
          returns=SeqOf(ViolationT), inline=["__init__"])
class CheckTypescript:
    def requires(self, context, config):
        return wf_rule(self) and no_empty_pattern(config.ignore)

    def ensures_ignored_file_no_violations(self, context, config, result):
        return implies(file_ignored(context.file_path, config.ignore), result == [])

    def ensures_one_violation_per_reported_literal_of_the_file(self, context, config, result):
        # (no tree -- tree-sitter unavailable -- gives no violations)
        return result == [] or result == collect_ts(ts_walk(ts_root(text_of(context.file_content)), []), [],
                                                    context.file_path, context.file_content, config.allowed_numbers)


@contract(LI + "MagicNumberRule._check_rust", props=["C02"], types=dict(self=RuleT, context=CtxT, config=ConfigT),
          returns=SeqOf(ViolationT), inline=["__init__"])
class CheckRust:
    def requires(self, context, config):
        return wf_rule(self) and no_empty_pattern(config.ignore)

    def ensures_ignored_file_no_violations(self, context, config, result):
        return implies(file_ignored(context.file_path, config.ignore), result == [])

    def ensures_one_violation_per_reported_literal_of_the_file(self, context, config, result):
        return result == [] or result == collect_rust(rust_walk(rust_root(text_of(context.file_content)), []), [],
                                                      context.file_path, context.file_content, config.allowed_numbers)


# =================================================================== native generators (CPython cross-check / witness search)
# Used only by pyvc/selftest.py: realistic concrete inputs for the Python path, so that the real functions can be run
# against the same contract text natively (thorough tier) and a refuted invariant can be turned into a failing input.
_PY_SNIPPETS = ("x = 7", "MAX_SIZE = 100", "X = 5", "for i in range(3): pass", "for i in range(50): pass",
                "for i, v in enumerate(items, 1): pass", "for i, v in enumerate(items, 42): pass", "line = '-' * 40",
                "y = f(9, 2) + 0x1e", "flag = True", "t = timeout * 3600", "z = [10, 11, 12]", "w = -1", "ok = 3 * 'ab'")


def _gen_py_lit(g):
    import ast as _a
    tree = _a.parse(g.rng.choice(_PY_SNIPPETS))
    parents = {c: p for p in _a.walk(tree) for c in _a.iter_child_nodes(p)}
    ints = [n for n in _a.walk(tree) if isinstance(n, _a.Constant) and isinstance(n.value, int)]
    # (bool constants are no longer collected by the analyzer; the downstream functions still accept them)
    nodes = [n for n in ints if not isinstance(n.value, bool) or g.rng.random() < 0.3] or ints
    n = g.rng.choice(nodes)
    return (n, parents.get(n), n.value, n.lineno)


def _gen_rule(g):
    from src.linters.magic_numbers.linter import MagicNumberRule
    return MagicNumberRule()


def _gen_ctx(g):
    import pathlib
    import types as _t
    name = g.rng.choice(["src/app.py", "tests/test_app.py", "pkg/util_test.py", "a.ts", "x/y.test.ts", "lib.rs"])
    content = g.rng.choice([None, "x = 7\n", "x = 7  # noqa\ny = 8\n", "a\nb  # thailint: ignore\nc\n"])
    return _t.SimpleNamespace(file_path=g.rng.choice([None, pathlib.PurePosixPath(name)]), file_content=content,
                              language="python")


PyLitT.native_gen = _gen_py_lit
RuleT.native_gen = _gen_rule
CtxT.native_gen = _gen_ctx


# =================================================================== file-level consequences (induction over the literal list)
@lemma(props=["C02"], types=dict(lits=SeqOf(PyLitT), acc=SeqOf(ViolationT), file_path=OptPath, content=Opt(Str),
                                 allowed=SeqOf(Int), max_small=Int), name="python-exactly-one-violation-per-reported-literal")
def py_exactly_once(lits, acc, file_path, content, allowed, max_small):
    """The fold adds exactly one violation per reported literal (no double reporting, nothing dropped)."""
    if len(lits) == 0:
        return len(collect_py(lits, acc, file_path, content, allowed, max_small)) == \
            len(acc) + sum(1 for lit in lits if py_reported(lit, file_path, content, allowed, max_small))
    if py_reported(lits[0], file_path, content, allowed, max_small):
        ih(py_exactly_once, lits[1:], acc + [py_violation(lits[0], file_path)], file_path, content, allowed, max_small)
    else:
        ih(py_exactly_once, lits[1:], acc, file_path, content, allowed, max_small)
    return len(collect_py(lits, acc, file_path, content, allowed, max_small)) == \
        len(acc) + sum(1 for lit in lits if py_reported(lit, file_path, content, allowed, max_small))


def without_value(lits: SeqOf(PyLitT), a: Int) -> SeqOf(PyLitT):
    """The literals whose value is not a (Python equality: True == 1)."""
    if len(lits) == 0:
        return []
    if py_lit_is(lits[0], a):
        return without_value(lits[1:], a)
    return [lits[0]] + without_value(lits[1:], a)


@lemma(props=["C02"], types=dict(lits=SeqOf(PyLitT), acc=SeqOf(ViolationT), file_path=OptPath, content=Opt(Str),
                                 allowed=SeqOf(Int), max_small=Int, a=Int), name="python-file-level-allowed-numbers-delta")
def py_file_delta(lits, acc, file_path, content, allowed, max_small, a):
    """PROPERTY: adding a value to allowed_numbers removes exactly the violations for literals of that value (and
    removing it adds exactly those): the violations with A + {a} are the violations with A of the literals whose value
    is not a (integer model: a recorded value is an int or a bool; any other value is equal to no number)."""
    if len(lits) == 0:
        return collect_py(lits, acc, file_path, content, allowed + [a], max_small) == \
            collect_py(without_value(lits, a), acc, file_path, content, allowed, max_small)
    # the only fact about numbers: membership in A + [a] is membership in A or being a (at the head literal)
    reveal(py_lit_allowed, lits[0], allowed)
    reveal(py_lit_allowed, lits[0], allowed + [a])
    reveal(py_lit_is, lits[0], a)
    if py_reported(lits[0], file_path, content, allowed + [a], max_small):
        ih(py_file_delta, lits[1:], acc + [py_violation(lits[0], file_path)], file_path, content, allowed, max_small, a)
    else:
        ih(py_file_delta, lits[1:], acc, file_path, content, allowed, max_small, a)
    return collect_py(lits, acc, file_path, content, allowed + [a], max_small) == \
        collect_py(without_value(lits, a), acc, file_path, content, allowed, max_small)


def without_value_ts(lits: SeqOf(TSLitT), a: Int) -> SeqOf(TSLitT):
    if len(lits) == 0:
        return []
    if lits[0][1] == a:
        return without_value_ts(lits[1:], a)
    return [lits[0]] + without_value_ts(lits[1:], a)


@lemma(props=["C02"], types=dict(lits=SeqOf(TSLitT), acc=SeqOf(ViolationT), file_path=OptPath, content=Opt(Str),
                                 allowed=SeqOf(Int)), name="typescript-exactly-one-violation-per-reported-literal")
def ts_exactly_once(lits, acc, file_path, content, allowed):
    if len(lits) == 0:
        return len(collect_ts(lits, acc, file_path, content, allowed)) == \
            len(acc) + sum(1 for lit in lits if ts_reported(lit, file_path, content, allowed))
    if ts_reported(lits[0], file_path, content, allowed):
        ih(ts_exactly_once, lits[1:], acc + [ts_violation(lits[0], file_path)], file_path, content, allowed)
    else:
        ih(ts_exactly_once, lits[1:], acc, file_path, content, allowed)
    return len(collect_ts(lits, acc, file_path, content, allowed)) == \
        len(acc) + sum(1 for lit in lits if ts_reported(lit, file_path, content, allowed))


@lemma(props=["C02"], types=dict(lits=SeqOf(TSLitT), acc=SeqOf(ViolationT), file_path=OptPath, content=Opt(Str),
                                 allowed=SeqOf(Int), a=Int), name="typescript-file-level-allowed-numbers-delta")
def ts_file_delta(lits, acc, file_path, content, allowed, a):
    if len(lits) == 0:
        return collect_ts(lits, acc, file_path, content, allowed + [a]) == \
            collect_ts(without_value_ts(lits, a), acc, file_path, content, allowed)
    reveal(lit_allowed, lits[0], allowed)
    reveal(lit_allowed, lits[0], allowed + [a])
    if ts_reported(lits[0], file_path, content, allowed + [a]):
        ih(ts_file_delta, lits[1:], acc + [ts_violation(lits[0], file_path)], file_path, content, allowed, a)
    else:
        ih(ts_file_delta, lits[1:], acc, file_path, content, allowed, a)
    return collect_ts(lits, acc, file_path, content, allowed + [a]) == \
        collect_ts(without_value_ts(lits, a), acc, file_path, content, allowed)


@lemma(props=["C02"], types=dict(lits=SeqOf(TSLitT), acc=SeqOf(ViolationT), file_path=OptPath, content=Opt(Str),
                                 allowed=SeqOf(Int)), name="rust-exactly-one-violation-per-reported-literal")
def rust_exactly_once(lits, acc, file_path, content, allowed):
    if len(lits) == 0:
        return len(collect_rust(lits, acc, file_path, content, allowed)) == \
            len(acc) + sum(1 for lit in lits if rust_reported(lit, file_path, content, allowed))
    if rust_reported(lits[0], file_path, content, allowed):
        ih(rust_exactly_once, lits[1:], acc + [rust_violation(lits[0], file_path)], file_path, content, allowed)
    else:
        ih(rust_exactly_once, lits[1:], acc, file_path, content, allowed)
    return len(collect_rust(lits, acc, file_path, content, allowed)) == \
        len(acc) + sum(1 for lit in lits if rust_reported(lit, file_path, content, allowed))


@lemma(props=["C02"], types=dict(lits=SeqOf(TSLitT), acc=SeqOf(ViolationT), file_path=OptPath, content=Opt(Str),
                                 allowed=SeqOf(Int), a=Int), name="rust-file-level-allowed-numbers-delta")
def rust_file_delta(lits, acc, file_path, content, allowed, a):
    if len(lits) == 0:
        return collect_rust(lits, acc, file_path, content, allowed + [a]) == \
            collect_rust(without_value_ts(lits, a), acc, file_path, content, allowed)
    reveal(lit_allowed, lits[0], allowed)
    reveal(lit_allowed, lits[0], allowed + [a])
    if rust_reported(lits[0], file_path, content, allowed + [a]):
        ih(rust_file_delta, lits[1:], acc + [rust_violation(lits[0], file_path)], file_path, content, allowed, a)
    else:
        ih(rust_file_delta, lits[1:], acc, file_path, content, allowed, a)
    return collect_rust(lits, acc, file_path, content, allowed + [a]) == \
        collect_rust(without_value_ts(lits, a), acc, file_path, content, allowed)


# =================================================================== BOUNDED differential: configuration precedence
# MagicNumberConfig.from_dict is proved above for the code as written; a rewrite that leaves the verified subset would only
# be UNDECIDED. This bounded native differential runs the REAL from_dict of $VERIF_REPO on a systematic grid of small
# configuration dicts (every key absent / empty / non-empty at top level and in a language section, every language
# argument) against the SAME spec functions the contract uses (chosen_allowed / chosen_max_small), and checks the frame
# (a reader must not write the dict it is given). Labelled bounded.
@custom("c02-config-precedence", props=["C02", "C05", "C08", "C10"])
def config_precedence_bounded(ctx):
    import copy
    import importlib
    import itertools
    import os
    import sys
    repo = ctx.get("repo") or os.environ.get("VERIF_REPO", "/repo")
    if repo not in sys.path:
        sys.path.insert(0, repo)
    for m in [k for k in sys.modules if k == "src" or k.startswith("src.")]:
        if not getattr(sys.modules[m], "__file__", "").startswith(os.path.abspath(repo)):
            del sys.modules[m]
    cfg_mod = importlib.import_module("src.linters.magic_numbers.config")
    ABSENT = object()
    allowed_vals = (ABSENT, [], [7], [0, 1, 7, 100])
    small_vals = (ABSENT, 1, 5, 20, 0, -3)
    sections = [dict(a=a, m=m) for a in allowed_vals for m in (ABSENT, 1, 3, 0)]
    langs = (None, "", "python", "typescript", "rust")

    def build(d):
        out = {}
        if d["a"] is not ABSENT:
            out["allowed_numbers"] = list(d["a"])
        if d["m"] is not ABSENT:
            out["max_small_integer"] = d["m"]
        return out

    bad = {"allowed": [], "max_small": [], "raises": [], "frame": [], "passthrough": []}
    n = 0
    for a, m in itertools.product(allowed_vals, small_vals):
        top = build(dict(a=a, m=m))
        for sec_lang in (ABSENT, "python", "rust"):
            for sec in ([None] if sec_lang is ABSENT else sections):
                for extra in ({}, {"ignore": ["tests/"], "enabled": False, "exempt_definition_files": False}):
                    config = dict(top, **extra)
                    if sec_lang is not ABSENT:
                        config[sec_lang] = build(sec)
                    for language in langs:
                        n += 1
                        before = copy.deepcopy(config)
                        want_raise = chosen_max_small(config, language) <= 0
                        try:
                            got = cfg_mod.MagicNumberConfig.from_dict(config, language)
                            raised = None
                        except ValueError as e:
                            got, raised = None, e
                        case = {"config": before, "language": language}
                        if config != before and len(bad["frame"]) < 3:
                            bad["frame"].append(dict(case, after=copy.deepcopy(config)))
                        if (raised is not None) != want_raise:
                            if len(bad["raises"]) < 3:
                                bad["raises"].append(dict(case, raised=repr(raised), spec_says_raises=want_raise))
                            continue
                        if raised is not None:
                            continue
                        if not same_members(got.allowed_numbers, chosen_allowed(before, language)) and len(bad["allowed"]) < 3:
                            bad["allowed"].append(dict(case, code=sorted(got.allowed_numbers),
                                                       spec=sorted(chosen_allowed(before, language))))
                        if got.max_small_integer != chosen_max_small(before, language) and len(bad["max_small"]) < 3:
                            bad["max_small"].append(dict(case, code=got.max_small_integer, spec=chosen_max_small(before, language)))
                        if (got.enabled, got.ignore, got.exempt_definition_files) != \
                                (before.get("enabled", True), before.get("ignore", []), before.get("exempt_definition_files", True)) \
                                and len(bad["passthrough"]) < 3:
                            bad["passthrough"].append(dict(case, code=[got.enabled, got.ignore, got.exempt_definition_files]))
    what = {"allowed": "allowed_numbers: language section, then top level, then the default set (an explicitly EMPTY list counts)",
            "max_small": "max_small_integer: language section, then top level, then 10",
            "raises": "ValueError exactly when the chosen max_small_integer <= 0",
            "frame": "from_dict does not modify the dict it is given",
            "passthrough": "enabled / ignore / exempt_definition_files are taken from the top level unchanged"}
    return [{"name": f"bounded:MagicNumberConfig.from_dict/{k}-as-documented", "kind": "bounded",
             "verdict": "refuted" if v else "passed", "tool": "exhaustive enumeration (native differential against the contract's spec)",
             "budget": "grid: 4 allowed_numbers x 6 max_small_integer at top level x {no section, python, rust} x 16 sections "
                       "x 2 passthrough settings x 5 language arguments", "cases": n, "witness": v, "witness_confirmed": bool(v),
             "note": (f"{what[k]} -- violated, first: {v[0]}" if v else f"{what[k]}: holds on all {n} cases")}
            for k, v in bad.items()]


# =================================================================== which configuration applies (linter.py: _load_config)
# `config` is the test-style attribute (None stands for "absent or None": both are skipped), `metadata` the production one
LoadCtxT = Rec("LintContext", file_path=OptPath, file_content=Opt(Str), language=Str, config=Any, metadata=Any)


@opaque
def sec_wf(section: Dict, language: Opt(Str)) -> Bool:
    """The section has the documented shape (see wf_config)."""
    return wf_config(section, language)


@opaque
def sec_allowed(section: Dict, language: Opt(Str)) -> SeqOf(Int):
    """allowed_numbers chosen from a section for a language (override precedence, see chosen_allowed)."""
    return chosen_allowed(section, language)


@opaque
def sec_max_small(section: Dict, language: Opt(Str)) -> Int:
    """max_small_integer chosen from a section for a language (override precedence, see chosen_max_small)."""
    return chosen_max_small(section, language)


def section_cfg(section, language, result):
    """result is the MagicNumberConfig that from_dict builds from `section` for `language` (override precedence)."""
    return same_members(result.allowed_numbers, sec_allowed(section, language)) and \
        result.max_small_integer == sec_max_small(section, language) and result.max_small_integer > 0


def default_cfg(result):
    return same_members(result.allowed_numbers, DEFAULT_ALLOWED) and result.max_small_integer == 10


def reveal_section(section, language):
    return reveal(sec_wf, section, language) and reveal(sec_allowed, section, language) and reveal(sec_max_small, section, language)


@contract(LI + "MagicNumberRule._try_load_test_config", props=["C02", "C05"], types=dict(self=RuleT, context=LoadCtxT),
          returns=Opt(ConfigT), raises=["ValueError"])
class TryLoadTestConfig:
    def requires(self, context):
        return implies(isinstance(context.config, dict), sec_wf(context.config, context.language))

    def reveals(self, context):
        return reveal_section(context.config, context.language)

    def raises_when(self, context):
        return isinstance(context.config, dict) and sec_max_small(context.config, context.language) <= 0

    def ensures_only_a_dict_config_attribute_is_used(self, context, result):
        return (result is not None) == isinstance(context.config, dict)

    def ensures_language_override_precedence(self, context, result):
        return True if result is None else section_cfg(context.config, context.language, result)


def prod_section(context):
    """The metadata section that configures magic-numbers: `magic_numbers` (normalised key) wins over `magic-numbers`."""
    return context.metadata["magic_numbers"] if "magic_numbers" in context.metadata else context.metadata["magic-numbers"]


def has_prod_section(context):
    return isinstance(context.metadata, dict) and ("magic_numbers" in context.metadata or "magic-numbers" in context.metadata)


@contract(LI + "MagicNumberRule._try_load_production_config", props=["C02", "C05"], types=dict(self=RuleT, context=LoadCtxT),
          returns=Opt(ConfigT), raises=["ValueError"], inline=["load_linter_config", "get_metadata", "get_language"])
class TryLoadProductionConfig:
    def requires(self, context):
        return implies(has_prod_section(context) and isinstance(prod_section(context), dict),
                       sec_wf(prod_section(context), context.language))

    def reveals(self, context):
        return True if not (has_prod_section(context) and isinstance(prod_section(context), dict)) else \
            reveal_section(prod_section(context), context.language)

    def raises_when(self, context):
        return has_prod_section(context) and isinstance(prod_section(context), dict) \
            and sec_max_small(prod_section(context), context.language) <= 0

    def ensures_a_config_iff_a_section_exists(self, context, result):
        return (result is not None) == has_prod_section(context)

    def ensures_section_with_language_override_precedence(self, context, result):
        return True if result is None else (
            section_cfg(prod_section(context), context.language, result) if isinstance(prod_section(context), dict)
            else default_cfg(result))


def wf_load_ctx(context):
    return implies(isinstance(context.config, dict), sec_wf(context.config, context.language)) and \
        implies(has_prod_section(context) and isinstance(prod_section(context), dict),
                sec_wf(prod_section(context), context.language))


@contract(LI + "MagicNumberRule._load_config", props=["C02", "C05"], types=dict(self=RuleT, context=LoadCtxT), returns=ConfigT,
          raises=["ValueError"])
class RuleLoadConfig:
    """Precedence of the configuration SOURCES: a dict `context.config` (test style), else the metadata section
    `magic_numbers` / `magic-numbers`, else the defaults; within a section the language override precedence of from_dict."""

    def requires(self, context):
        return wf_load_ctx(context)

    def ensures_source_precedence(self, context, result):
        return (section_cfg(context.config, context.language, result) if isinstance(context.config, dict) else
                ((section_cfg(prod_section(context), context.language, result) if isinstance(prod_section(context), dict)
                  else default_cfg(result)) if has_prod_section(context) else default_cfg(result)))

    def ensures_validated(self, context, result):
        return result.max_small_integer > 0


# =================================================================== constants-definition modules (definition_detector.py)
# PROPERTY: "a file that is itself a constants-definition module" is exempt (when exempt_definition_files is on). The
# module's own documentation defines such a file: name *_codes.py / *_constants.py / constants.py, or content with
# 10+ module-level UPPERCASE numeric constant assignments, or a dict display with 5+ integer keys.
DD = "src/linters/magic_numbers/definition_detector.py::"
from contracts._common import re_search, py_walk  # noqa: E402

DD_NAME_RE = "\\A(?:^[A-Z][A-Z0-9_]*$)"   # re.match(P, s) == re.search("\A(?:P)", s)
ast_module_of = uf("ast_module_of", [Str], PyNode, concrete=lambda text: ast.parse(text))  # the tree ast.parse gives a text


def dd_filename(file_path):
    return file_path is not None and (path_name(file_path).lower().endswith("_codes.py")
                                      or path_name(file_path).lower() == "constants.py"
                                      or path_name(file_path).lower().endswith("_constants.py"))


def dd_const_name(name):
    """UPPERCASE constant name: at least two characters, [A-Z][A-Z0-9_]*."""
    return len(name) >= 2 and re_search(DD_NAME_RE, name)


def dd_numeric(value):
    return isinstance(value, ast.Constant) and isinstance(value.value, (int, float))


def dd_upper_target(t):
    return isinstance(t, ast.Name) and dd_const_name(t.id)


def dd_assign_count(n):
    """UPPERCASE targets of one module-level statement that is an assignment of a numeric constant."""
    return sum(1 for t in n.targets if dd_upper_target(t)) if isinstance(n, ast.Assign) and dd_numeric(n.value) else 0


def dd_count(body: SeqOf(PyNode), acc: Int) -> Int:
    if len(body) == 0:
        return acc
    return dd_count(body[1:], acc + dd_assign_count(body[0]))


def dd_int_key(key):
    return isinstance(key, ast.Constant) and isinstance(key.value, int)


def dd_int_keys(d):
    return sum(1 for key in d.keys if dd_int_key(key))


def dd_has_int_dict(tree):
    return any(dd_int_keys(node) >= 5 for node in py_walk(tree) if isinstance(node, ast.Dict))


def dd_content(tree):
    """10+ UPPERCASE numeric constants at module level, or a dict display with 5+ integer keys."""
    return dd_count(tree.body, 0) >= 10 or dd_has_int_dict(tree)


@contract(DD + "_matches_definition_filename", props=["C02"], types=dict(file_path=OptPath), returns=Bool)
class DDMatchesFilename:
    def value(file_path):
        return dd_filename(file_path)


@contract(DD + "_is_constant_name", props=["C02"], types=dict(name=Str), returns=Bool)
class DDIsConstantName:
    def value(name):
        return dd_const_name(name)


@contract(DD + "_is_numeric_constant", props=["C02"], types=dict(value=PyNode), returns=Bool)
class DDIsNumericConstant:
    def value(value):
        return dd_numeric(value)


@contract(DD + "_is_uppercase_name_target", props=["C02"], types=dict(target=PyNode), returns=Bool)
class DDIsUppercaseNameTarget:
    def value(target):
        return dd_upper_target(target)


@contract(DD + "_count_numeric_constant_targets", props=["C02"], types=dict(assign_node=PyNode), returns=Int)
class DDCountNumericConstantTargets:
    def requires(assign_node):
        return isinstance(assign_node, ast.Assign)

    def value(assign_node):
        return dd_assign_count(assign_node)


@contract(DD + "_count_uppercase_constants", props=["C02"], types=dict(tree=PyNode, count=Int, node=PyNode), returns=Int)
class DDCountUppercaseConstants:
    def requires(tree):
        return isinstance(tree, ast.Module)

    def value(tree):
        return dd_count(tree.body, 0)

    def inv0(tree, count, rest):
        return dd_count(tree.body, 0) == dd_count(rest, count)


@contract(DD + "_is_int_key", props=["C02"], types=dict(key=PyNode), returns=Bool)
class DDIsIntKey:
    def value(key):
        return dd_int_key(key)


@contract(DD + "_count_int_keys", props=["C02"], types=dict(dict_node=PyNode), returns=Int)
class DDCountIntKeys:
    def requires(dict_node):
        return isinstance(dict_node, ast.Dict)

    def value(dict_node):
        return dd_int_keys(dict_node)


@contract(DD + "_has_enough_int_keys", props=["C02"], types=dict(dict_node=PyNode), returns=Bool)
class DDHasEnoughIntKeys:
    def requires(dict_node):
        return isinstance(dict_node, ast.Dict)

    def value(dict_node):
        return dd_int_keys(dict_node) >= 5


@contract(DD + "_has_dict_with_int_keys", props=["C02"], types=dict(tree=PyNode), returns=Bool)
class DDHasDictWithIntKeys:
    def requires(tree):
        return tree is not None

    def value(tree):
        return dd_has_int_dict(tree)


@contract(DD + "_has_definition_content_patterns", props=["C02"], types=dict(content=Str, tree=PyNode), returns=Bool)
class DDHasDefinitionContentPatterns:
    def ensures_only_for_documented_content(content, result):
        # (a text that does not parse is never a definition module; whether a text parses is the parser's business, so
        # the clause is one-directional here -- the thresholds themselves are pinned by the exact helper contracts above
        # and by the bounded differential c02-definition-files)
        return implies(result, dd_content(ast_module_of(content)))


@contract(DD + "is_definition_file~documented", props=["C02"], types=dict(file_path=OptPath, content=Opt(Str)), returns=Bool)
class IsDefinitionFileDocumented:
    """Verified view of is_definition_file (the untagged contract keeps it an uninterpreted FUNCTION of (path, content))."""

    def ensures_definition_filename_is_enough(file_path, content, result):
        return implies(dd_filename(file_path), result)

    def ensures_otherwise_only_documented_content(file_path, content, result):
        return implies(result and not dd_filename(file_path),
                       content is not None and len(content) > 0 and dd_content(ast_module_of(content)))


@custom("c02-definition-files", props=["C02"])
def definition_files_bounded(ctx):
    """Bounded native differential at is_definition_file: generated module texts around the documented thresholds (0..12
    UPPERCASE numeric constants, lower-case / non-numeric decoys, dicts with 0..7 integer keys) and file names around the
    documented patterns, against the documented rule."""
    import importlib
    import os
    import pathlib
    import sys
    repo = ctx.get("repo") or os.environ.get("VERIF_REPO", "/repo")
    if repo not in sys.path:
        sys.path.insert(0, repo)
    for m in [k for k in sys.modules if k == "src" or k.startswith("src.")]:
        if not getattr(sys.modules[m], "__file__", "").startswith(os.path.abspath(repo)):
            del sys.modules[m]
    dd = importlib.import_module("src.linters.magic_numbers.definition_detector")
    names = {"src/status_codes.py": True, "src/app_constants.py": True, "constants.py": True, "pkg/Constants.py": True,
             "src/codes.py": False, "src/constants_util.py": False, "src/my_codes.pyc": False, "src/app.py": False,
             "src/error_codes.py": True}
    bad_name, bad_content, n = [], [], 0
    for name, want in names.items():
        for path in (pathlib.PurePosixPath(name), None):
            n += 1
            got = dd.is_definition_file(path, "x = 1\n")
            exp = want and path is not None
            if got != exp and len(bad_name) < 4:
                bad_name.append({"file": str(path), "documented": exp, "code": got})
    for k in range(0, 13):                 # UPPERCASE numeric constants at module level
        for decoys in (0, 12):             # lower-case names / non-numeric values never count
            for m in range(0, 8):          # integer keys in one dict display
                for nested in (False, True):
                    lines = [f"CONST_{i} = {100 + i}" for i in range(k)]
                    lines += [f"lower_{i} = {i}" for i in range(decoys)] + [f"TEXT_{i} = 'v{i}'" for i in range(decoys)]
                    d = "{" + ", ".join([f"{200 + i}: 'n{i}'" for i in range(m)] + ["'k': 0"]) + "}"
                    lines.append(f"def f():\n    return {d}" if nested else f"table = {d}")
                    text = "\n".join(lines) + "\n"
                    n += 1
                    exp = k >= 10 or m >= 5
                    got = dd.is_definition_file(pathlib.PurePosixPath("src/app.py"), text)
                    if got != exp and len(bad_content) < 4:
                        bad_content.append({"uppercase_numeric_constants": k, "dict_int_keys": m, "dict_nested_in_function": nested,
                                            "documented": exp, "code": got})
    n += 1
    if dd.is_definition_file(pathlib.PurePosixPath("src/app.py"), "def broken(:\n" + "\n".join(f"A_{i} = {i}" for i in range(20))):
        bad_content.append({"content": "20 constants but a syntax error", "documented": False, "code": True})
    return [{"name": f"bounded:is_definition_file/{k}-as-documented", "kind": "bounded", "verdict": "refuted" if v else "passed",
             "tool": "exhaustive enumeration (native differential against the documented rule)",
             "budget": "9 file names x {path, None}; 13 x 2 x 8 x 2 generated module texts", "cases": n, "witness": v,
             "witness_confirmed": bool(v), "note": (f"first deviation: {v[0]}" if v else f"holds on all cases ({n} in total)")}
            for k, v in (("file-name-patterns", bad_name), ("content-thresholds", bad_content))]


# =================================================================== BOUNDED nets at the observation points
@custom("c02-violation-message", props=["C02", "C12"])
def violation_message_bounded(ctx):
    """The three builders on a grid of values (1..13 digit ints, negatives, floats with many digits): the message quotes
    str(value) -- the number as the analyzers hand it over -- and line / rule id / path are copied. (The same clause is a
    proved post-condition of the three create_*_violation contracts; this native run also covers a body that leaves the
    executable subset, e.g. a format spec.)"""
    import ast as _a
    import importlib
    import os
    import pathlib
    import sys
    repo = ctx.get("repo") or os.environ.get("VERIF_REPO", "/repo")
    if repo not in sys.path:
        sys.path.insert(0, repo)
    for m in [k for k in sys.modules if k == "src" or k.startswith("src.")]:
        if not getattr(sys.modules[m], "__file__", "").startswith(os.path.abspath(repo)):
            del sys.modules[m]
    vb = importlib.import_module("src.linters.magic_numbers.violation_builder").ViolationBuilder("magic-numbers.numeric-literal")
    values = [7, 42, 3600, 65535, 123456, 1234567, 16777215, 16777216, 86400000, 4294967296, 1234567890123, -7, -1234567,
              3.14159, 3.14159265, 0.1, 2.5e-3, 1000.0, 1e21, 6.02214076e23]
    node = _a.parse("x = 1").body[0].value
    bad, n = {"python": [], "typescript": [], "rust": []}, 0
    for v in values:
        for line in (1, 17):
            for fp in (pathlib.PurePosixPath("src/a.ts"), None):
                for lang, make in (("python", lambda: vb.create_violation(node, v, line, fp)),
                                   ("typescript", lambda: vb.create_typescript_violation(v, line, fp)),
                                   ("rust", lambda: vb.create_rust_violation(v, line, fp))):
                    n += 1
                    try:
                        r = make()
                        ok = (r.message == f"Magic number {v} should be a named constant" and r.line == line
                              and r.rule_id == "magic-numbers.numeric-literal" and r.file_path == (str(fp) if fp else ""))
                        got = {"message": r.message, "line": r.line, "file_path": r.file_path}
                    except BaseException as e:  # noqa
                        ok, got = False, repr(e)[:200]
                    if not ok and len(bad[lang]) < 3:
                        bad[lang].append({"value": v, "line": line, "file_path": str(fp), "code": got})
    return [{"name": f"bounded:ViolationBuilder.create_{'' if k == 'python' else k + '_'}violation/message-quotes-the-value", "kind": "bounded",
             "verdict": "refuted" if v else "passed", "tool": "exhaustive enumeration", "budget": "20 values x 2 lines x 2 paths",
             "cases": n // 3, "witness": v, "witness_confirmed": bool(v),
             "note": (f"first deviation: {v[0]}" if v else "message == 'Magic number <str(value)> should be a named constant', "
                      "line / rule id / path copied, on every case")} for k, v in bad.items()]


@custom("c02-observation-differential", props=["C02", "C12"])
def observation_differential_bounded(ctx):
    """Generic net under the contracts, at the property's observation point (MagicNumberRule._check_python /
    _check_typescript / _check_rust on whole source texts): generated programs, one statement per line, with literals in
    plain expression positions and in each documented exempt position, spelled as decimal / hex / underscore-separated /
    suffixed literals; random allowed_numbers and max_small_integer. ORACLE FROM THE PROPERTY TEXT ONLY: exactly one
    violation per literal that is not allowed and not in an exempt position, on the literal's line, quoting its value;
    nothing for booleans, strings, identifiers. Labelled bounded; seeded by ctx['seed']."""
    import importlib
    import os
    import pathlib
    import random
    import sys
    import types as _t
    repo = ctx.get("repo") or os.environ.get("VERIF_REPO", "/repo")
    if repo not in sys.path:
        sys.path.insert(0, repo)
    for m in [k for k in sys.modules if k == "src" or k.startswith("src.")]:
        if not getattr(sys.modules[m], "__file__", "").startswith(os.path.abspath(repo)):
            del sys.modules[m]
    rule = importlib.import_module("src.linters.magic_numbers.linter").MagicNumberRule()
    cfg_cls = importlib.import_module("src.linters.magic_numbers.config").MagicNumberConfig
    rng = random.Random(1000 + int(ctx.get("seed", 0) or 0))
    rounds = 60 if ctx.get("tier", "quick") == "quick" else 400
    POOL = [0, 1, 2, 3, 5, 7, 9, 10, 12, 15, 30, 42, 100, 255, 1000, 3600, 65535, 1234567, 16777216]

    def spell(v, lang):
        forms = [str(v)]
        if v >= 1000:
            forms.append(f"{v:_}")
        forms.append(hex(v))
        if lang == "rust":
            forms += [f"{v}u32", f"{v}_usize", f"0x{v:x}_u64"]
        if lang == "typescript" and v >= 10:
            forms.append("0X" + format(v, "X"))
        return rng.choice(forms)

    def gen(lang):
        """-> (file name, lines, expected [(line, value)] before the allowed filter, is_test_file)"""
        lines, lits = [], []          # lits: (line, value, exempt) -- exempt True / False / "small" (iff 0 <= v <= max_small)

        def add(text, found=()):
            lines.append(text)
            for v, exempt in found:
                lits.append((len(lines), v, exempt))
        n = rng.randrange(3, 9)
        if lang == "python":
            add("import os")
            for i in range(n):
                v, w = rng.choice(POOL), rng.choice(POOL)
                k = rng.randrange(10)
                if k == 0:
                    add(f"x{i} = compute({spell(v, lang)})", [(v, False)])
                elif k == 1:
                    add(f"y{i} = [{spell(v, lang)}, {spell(w, lang)}]", [(v, False), (w, False)])
                elif k == 2:
                    add(f"MAX_VALUE_{i} = {spell(v, lang)}", [(v, True)])
                elif k == 3:
                    add(f"for i{i} in range({v}): pass", [(v, "small")])
                elif k == 4:
                    add(f"for j{i}, e{i} in enumerate(items, {v}): pass", [(v, "small")])
                elif k == 5:
                    add(f"sep{i} = '-' * {v}", [(v, True)])
                elif k == 6:
                    add(f"flag{i} = True; name{i} = 'v{v}'; other{i} = x{v}")
                elif k == 7:
                    add(f"def f{i}(a={spell(v, lang)}): return a + {spell(w, lang)}", [(v, False), (w, False)])
                elif k == 8:
                    add(f"if value{i} > {spell(v, lang)}: pass", [(v, False)])
                else:
                    add(f"t{i} = timeout * {spell(v, lang)}", [(v, False)])
            name = rng.choice(["src/app.py", "src/app.py", "tests/test_app.py", "pkg/util_test.py"])
            is_test = pathlib.PurePosixPath(name).name.startswith("test_") or "_test.py" in name
        elif lang == "typescript":
            for i in range(n):
                v, w = rng.choice(POOL), rng.choice(POOL)
                k = rng.randrange(7)
                if k == 0:
                    add(f"let r{i} = compute({spell(v, lang)}) + {spell(w, lang)};", [(v, False), (w, False)])
                elif k == 1:
                    add(f"const MAX_VALUE_{i} = {spell(v, lang)};", [(v, True)])
                elif k == 2:
                    add(f"enum E{i} {{ A = {spell(v, lang)} }}", [(v, True)])
                elif k == 3:
                    add(f"const name{i} = 'v{v}'; const flag{i} = true;")
                elif k == 4:
                    add(f"if (value{i} > {spell(v, lang)}) {{ run(); }}", [(v, False)])
                elif k == 5:
                    add(f"function f{i}(a = {spell(v, lang)}) {{ return a; }}", [(v, False)])
                else:
                    add(f"items{i}.push({spell(v, lang)}, {spell(w, lang)});", [(v, False), (w, False)])
            name = rng.choice(["src/app.ts", "src/app.ts", "src/app.test.ts", "src/lib.js"])
            is_test = any(mk_ in name for mk_ in (".test.", ".spec.", "test_", "_test.", "/tests/", "/test/"))
        else:
            add("fn helper(x: u64) -> u64 {")
            for i in range(n):
                v, w = rng.choice(POOL), rng.choice(POOL)
                k = rng.randrange(4)
                if k == 0:
                    add(f"    let a{i} = x + {spell(v, lang)};", [(v, False)])
                elif k == 1:
                    add(f"    let s{i} = \"v{v}\"; let b{i} = true;")
                elif k == 2:
                    add(f"    if x > {spell(v, lang)} {{ run({spell(w, lang)}); }}", [(v, False), (w, False)])
                else:
                    add(f"    let t{i} = [{spell(v, lang)}, {spell(w, lang)}];", [(v, False), (w, False)])
            add("    x")
            add("}")
            v = rng.choice(POOL)
            add(f"const MAX_SIZE: u64 = {spell(v, lang)};", [(v, True)])
            v = rng.choice(POOL)
            add(f"static TIMEOUT: u64 = {spell(v, lang)};", [(v, True)])
            add("#[cfg(test)]")
            add("mod tests {")
            v = rng.choice(POOL)
            add(f"    fn t() -> u64 {{ {spell(v, lang)} }}", [(v, True)])
            add("}")
            name, is_test = "src/lib.rs", False
        return name, lines, lits, is_test

    def expect(lits, is_test, allowed, small):
        return sorted(((ln, v) for ln, v, exempt in lits
                       if v not in allowed and not (0 <= v <= small if exempt == "small" else exempt) and not is_test), key=repr)

    def reported(violations):
        got = []
        for r in violations:
            mt = _re.fullmatch(r"Magic number (\S+) should be a named constant", r.message)
            got.append((r.line, int(mt.group(1)) if mt and _re.fullmatch(r"-?\d+", mt.group(1)) else r.message))
        return sorted(got, key=repr)

    import re as _re
    bad = {"python": [], "typescript": [], "rust": []}
    cases = {"python": 0, "typescript": 0, "rust": 0}
    for _ in range(rounds):
        for lang, check in (("python", rule._check_python), ("typescript", rule._check_typescript), ("rust", rule._check_rust)):
            name, lines, lits, is_test = gen(lang)
            small = rng.choice([1, 3, 10])
            allowed = set(rng.sample(POOL, rng.randrange(0, 8)))
            config = cfg_cls(allowed_numbers=set(allowed), max_small_integer=small)
            context = _t.SimpleNamespace(file_path=pathlib.Path(name), file_content="\n".join(lines) + "\n", language=lang)
            expected = expect(lits, is_test, allowed, small)
            try:
                got = reported(check(context, config))
            except BaseException as e:  # noqa
                got = repr(e)[:200]
            cases[lang] += 1
            if got != expected and len(bad[lang]) < 2:
                bad[lang].append({"file": name, "source": lines, "allowed_numbers": sorted(allowed), "max_small_integer": small,
                                  "expected_(line,value)": expected, "reported_(line,value)": got})
    # ---- whole runs: ONE orchestrator (one long-lived rule object, one shared configuration section) lints a set of
    # files of different languages under per-language sections, in one order and then -- same object -- in the reverse
    # order, and a fresh orchestrator starts with the reverse order: every file is judged by ITS language's settings,
    # whenever and in whatever order it is linted (property: "all configurations"; no state survives between files)
    import shutil
    import tempfile
    orch_mod = importlib.import_module("src.orchestrator.core")
    RID = "magic-numbers.numeric-literal"
    bad_run, runs = [], 0
    for _ in range(max(6, rounds // 10)):
        tmp = pathlib.Path(tempfile.mkdtemp(prefix="c02obs_"))
        try:
            (tmp / "src").mkdir()
            section = {"allowed_numbers": sorted(rng.sample(POOL, rng.randrange(0, 6))), "max_small_integer": rng.choice([1, 3, 10])}
            for lang in ("python", "typescript", "rust"):
                if rng.random() < 0.8:
                    sub = {}
                    if rng.random() < 0.85:
                        sub["allowed_numbers"] = sorted(rng.sample(POOL, rng.randrange(0, 6)))
                    if rng.random() < 0.5:
                        sub["max_small_integer"] = rng.choice([1, 3, 10])
                    section[lang] = sub
            files = []
            for lang, ext in (("python", "py"), ("typescript", "ts"), ("rust", "rs"), ("python", "py")):
                _, lines, lits, _ = gen(lang)
                path = tmp / "src" / f"mod{len(files)}.{ext}"
                path.write_text("\n".join(lines) + "\n")
                files.append((path, lang, lines, expect(lits, False, set(chosen_allowed(section, lang)), chosen_max_small(section, lang))))
            rng.shuffle(files)

            def run(orch, order, label):
                got_all = [v for v in orch.lint_files([f[0] for f in order]) if v.rule_id == RID]
                for path, lang, lines, want in order:
                    got = reported([v for v in got_all if pathlib.Path(v.file_path).name == path.name])
                    if got != want and len(bad_run) < 2:
                        bad_run.append({"scenario": label, "order": [f[0].name for f in order], "file": path.name, "language": lang,
                                        "magic-numbers section": section, "source": lines, "expected_(line,value)": want,
                                        "reported_(line,value)": got})
            orch = orch_mod.Orchestrator(project_root=tmp, config={"magic-numbers": section})
            run(orch, files, "first run")
            run(orch, list(reversed(files)), "same orchestrator, second run, reverse order")
            run(orch_mod.Orchestrator(project_root=tmp, config={"magic-numbers": section}), list(reversed(files)),
                "fresh orchestrator, reverse order")
            runs += 3
        except BaseException as e:  # noqa
            if len(bad_run) < 2:
                bad_run.append({"scenario": "orchestrator run raised", "error": repr(e)[:300]})
        finally:
            shutil.rmtree(tmp, ignore_errors=True)
    multi = [{"name": "bounded:Orchestrator.lint_files/each-file-judged-by-its-languages-settings-in-any-order", "kind": "bounded",
              "verdict": "refuted" if bad_run else "passed", "tool": "generated multi-language runs (differential against the property text)",
              "budget": f"{runs} runs of 4 files (py/ts/rs/py) under per-language sections, seed {ctx.get('seed', 0)}", "cases": runs,
              "witness": bad_run, "witness_confirmed": bool(bad_run),
              "note": (f"first deviation: {str(bad_run[0])[:700]}" if bad_run else
                       "every file reported exactly as its language's settings demand, in both orders, on a reused and on a fresh "
                       "orchestrator")}]
    return multi + [{"name": f"bounded:MagicNumberRule._check_{k}/exactly-the-non-allowed-non-exempt-literals", "kind": "bounded",
             "verdict": "refuted" if v else "passed", "tool": "generated programs (differential against the property text)",
             "budget": f"{cases[k]} generated {k} files, seed {ctx.get('seed', 0)}", "cases": cases[k], "witness": v,
             "witness_confirmed": bool(v),
             "note": (f"first deviation: {str(v[0])[:600]}" if v else "one violation per non-allowed, non-exempt literal, on its line, "
                      "quoting its value; nothing else")} for k, v in bad.items()]


# =================================================================== dependency cone: contracts of other files that C02 runs through
# (read-only reuse: the property id is added at load time, the contracts themselves stay with their owners; a file that
# fails to import only loses the extension, never this property's own units)
def _extend_props():
    import importlib
    from pyvc import api as _api
    for mod in ("contracts.c15_language", "contracts.c05_config", "contracts.c01_ts_base", "contracts.c17_rust_context",
                "contracts.c17_clone"):
        try:
            importlib.import_module(mod)
        except BaseException:  # noqa
            pass
    cone = [
        # language dispatch: which _check_<language> runs, with the configuration _load_config chose
        "src/core/base.py::MultiLanguageLintRule.check", "src/core/base.py::MultiLanguageLintRule._dispatch_by_language",
        # generic section loader used (inlined) by MagicNumberRule._try_load_production_config
        "src/core/linter_utils.py::load_linter_config", "src/core/linter_utils.py::get_metadata",
        "src/core/linter_utils.py::get_language",
        # node text of TS/JS and Rust literal / identifier nodes
        "src/analyzers/typescript_base.py::TypeScriptBaseAnalyzer.extract_node_text",
        "src/analyzers/typescript_base.py::TypeScriptBaseAnalyzer.parse_typescript",
        "src/analyzers/rust_base.py::RustBaseAnalyzer.extract_node_text", "src/analyzers/rust_base.py::RustBaseAnalyzer.parse_rust",
        "src/analyzers/rust_base.py::RustBaseAnalyzer.is_inside_test",
        # Rust test-code exemption
        "src/analyzers/rust_context.py::is_inside_test", "src/analyzers/rust_context.py::_is_test_context",
        "src/analyzers/rust_context.py::has_test_attribute", "src/analyzers/rust_context.py::has_cfg_test_attribute",
        "src/analyzers/rust_context.py::_get_node_text",
    ]
    for t in cone:
        c = _api.REGISTRY.get(t)
        if c is not None and "C02" not in c.props:
            c.props.append("C02")
    # state hygiene C02 relies on ("whatever was linted before"): check() / _load_config of a registered rule write no field
    # of the long-lived rule object (c08-check-frames, agent-c08), and the configuration path from the orchestrator's
    # section to the rule keeps no state (c05-config-path-stateless)
    for mod in ("contracts.c08_frames", "contracts.c05_keys"):
        try:
            importlib.import_module(mod)
        except BaseException:  # noqa
            pass
    for name in ("c08-check-frames", "c05-config-path-stateless"):
        entry = getattr(_api, "CUSTOM", {}).get(name)
        if entry is not None and "C02" not in entry[0]:
            entry[0].append("C02")


_extend_props()
