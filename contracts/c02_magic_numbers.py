"""C02 -- magic numbers: exactly the non-allowed numeric literals outside the documented exemptions
(src/linters/magic_numbers/*).

Top-level spec (property text + docs/magic-numbers-linter.md "Acceptable Contexts"):
    flag(literal)  <=>  value(literal) not in allowed_numbers  and  not exempt(literal)
exempt (Python)  = UPPERCASE constant definition | small int (0..max_small_integer) directly inside range()/enumerate()
                   | string repetition ("-" * 40) | test file (test_*.py, *_test.py)
exempt (TS/JS)   = UPPERCASE constant definition | enum member | test file (*.test.*, *.spec.*, ...)
exempt (Rust)    = inside const_item / static_item | test code (#[test], #[cfg(test)])
Every numeric literal is collected exactly once, on its own line; booleans/strings/identifiers never.

Numeric values: ints are modelled exactly (Python `True == 1` included: a dynamic value is I(int) or B(bool));
floats are NOT modelled (a float constant has no SMT form), so every clause below is a statement about
integer-valued literals. Literal text -> value (hex / underscore / suffix parsing) is checked by the
bounded stand-in `c02-literal-parsing` at the end of this file, not by the solvers."""
import ast

from pyvc.api import (contract, lemma, custom, Any, Int, Bool, Str, Dict, Opt, SeqOf, TupleOf, Rec, Opaque, implies, call,
                      mk, ih, opaque, reveal, uf)
from contracts._nodes import PyNode, TSNode, ts_depth
from contracts._common import ViolationT, PathT, path_str, path_name

CA = "src/linters/magic_numbers/context_analyzer.py::"
LI = "src/linters/magic_numbers/linter.py::"
PA = "src/linters/magic_numbers/python_analyzer.py::"
TA = "src/linters/magic_numbers/typescript_analyzer.py::"
RA = "src/linters/magic_numbers/rust_analyzer.py::"
CF = "src/linters/magic_numbers/config.py::"
VB = "src/linters/magic_numbers/violation_builder.py::"

OptPath = Opt(PathT)


# =================================================================== Python: acceptable contexts (context_analyzer.py)
def is_int_value(v):
    """The literal's value is an integer (Python: bool is a subclass of int, so True/False qualify)."""
    return isinstance(v, int)


def py_test_file(file_path):
    """docs: test files are `test_*.py`, `*_test.py` (judged on the file NAME)."""
    return file_path is not None and (path_name(file_path).startswith("test_") or "_test.py" in path_name(file_path))


def is_constant_name(name):
    """docs: UPPERCASE name (at least two characters: `X = 5` is not treated as a constant definition)."""
    return name.isupper() and len(name) > 1


def is_assign(parent):
    return parent is not None and isinstance(parent, ast.Assign)


def has_constant_target(parent):
    return any(isinstance(target, ast.Name) and is_constant_name(target.id) for target in parent.targets)


def py_constant_definition(parent):
    """docs: `MAX_SIZE = 100` -- the literal is the direct value of an assignment to an UPPERCASE name."""
    return is_assign(parent) and has_constant_target(parent)


def call_of(parent, fname):
    return isinstance(parent, ast.Call) and isinstance(parent.func, ast.Name) and parent.func.id == fname


def small_int(v, max_small):
    """0 <= v <= max_small_integer (both bounds inclusive)."""
    return isinstance(v, int) and 0 <= v and v <= max_small


def is_string_constant(n):
    return isinstance(n, ast.Constant) and isinstance(n.value, str)


def string_repetition(v, parent):
    return (isinstance(v, int) and isinstance(parent, ast.BinOp) and isinstance(parent.op, ast.Mult)
            and (is_string_constant(parent.left) or is_string_constant(parent.right)))


def py_exempt(v, parent, file_path, max_small):
    """The documented exempt positions of a Python literal with value v whose parent node is `parent`.
    NOTE: no allowed_numbers argument -- the exemption does not depend on the allowed list (frame condition used
    by the delta lemma)."""
    return (py_test_file(file_path) or py_constant_definition(parent)
            or (small_int(v, max_small) and call_of(parent, "range"))
            or (small_int(v, max_small) and call_of(parent, "enumerate"))
            or string_repetition(v, parent))


def max_small_of(config):
    return config.get("max_small_integer", 10)


@contract(CA + "is_test_file", props=["C02"], types=dict(file_path=OptPath), returns=Bool)
class IsTestFile:
    def value(file_path):
        return py_test_file(file_path)


@contract(CA + "_is_assignment_node", props=["C02"], types=dict(parent=PyNode), returns=Bool)
class IsAssignmentNode:
    def value(parent):
        return is_assign(parent)


@contract(CA + "_is_constant_name", props=["C02"], types=dict(name=Str), returns=Bool)
class IsConstantName:
    def value(name):
        return is_constant_name(name)


@contract(CA + "_has_constant_target", props=["C02"], types=dict(parent=PyNode), returns=Bool)
class HasConstantTarget:
    def requires(parent):
        return parent is not None

    def value(parent):
        return has_constant_target(parent)


@contract(CA + "is_constant_definition", props=["C02"], types=dict(node=PyNode, parent=PyNode), returns=Bool)
class IsConstantDefinition:
    def value(node, parent):
        return py_constant_definition(parent)


@contract(CA + "_is_in_range_call", props=["C02"], types=dict(parent=PyNode), returns=Bool)
class IsInRangeCall:
    def value(parent):
        return call_of(parent, "range")


@contract(CA + "_is_in_enumerate_call", props=["C02"], types=dict(parent=PyNode), returns=Bool)
class IsInEnumerateCall:
    def value(parent):
        return call_of(parent, "enumerate")


def max_small_ok(config):
    """Shape of the config dict handed to the context functions: max_small_integer (if present) is an int."""
    return isinstance(config.get("max_small_integer", 10), int)


@contract(CA + "is_small_integer_in_range", props=["C02"], types=dict(node=PyNode, parent=PyNode, config=Dict),
          returns=Bool)
class IsSmallIntegerInRange:
    def requires(node, parent, config):
        return isinstance(node, ast.Constant) and max_small_ok(config)

    def value(node, parent, config):
        return small_int(node.value, max_small_of(config)) and call_of(parent, "range")

    def ensures_bound_is_inclusive_0_to_max(node, parent, config, result):
        # property text / docs: "small integer inside range()": 0 <= v <= max_small_integer, directly inside range(...)
        return implies(isinstance(node.value, int) and not isinstance(node.value, bool),
                       result == (0 <= node.value and node.value <= max_small_of(config) and call_of(parent, "range")))


@contract(CA + "is_small_integer_in_enumerate", props=["C02"], types=dict(node=PyNode, parent=PyNode, config=Dict),
          returns=Bool)
class IsSmallIntegerInEnumerate:
    def requires(node, parent, config):
        return isinstance(node, ast.Constant) and max_small_ok(config)

    def value(node, parent, config):
        return small_int(node.value, max_small_of(config)) and call_of(parent, "enumerate")

    def ensures_bound_is_inclusive_0_to_max(node, parent, config, result):
        return implies(isinstance(node.value, int) and not isinstance(node.value, bool),
                       result == (0 <= node.value and node.value <= max_small_of(config) and call_of(parent, "enumerate")))


@contract(CA + "_is_string_constant", props=["C02"], types=dict(node=PyNode), returns=Bool)
class IsStringConstant:
    def value(node):
        return is_string_constant(node)


@contract(CA + "_has_string_operand", props=["C02"], types=dict(binop=PyNode), returns=Bool)
class HasStringOperand:
    def requires(binop):
        return binop is not None

    def value(binop):
        return is_string_constant(binop.left) or is_string_constant(binop.right)


@contract(CA + "is_string_repetition", props=["C02"], types=dict(node=PyNode, parent=PyNode), returns=Bool)
class IsStringRepetition:
    def requires(node, parent):
        return isinstance(node, ast.Constant)

    def value(node, parent):
        return string_repetition(node.value, parent)


@contract(CA + "_is_acceptable_usage_pattern", props=["C02"], types=dict(node=PyNode, parent=PyNode, config=Dict),
          returns=Bool)
class IsAcceptableUsagePattern:
    def requires(node, parent, config):
        return isinstance(node, ast.Constant) and max_small_ok(config)

    def value(node, parent, config):
        return ((small_int(node.value, max_small_of(config)) and call_of(parent, "range"))
                or (small_int(node.value, max_small_of(config)) and call_of(parent, "enumerate"))
                or string_repetition(node.value, parent))


@contract(CA + "is_acceptable_context", props=["C02"],
          types=dict(node=PyNode, parent=PyNode, file_path=OptPath, config=Dict), returns=Bool)
class IsAcceptableContext:
    def requires(node, parent, file_path, config):
        return isinstance(node, ast.Constant) and max_small_ok(config)

    def ensures_exactly_the_documented_exemptions(node, parent, file_path, config, result):
        # docs "Acceptable Contexts": constant definitions, small range()/enumerate(), test files, string repetition
        return result == py_exempt(node.value, parent, file_path, max_small_of(config))


# =================================================================== configuration (config.py)
from pyvc.api import same_members, is_int_list  # noqa: E402

# allowed_numbers is a SET of numbers; the code under contract only ever tests membership, so it is viewed as a
# sequence of ints (floats are not modelled).
ConfigT = Rec("MagicNumberConfig", cls=CF + "MagicNumberConfig", pycls="src.linters.magic_numbers.config:MagicNumberConfig",
              enabled=Bool, allowed_numbers=SeqOf(Int), max_small_integer=Int, ignore=SeqOf(Str),
              exempt_definition_files=Bool)

# the code's default set (config.DEFAULT_ALLOWED_NUMBERS); docs list only the first ten values
DEFAULT_ALLOWED = (-1, 0, 1, 2, 3, 4, 5, 10, 100, 1000, 21, 22, 80, 443, 3000, 5000, 8080, 8443)


@contract(CF + "MagicNumberConfig.__post_init__", props=["C02", "C05"], types=dict(self=ConfigT), raises=["ValueError"])
class ConfigPostInit:
    def raises_when(self):
        # property/DESIGN: max_small_integer <= 0 is rejected
        return self.max_small_integer <= 0


def has_lang(config, language):
    return language is not None and len(language) > 0 and language in config


def wf_section(d):
    """Shape of a (top-level or language) section: allowed_numbers a list of ints, max_small_integer an int."""
    return (implies("allowed_numbers" in d, is_int_list(d["allowed_numbers"]))
            and implies("max_small_integer" in d, isinstance(d["max_small_integer"], int)))


def wf_config(config, language):
    return (wf_section(config)
            and implies(has_lang(config, language), isinstance(config[language], dict) and wf_section(config[language]))
            and implies("enabled" in config, isinstance(config["enabled"], bool))
            and implies("exempt_definition_files" in config, isinstance(config["exempt_definition_files"], bool)))


def top_allowed(config):
    return config["allowed_numbers"] if "allowed_numbers" in config else DEFAULT_ALLOWED


def chosen_allowed(config, language):
    """Precedence: <language>.allowed_numbers, then top-level allowed_numbers, then the default set."""
    if has_lang(config, language) and "allowed_numbers" in config[language]:
        return config[language]["allowed_numbers"]
    return top_allowed(config)


def top_max_small(config):
    return config["max_small_integer"] if "max_small_integer" in config else 10


def chosen_max_small(config, language):
    """Precedence: <language>.max_small_integer, then top-level max_small_integer, then 10."""
    if has_lang(config, language) and "max_small_integer" in config[language]:
        return config[language]["max_small_integer"]
    return top_max_small(config)


@contract(CF + "MagicNumberConfig.from_dict", props=["C02", "C05"], types=dict(config=Dict, language=Opt(Str)),
          returns=ConfigT, raises=["ValueError"])
class ConfigFromDict:
    def requires(config, language):
        return wf_config(config, language)

    def raises_when(config, language):
        return chosen_max_small(config, language) <= 0

    def ensures_allowed_numbers_language_override_wins(config, language, result):
        return same_members(result.allowed_numbers, chosen_allowed(config, language))

    def ensures_max_small_integer_language_override_wins(config, language, result):
        return result.max_small_integer == chosen_max_small(config, language) and result.max_small_integer > 0


# =================================================================== violations (violation_builder.py)
BuilderT = Rec("ViolationBuilder", cls=VB + "ViolationBuilder", rule_id=Str)


def magic_message(value):
    """docs / property: the violation names the literal's value."""
    return f"Magic number {value} should be a named constant"


def fp_text(file_path):
    return path_str(file_path) if file_path is not None else ""


def magic_violation(rule_id, file_path, line, column, value, suggestion):
    return mk(ViolationT, rule_id=rule_id, file_path=fp_text(file_path), line=line, column=column,
              message=magic_message(value), severity="error", suggestion=suggestion)


def py_suggestion(value):
    return f"Extract {value} to a named constant (e.g., CONSTANT_NAME = {value})"


def ts_suggestion(value):
    return f"Extract {value} to a named constant (e.g., const CONSTANT_NAME = {value})"


def rust_suggestion(value):
    return f"Extract {value} to a named constant (e.g., const CONSTANT_NAME: i32 = {value})"


@contract(VB + "ViolationBuilder.create_violation", props=["C02"],
          types=dict(self=BuilderT, node=PyNode, value=Any, line=Int, file_path=OptPath), returns=ViolationT)
class CreateViolation:
    def requires(self, node, value, line, file_path):
        return isinstance(node, ast.Constant)

    def value(self, node, value, line, file_path):
        return magic_violation(self.rule_id, file_path, line, node.col_offset, value, py_suggestion(value))

    def ensures_on_the_literals_line_naming_its_value(self, node, value, line, file_path, result):
        return result.line == line and result.message == magic_message(value) and result.rule_id == self.rule_id


@contract(VB + "ViolationBuilder.create_typescript_violation", props=["C02"],
          types=dict(self=BuilderT, value=Int, line=Int, file_path=OptPath), returns=ViolationT)
class CreateTypescriptViolation:
    def value(self, value, line, file_path):
        return magic_violation(self.rule_id, file_path, line, 0, value, ts_suggestion(value))

    def ensures_on_the_literals_line_naming_its_value(self, value, line, file_path, result):
        return result.line == line and result.message == magic_message(value) and result.rule_id == self.rule_id


@contract(VB + "ViolationBuilder.create_rust_violation", props=["C02"],
          types=dict(self=BuilderT, value=Int, line=Int, file_path=OptPath), returns=ViolationT)
class CreateRustViolation:
    def value(self, value, line, file_path):
        return magic_violation(self.rule_id, file_path, line, 0, value, rust_suggestion(value))

    def ensures_on_the_literals_line_naming_its_value(self, value, line, file_path, result):
        return result.line == line and result.message == magic_message(value) and result.rule_id == self.rule_id


# =================================================================== the rule (linter.py): Python path
IgnoreParserT = Opaque("IgnoreDirectiveParser")
TSIgnoreT = Opaque("TypeScriptIgnoreChecker")
RuleT = Rec("MagicNumberRule", cls=LI + "MagicNumberRule", _violation_builder=BuilderT, _ignore_parser=IgnoreParserT,
            _typescript_ignore_checker=TSIgnoreT)
CtxT = Rec("LintContext", file_path=OptPath, file_content=Opt(Str), language=Str)
PyLitT = TupleOf(PyNode, PyNode, Any, Int)  # (node, parent, value, line) as produced by PythonMagicNumberAnalyzer

RULE_ID = "magic-numbers.numeric-literal"

# inline suppression directives (# thailint: ignore, # noqa, ...) are property C04's subject: here they are an
# uninterpreted predicate of the violation's (rule id, line) and the file content
inline_ignored = uf("c02_inline_ignored", [Str, Int, Opt(Str)], Bool)
ts_inline_ignored = uf("c02_ts_inline_ignored", [Str, Int, Opt(Str)], Bool)


def in_allowed(value, allowed):
    """value in allowed_numbers (Python equality on numbers: True == 1)."""
    return value in allowed


def py_flag(value, parent, file_path, allowed, max_small):
    """TOP-LEVEL SPEC (Python): flagged  <=>  value not allowed  and  not in a documented exempt position."""
    return (not in_allowed(value, allowed)) and not py_exempt(value, parent, file_path, max_small)


@contract(LI + "MagicNumberRule.rule_id", props=["C02"], types=dict(self=RuleT), returns=Str)
class RuleId:
    def value(self):
        return RULE_ID


@contract(LI + "MagicNumberRule._should_flag_number", props=["C02"],
          types=dict(self=RuleT, value=Any, node_info=TupleOf(PyNode, PyNode), config=ConfigT, context=CtxT), returns=Bool)
class ShouldFlagNumber:
    def requires(self, value, node_info, config, context):
        # (node, parent) with node the Constant whose value is `value`
        return isinstance(node_info[0], ast.Constant) and value == node_info[0].value

    def ensures_flag_iff_not_allowed_and_not_exempt(self, value, node_info, config, context, result):
        return result == py_flag(value, node_info[1], context.file_path, config.allowed_numbers, config.max_small_integer)


@contract(LI + "MagicNumberRule._should_ignore", props=["C02"], types=dict(self=RuleT, violation=ViolationT, context=CtxT),
          returns=Bool,
          assumed="inline suppression directives (ignore parser, # noqa): subject of property C04; for C02 an "
                  "uninterpreted predicate of (rule id, line, file content)")
class ShouldIgnore:
    def value(self, violation, context):
        return inline_ignored(violation.rule_id, violation.line, context.file_content)


@opaque
def py_reported(lit: PyLitT, file_path: OptPath, content: Opt(Str), allowed: SeqOf(Int), max_small: Int) -> Bool:
    """A collected literal (node, parent, value, line) is reported: flagged and not suppressed by a directive."""
    return py_flag(lit[2], lit[1], file_path, allowed, max_small) and not inline_ignored(RULE_ID, lit[3], content)


@opaque
def py_violation(lit: PyLitT, file_path: OptPath) -> ViolationT:
    return magic_violation(RULE_ID, file_path, lit[3], lit[0].col_offset, lit[2], py_suggestion(lit[2]))


def wf_rule(self):
    return self._violation_builder.rule_id == RULE_ID


@opaque
def wf_py_lit(lit: PyLitT) -> Bool:
    """A tuple as produced by the collector: node is a Constant and the recorded value is that node's value."""
    return isinstance(lit[0], ast.Constant) and lit[2] == lit[0].value


@contract(LI + "MagicNumberRule._try_create_violation", props=["C02"],
          types=dict(self=RuleT, literal_info=PyLitT, context=CtxT, config=ConfigT), returns=Opt(ViolationT))
class TryCreateViolation:
    def requires(self, literal_info, context, config):
        return wf_rule(self) and wf_py_lit(literal_info)

    def reveals(self, literal_info, context, config):
        return (reveal(wf_py_lit, literal_info) and reveal(py_violation, literal_info, context.file_path)
                and reveal(py_reported, literal_info, context.file_path, context.file_content, config.allowed_numbers,
                           config.max_small_integer))

    def ensures_reported_iff_flagged_and_not_suppressed(self, literal_info, context, config, result):
        return (result is not None) == py_reported(literal_info, context.file_path, context.file_content,
                                                   config.allowed_numbers, config.max_small_integer)

    def ensures_violation_on_the_literals_line_naming_its_value(self, literal_info, context, config, result):
        return implies(result is not None, result == py_violation(literal_info, context.file_path)
                       and result.line == literal_info[3] and result.message == magic_message(literal_info[2])
                       and result.rule_id == RULE_ID)


def collect_py(lits: SeqOf(PyLitT), acc: SeqOf(ViolationT), file_path: OptPath, content: Opt(Str), allowed: SeqOf(Int),
               max_small: Int) -> SeqOf(ViolationT):
    """acc followed by one violation per reported literal of lits, in collection order (the fold performed by
    _collect_violations)."""
    if len(lits) == 0:
        return acc
    if py_reported(lits[0], file_path, content, allowed, max_small):
        return collect_py(lits[1:], acc + [py_violation(lits[0], file_path)], file_path, content, allowed, max_small)
    return collect_py(lits[1:], acc, file_path, content, allowed, max_small)


def all_wf_py(lits):
    return all(wf_py_lit(lit) for lit in lits)


@contract(LI + "MagicNumberRule._collect_violations", props=["C02"],
          types=dict(self=RuleT, numeric_literals=SeqOf(PyLitT), context=CtxT, config=ConfigT,
                     violations=SeqOf(ViolationT), violation=Opt(ViolationT), literal_info=PyLitT),
          returns=SeqOf(ViolationT))
class CollectViolations:
    def requires(self, numeric_literals, context, config):
        return wf_rule(self) and all_wf_py(numeric_literals)

    def ensures_one_violation_per_reported_literal(self, numeric_literals, context, config, result):
        return result == collect_py(numeric_literals, [], context.file_path, context.file_content, config.allowed_numbers,
                                    config.max_small_integer)

    def inv0(self, numeric_literals, context, config, violations, rest, old):
        return self == old.self and context == old.context and config == old.config and all_wf_py(rest) and \
            collect_py(numeric_literals, [], context.file_path, context.file_content, config.allowed_numbers,
                       config.max_small_integer) == \
            collect_py(rest, violations, context.file_path, context.file_content, config.allowed_numbers,
                       config.max_small_integer)


# ------------------------------------------------------------------ the delta lemma (property: "adding a value to
# allowed_numbers removes exactly the violations for literals of that value and removing it adds exactly those")
def with_allowed(config, allowed):
    return mk(ConfigT, enabled=config.enabled, allowed_numbers=allowed, max_small_integer=config.max_small_integer,
              ignore=config.ignore, exempt_definition_files=config.exempt_definition_files)


@lemma(props=["C02"], types=dict(rule=RuleT, value=Any, node=PyNode, parent=PyNode, config=ConfigT, context=CtxT, a=Int),
       name="python-allowed-numbers-delta")
def py_allowed_delta(rule, value, node, parent, config, context, a):
    """flag(A + {a}) == flag(A) and value != a, over the CONTRACT of _should_flag_number (integer-valued literals)."""
    if not (isinstance(node, ast.Constant) and value == node.value and isinstance(value, int)):
        return True
    f0 = call(LI + "MagicNumberRule._should_flag_number", rule, value, (node, parent), config, context)
    f1 = call(LI + "MagicNumberRule._should_flag_number", rule, value, (node, parent),
              with_allowed(config, config.allowed_numbers + [a]), context)
    return f1 == (f0 and not (value == a))


@lemma(props=["C02"], types=dict(node=PyNode, parent=PyNode, file_path=OptPath, max_small=Int, allowed1=SeqOf(Int),
                                 allowed2=SeqOf(Int)),
       name="python-acceptable-context-independent-of-allowed-numbers")
def py_context_frame(node, parent, file_path, max_small, allowed1, allowed2):
    """Frame: the verdict of is_acceptable_context does not depend on the allowed_numbers entry of its config dict."""
    if not isinstance(node, ast.Constant):
        return True
    r1 = call(CA + "is_acceptable_context", node, parent, file_path, {"max_small_integer": max_small, "allowed_numbers": allowed1})
    r2 = call(CA + "is_acceptable_context", node, parent, file_path, {"max_small_integer": max_small, "allowed_numbers": allowed2})
    return r1 == r2
