"""C03 (part 2) -- DRY linter: interval logic of the block-level and violation-level de-duplication.

src/linters/dry/deduplicator.py, violation_filter.py, block_grouper.py.

Top-level spec (property text): "the occurrence count in the message is the number of distinct, NON-OVERLAPPING places
where the block occurs" and "every occurrence is covered by a violation": of the blocks of one file that share a hash,
the ones kept are pairwise non-overlapping, every kept block is one of the input blocks, and every dropped block
overlaps (shares a line with) a kept one. The same holds for the violation-level filter with the RANGE
[line, line + line_count - 1] of each violation (since the fix of C03-violation-overlap-length: the kept violation is
measured with its OWN line count).
`sorted(xs, key=...)` is a trusted external contract of the engine: same length, same members, ordered by key."""
from pyvc.api import (contract, lemma, Int, Bool, Str, SeqOf, TupleOf, Opt, Rec, implies, call, ih, opaque, reveal, use,
                      is_sorted, sorted_member_fact, mk)
from contracts._common import ViolationT, PathT

D = "src/linters/dry/deduplicator.py::ViolationDeduplicator."
VFI = "src/linters/dry/violation_filter.py::ViolationFilter."

CodeBlockT = Rec("CodeBlock", cls="src/linters/dry/cache.py::CodeBlock", pycls="src.linters.dry.cache:CodeBlock",
                 file_path=PathT, start_line=Int, end_line=Int, snippet=Str, hash_value=Int)
Blocks = SeqOf(CodeBlockT)


# ------------------------------------------------------------------ two blocks
def ranges_intersect(a1, a2, b1, b2):
    """Some line lies in both [a1, a2] and [b1, b2]."""
    return (a1 if a1 > b1 else b1) <= (a2 if a2 < b2 else b2)


def overlap(a, b):
    return a.start_line <= b.end_line and b.start_line <= a.end_line


@contract(D + "_blocks_overlap", props=["C03"], types=dict(block1=CodeBlockT, block2=CodeBlockT), returns=Bool)
class BlocksOverlap:
    def value(block1, block2):
        return overlap(block1, block2)

    def ensures_iff_ranges_intersect(block1, block2, result):
        # property text: blocks overlap iff they share a line (for well-formed blocks: start <= end)
        return implies(block1.start_line <= block1.end_line and block2.start_line <= block2.end_line,
                       result == ranges_intersect(block1.start_line, block1.end_line, block2.start_line, block2.end_line))


@lemma(props=["C03"], types=dict(a=CodeBlockT, b=CodeBlockT), name="blocks-overlap-symmetric")
def blocks_overlap_symmetric(a, b):
    return call(D + "_blocks_overlap", None, a, b) == call(D + "_blocks_overlap", None, b, a)


@contract(D + "_overlaps_any_kept", props=["C03"], types=dict(block=CodeBlockT, kept_blocks=Blocks), returns=Bool)
class OverlapsAnyKept:
    def value(block, kept_blocks):
        return any(overlap(block, kept) for kept in kept_blocks)


# ------------------------------------------------------------------ one file: greedy selection over the sorted blocks
@opaque
def greedy(s: Blocks, kept: Blocks) -> Blocks:
    """Walk s in order; keep a block iff it overlaps none of the blocks kept so far."""
    if len(s) == 0:
        return kept
    if any(overlap(s[0], k) for k in kept):
        return greedy(s[1:], kept)
    return greedy(s[1:], kept + [s[0]])


@contract(D + "_remove_overlaps_from_file", props=["C03"],
          types=dict(file_blocks=Blocks, sorted_blocks=Blocks, kept_blocks=Blocks, block=CodeBlockT), returns=Blocks)
class RemoveOverlapsFromFile:
    def reveals(file_blocks):
        return reveal(greedy, sorted(file_blocks, key=lambda b: b.start_line), [])

    def value(file_blocks):
        return greedy(sorted(file_blocks, key=lambda b: b.start_line), [])

    def inv0(sorted_blocks, kept_blocks, rest):
        return reveal(greedy, rest, kept_blocks) and greedy(sorted_blocks, []) == greedy(rest, kept_blocks)


# ------------------------------------------------------------------ pure lemmas about the greedy selection
@lemma(props=["C03"], types=dict(l=Blocks, b=CodeBlockT), name="append-head-tail")
def append_head_tail(l, b):
    """Pure (sequences): head and tail of l + [b] for a non-empty l."""
    return implies(len(l) > 0, (l + [b])[0] == l[0] and (l + [b])[1:] == l[1:] + [b])


@lemma(props=["C03"], types=dict(s=Blocks, x=CodeBlockT), name="member-head-tail")
def member_head_tail(s, x):
    """Pure (sequences): membership in a non-empty list is head-or-tail membership."""
    return implies(len(s) > 0, (x in s) == (x == s[0] or x in s[1:]))


@lemma(props=["C03"], types=dict(l=Blocks, b=CodeBlockT, x=CodeBlockT), name="any-overlap-append")
def any_append(l, b, x):
    return (len(l) == 0 or (ih(any_append, l[1:], b, x) and use(append_head_tail, l, b))) and \
        any(overlap(x, k) for k in l + [b]) == (any(overlap(x, k) for k in l) or overlap(x, b))


@lemma(props=["C03"], types=dict(s=Blocks, kept=Blocks, x=CodeBlockT), name="greedy-keeps-only-input-blocks")
def greedy_members(s, kept, x):
    """Sub-list: whatever is returned was already kept or is one of the scanned blocks."""
    reveal(greedy, s, kept)
    return (len(s) == 0 or (ih(greedy_members, s[1:], kept, x) and ih(greedy_members, s[1:], kept + [s[0]], x))) and \
        implies(x in greedy(s, kept), x in kept or x in s)


@lemma(props=["C03"], types=dict(s=Blocks, kept=Blocks, x=CodeBlockT), name="greedy-never-forgets")
def greedy_extends(s, kept, x):
    """What is kept stays kept, and what overlaps a kept block still overlaps a block of the final selection."""
    reveal(greedy, s, kept)
    return (len(s) == 0 or (ih(greedy_extends, s[1:], kept, x) and ih(greedy_extends, s[1:], kept + [s[0]], x)
                            and use(any_append, kept, s[0], x))) and \
        implies(x in kept, x in greedy(s, kept)) and \
        implies(any(overlap(x, k) for k in kept), any(overlap(x, k) for k in greedy(s, kept)))


@lemma(props=["C03"], types=dict(s=Blocks, kept=Blocks, x=CodeBlockT), name="greedy-is-maximal")
def greedy_maximal(s, kept, x):
    """Every scanned block is kept or overlaps a kept block (nothing is dropped without a covering block)."""
    reveal(greedy, s, kept)
    return (len(s) == 0 or (ih(greedy_maximal, s[1:], kept, x) and ih(greedy_maximal, s[1:], kept + [s[0]], x)
                            and use(greedy_extends, s[1:], kept, s[0])
                            and use(greedy_extends, s[1:], kept + [s[0]], s[0])
                            and use(member_head_tail, s, x))) and \
        implies(x in s, x in greedy(s, kept) or any(overlap(x, k) for k in greedy(s, kept)))


@opaque
def free(l: Blocks) -> Bool:
    """Pairwise non-overlapping: no block overlaps a later one (overlap is symmetric)."""
    return len(l) == 0 or (not any(overlap(l[0], k) for k in l[1:]) and free(l[1:]))


@lemma(props=["C03"], types=dict(l=Blocks, b=CodeBlockT), name="free-append")
def free_append(l, b):
    reveal(free, l)
    reveal(free, l + [b])
    reveal(free, [b])
    return (len(l) == 0 or (ih(free_append, l[1:], b) and use(any_append, l[1:], b, l[0])
                            and use(append_head_tail, l, b))) and \
        implies(free(l) and not any(overlap(b, k) for k in l), free(l + [b]))


@lemma(props=["C03"], types=dict(s=Blocks, kept=Blocks), name="greedy-selection-is-pairwise-non-overlapping")
def greedy_free(s, kept):
    reveal(greedy, s, kept)
    return (len(s) == 0 or (ih(greedy_free, s[1:], kept) and ih(greedy_free, s[1:], kept + [s[0]])
                            and use(free_append, kept, s[0]))) and \
        implies(free(kept), free(greedy(s, kept)))


@lemma(props=["C03"], types=dict(file_blocks=Blocks, x=CodeBlockT), name="per-file-dedup-sound-and-maximal")
def per_file_dedup(file_blocks, x):
    """Property: the blocks kept for one file are input blocks, pairwise non-overlapping, and every dropped input
    block overlaps a kept one (so it is covered by the kept block's violation)."""
    r = call(D + "_remove_overlaps_from_file", None, file_blocks)
    use(greedy_members, sorted(file_blocks, key=lambda b: b.start_line), [], x)
    use(greedy_maximal, sorted(file_blocks, key=lambda b: b.start_line), [], x)
    use(greedy_free, sorted(file_blocks, key=lambda b: b.start_line), [])
    sorted_member_fact(file_blocks, x, key=lambda b: b.start_line)
    reveal(free, [])
    return implies(x in r, x in file_blocks) and free(r) and \
        implies(x in file_blocks, x in r or any(overlap(x, k) for k in r))


# =================================================================== violation-level filter (violation_filter.py)
from pyvc.api import parses_as_int  # noqa: E402

Violations = SeqOf(ViolationT)
FilterT = Rec("ViolationFilter", cls="src/linters/dry/violation_filter.py::ViolationFilter",
              pycls="src.linters.dry.violation_filter:ViolationFilter")


def count_text(message):
    """The text between the first '(' and the first ' lines' of a DRY message: "Duplicate code (N lines, ..."."""
    return message[message.find("(") + 1: message.find(" lines")]


@opaque
def line_count_of(message: Str, default: Int) -> Int:
    """Line count parsed back from a violation message; `default` when the message has no parsable count."""
    return int(count_text(message)) if "(" in message and " lines" in message and parses_as_int(count_text(message)) \
        else default


@contract(VFI + "_extract_line_count", props=["C03"], types=dict(message=Str, start=Int, end=Int), returns=Int)
class FilterExtractLineCount:
    def reveals(message):
        return reveal(line_count_of, message, 5)

    def value(message):
        return line_count_of(message, 5)


def voverlap(v1, v2):
    """ViolationFilter._overlaps: v1 (later) starts before the end of the kept block v2, i.e. before v2's start plus
    v2's own line count."""
    return (v1.line or 0) < (v2.line or 0) + line_count_of(v2.message, 5)


@contract(VFI + "_overlaps", props=["C03"], types=dict(v1=ViolationT, v2=ViolationT), returns=Bool)
class FilterOverlaps:
    def value(v1, v2):
        return voverlap(v1, v2)


@contract(VFI + "_overlaps_any", props=["C03"], types=dict(violation=ViolationT, kept_violations=Violations), returns=Bool)
class FilterOverlapsAny:
    def value(violation, kept_violations):
        return any(voverlap(violation, kept) for kept in kept_violations)


@opaque
def vgreedy(s: Violations, kept: Violations) -> Violations:
    if len(s) == 0:
        return kept
    if any(voverlap(s[0], k) for k in kept):
        return vgreedy(s[1:], kept)
    return vgreedy(s[1:], kept + [s[0]])


@contract(VFI + "filter_overlapping", props=["C03"],
          types=dict(sorted_violations=Violations, kept=Violations, violation=ViolationT), returns=Violations)
class FilterOverlapping:
    def reveals(sorted_violations):
        return reveal(vgreedy, sorted_violations, [])

    def value(sorted_violations):
        return vgreedy(sorted_violations, [])

    def inv0(sorted_violations, kept, rest):
        return reveal(vgreedy, rest, kept) and vgreedy(sorted_violations, []) == vgreedy(rest, kept)


def vcount(v):
    return line_count_of(v.message, 5)


def vrange_intersect(a, b):
    """The reported line ranges [line, line + line_count - 1] of two violations share a line."""
    return ranges_intersect(a.line, a.line + vcount(a) - 1, b.line, b.line + vcount(b) - 1)


@lemma(props=["C03"], types=dict(a=ViolationT, b=ViolationT), name="violation-filter-drops-only-covered")
def violation_filter_covered(a, b):
    """Property (needed for 'every occurrence is covered by a violation'), two violations of one file sorted by line:
    the first is always kept; the second is dropped exactly when its line RANGE [line, line + count - 1] intersects
    the range of the first (kept) one -- never otherwise. (Was refuted before fix C03-violation-overlap-length.)"""
    if not (1 <= a.line and a.line <= b.line and vcount(a) >= 1 and vcount(b) >= 1):
        return True
    r = call(VFI + "filter_overlapping", mk(FilterT), [a, b])
    reveal(vgreedy, [a, b], [])
    reveal(vgreedy, [b], [a])
    reveal(vgreedy, [], [a])
    reveal(vgreedy, [], [a, b])
    return r[0] == a and (len(r) == 1 or len(r) == 2) and implies(len(r) == 2, r[1] == b) \
        and (len(r) == 1) == vrange_intersect(a, b)


@lemma(props=["C03"], types=dict(x=ViolationT, k=ViolationT), name="violation-overlap-is-range-intersection")
def violation_overlap_is_range_intersection(x, k):
    """For a kept violation k that does not start after x (input sorted by line), the relation the filter tests is
    exactly 'the two reported line ranges share a line'."""
    if not (k.line <= x.line and vcount(k) >= 1 and vcount(x) >= 1 and k.line != 0 and x.line != 0):
        return True
    return call(VFI + "_overlaps", mk(FilterT), x, k) == vrange_intersect(x, k)


# ---- general (any length) facts about the violation-level filter
@lemma(props=["C03"], types=dict(l=Violations, b=ViolationT), name="v-append-head-tail")
def v_append_head_tail(l, b):
    return implies(len(l) > 0, (l + [b])[0] == l[0] and (l + [b])[1:] == l[1:] + [b])


@lemma(props=["C03"], types=dict(s=Violations, x=ViolationT), name="v-member-head-tail")
def v_member_head_tail(s, x):
    return implies(len(s) > 0, (x in s) == (x == s[0] or x in s[1:]))


@lemma(props=["C03"], types=dict(l=Violations, b=ViolationT, x=ViolationT), name="v-any-overlap-append")
def v_any_append(l, b, x):
    return (len(l) == 0 or (ih(v_any_append, l[1:], b, x) and use(v_append_head_tail, l, b))) and \
        any(voverlap(x, k) for k in l + [b]) == (any(voverlap(x, k) for k in l) or voverlap(x, b))


@lemma(props=["C03"], types=dict(s=Violations, kept=Violations, x=ViolationT), name="vfilter-keeps-only-input-violations")
def vgreedy_members(s, kept, x):
    reveal(vgreedy, s, kept)
    return (len(s) == 0 or (ih(vgreedy_members, s[1:], kept, x) and ih(vgreedy_members, s[1:], kept + [s[0]], x))) and \
        implies(x in vgreedy(s, kept), x in kept or x in s)


@lemma(props=["C03"], types=dict(s=Violations, kept=Violations, x=ViolationT), name="vfilter-never-forgets")
def vgreedy_extends(s, kept, x):
    reveal(vgreedy, s, kept)
    return (len(s) == 0 or (ih(vgreedy_extends, s[1:], kept, x) and ih(vgreedy_extends, s[1:], kept + [s[0]], x)
                            and use(v_any_append, kept, s[0], x))) and \
        implies(x in kept, x in vgreedy(s, kept)) and \
        implies(any(voverlap(x, k) for k in kept), any(voverlap(x, k) for k in vgreedy(s, kept)))


@lemma(props=["C03"], types=dict(s=Violations, kept=Violations, x=ViolationT), name="vfilter-is-maximal")
def vgreedy_maximal(s, kept, x):
    reveal(vgreedy, s, kept)
    return (len(s) == 0 or (ih(vgreedy_maximal, s[1:], kept, x) and ih(vgreedy_maximal, s[1:], kept + [s[0]], x)
                            and use(vgreedy_extends, s[1:], kept, s[0])
                            and use(vgreedy_extends, s[1:], kept + [s[0]], s[0])
                            and use(v_member_head_tail, s, x))) and \
        implies(x in s, x in vgreedy(s, kept) or any(voverlap(x, k) for k in vgreedy(s, kept)))


@lemma(props=["C03"], types=dict(vs=Violations, x=ViolationT), name="violation-filter-sound-and-maximal")
def violation_filter_general(vs, x):
    """Any length: only input violations are returned, and a violation is dropped only if it starts before the end
    (line + own line count) of some kept violation; nothing else is ever dropped."""
    r = call(VFI + "filter_overlapping", mk(FilterT), vs)
    use(vgreedy_members, vs, [], x)
    use(vgreedy_maximal, vs, [], x)
    return implies(x in r, x in vs) and implies(x in vs, x in r or any(voverlap(x, k) for k in r))


# =================================================================== grouping by file and the two public entry points
from pyvc.api import Assoc, uf  # noqa: E402

BG = "src/linters/dry/block_grouper.py::BlockGrouper."
BlockGroups = Assoc(Blocks, keyty=PathT)        # dict[Path, list[CodeBlock]] in insertion order
ViolationGroups = Assoc(Violations)             # dict[str, list[Violation]]
GrouperT = Rec("BlockGrouper", cls="src/linters/dry/block_grouper.py::BlockGrouper",
               pycls="src.linters.dry.block_grouper:BlockGrouper")
DedupT = Rec("ViolationDeduplicator", cls="src/linters/dry/deduplicator.py::ViolationDeduplicator",
             pycls="src.linters.dry.deduplicator:ViolationDeduplicator", _grouper=GrouperT, _filter=FilterT)


def _group_blocks_native(blocks):
    out = {}
    for b in blocks:
        out.setdefault(b.file_path, []).append(b)
    return out


def _group_violations_native(violations):
    out = {}
    for v in violations:
        out.setdefault(v.file_path, []).append(v)
    return out


def groups_ok(groups, blocks):
    """Every entry holds exactly the blocks of its file, in their original order."""
    return all(grp == [b for b in blocks if b.file_path == key] for key, grp in groups)


def has_group(groups, b):
    return any(key == b.file_path for key, grp in groups)


block_groups = uf("dry_block_groups", [Blocks], BlockGroups, concrete=_group_blocks_native)
violation_groups = uf("dry_violation_groups", [Violations], ViolationGroups, concrete=_group_violations_native)


@contract(BG + "group_blocks_by_file", props=["C03"], types=dict(self=GrouperT, blocks=Blocks), returns=BlockGroups,
          assumed="REPRESENTATION ONLY: callers iterate the returned dict, which the engine renders as an association list "
                  "(a dict of aliased lists cannot be a sequence element). What the code computes per key -- the entry of a "
                  "path is the order-preserving sub-list of the blocks with that FULL path, a path has an entry iff a block "
                  "has it -- is VERIFIED on the real code by the view group_blocks_by_file~by-full-path below; assumed is "
                  "only that the association list lists exactly those entries, one per distinct key")
class GroupBlocksByFile:
    def value(blocks):
        return block_groups(blocks)

    def ensures_each_group_is_the_blocks_of_its_file(blocks, result):
        return groups_ok(result, blocks)

    def ensures_every_file_has_a_group(blocks, result):
        return all(has_group(result, b) for b in blocks)


@contract(BG + "group_violations_by_file", props=["C03"], types=dict(self=GrouperT, violations=Violations),
          returns=ViolationGroups,
          assumed="REPRESENTATION ONLY (see group_blocks_by_file): the per-key content is VERIFIED by the view "
                  "group_violations_by_file~by-full-path; assumed is only that the association list the callers iterate "
                  "lists exactly those entries, one per distinct file path")
class GroupViolationsByFile:
    def value(violations):
        return violation_groups(violations)

    def ensures_each_group_is_the_violations_of_its_file(violations, result):
        return all(grp == [v for v in violations if v.file_path == key] for key, grp in result)

    def ensures_every_file_has_a_group(violations, result):
        return all(any(key == v.file_path for key, grp in result) for v in violations)


def per_file(file_blocks):
    return greedy(sorted(file_blocks, key=lambda b: b.start_line), [])


@opaque
def dedup_groups(gs: SeqOf(Blocks)) -> Blocks:
    """Concatenation, group by group, of the per-file selections."""
    if len(gs) == 0:
        return []
    return per_file(gs[0]) + dedup_groups(gs[1:])


@contract(D + "deduplicate_blocks", props=["C03"],
          types=dict(self=DedupT, blocks=Blocks, grouped=BlockGroups, deduplicated=Blocks, file_blocks=Blocks, kept=Blocks),
          returns=Blocks)
class DeduplicateBlocks:
    def reveals(blocks):
        return reveal(dedup_groups, [])

    def value(blocks):
        return dedup_groups(list(block_groups(blocks).values())) if len(blocks) > 0 else []

    def inv0(grouped, deduplicated, rest):
        return reveal(dedup_groups, rest) and dedup_groups(list(grouped.values())) == deduplicated + dedup_groups(rest)


def per_file_violations(file_violations):
    return vgreedy(sorted(file_violations, key=lambda v: v.line or 0), [])


@opaque
def vdedup_groups(gs: SeqOf(Violations)) -> Violations:
    if len(gs) == 0:
        return []
    return per_file_violations(gs[0]) + vdedup_groups(gs[1:])


@contract(D + "deduplicate_violations", props=["C03"],
          types=dict(self=DedupT, violations=Violations, grouped=ViolationGroups, deduplicated=Violations,
                     file_violations=Violations, sorted_violations=Violations, kept=Violations),
          returns=Violations)
class DeduplicateViolations:
    def reveals(violations):
        return reveal(vdedup_groups, [])

    def value(violations):
        return vdedup_groups(list(violation_groups(violations).values())) if len(violations) > 0 else []

    def inv0(grouped, deduplicated, rest):
        return reveal(vdedup_groups, rest) and vdedup_groups(list(grouped.values())) == deduplicated + vdedup_groups(rest)


# =================================================================== deduplicate_blocks across files (pure lemmas + property)
def same_file_cover(x, l):
    """Some block of l lies in x's file and shares a line with x."""
    return any(overlap(x, y) and y.file_path == x.file_path for y in l)


@lemma(props=["C03"], types=dict(blocks=Blocks, k=PathT, x=CodeBlockT), name="file-filter-membership")
def file_filter_membership(blocks, k, x):
    return (len(blocks) == 0 or (ih(file_filter_membership, blocks[1:], k, x) and use(member_head_tail, blocks, x))) and \
        (x in [b for b in blocks if b.file_path == k]) == (x in blocks and x.file_path == k)


@opaque
def first_hit(l: Blocks, x: CodeBlockT) -> CodeBlockT:
    """Witness: the first block of l that overlaps x (x itself if there is none)."""
    if len(l) == 0:
        return x
    if overlap(x, l[0]):
        return l[0]
    return first_hit(l[1:], x)


@lemma(props=["C03"], types=dict(l=Blocks, x=CodeBlockT), name="overlap-witness")
def overlap_witness(l, x):
    reveal(first_hit, l, x)
    return (len(l) == 0 or (ih(overlap_witness, l[1:], x) and use(member_head_tail, l, first_hit(l, x)))) and \
        implies(any(overlap(x, y) for y in l), first_hit(l, x) in l and overlap(x, first_hit(l, x)))


@lemma(props=["C03"], types=dict(l=Blocks, x=CodeBlockT, w=CodeBlockT), name="same-file-cover-from-witness")
def cover_from_witness(l, x, w):
    return (len(l) == 0 or (ih(cover_from_witness, l[1:], x, w) and use(member_head_tail, l, w))) and \
        implies(w in l and overlap(x, w) and w.file_path == x.file_path, same_file_cover(x, l))


@lemma(props=["C03"], types=dict(l1=Blocks, l2=Blocks), name="concat-head-tail")
def concat_head_tail(l1, l2):
    return implies(len(l1) > 0, (l1 + l2)[0] == l1[0] and (l1 + l2)[1:] == l1[1:] + l2)


@lemma(props=["C03"], types=dict(l1=Blocks, l2=Blocks, x=CodeBlockT), name="same-file-cover-survives-prepending")
def cover_concat(l1, l2, x):
    return (len(l1) == 0 or (ih(cover_concat, l1[1:], l2, x) and use(concat_head_tail, l1, l2))) and \
        implies(same_file_cover(x, l2), same_file_cover(x, l1 + l2))


@lemma(props=["C03"], types=dict(blocks=Blocks, groups=BlockGroups, x=CodeBlockT), name="every-block-has-its-file-group")
def every_block_has_group(blocks, groups, x):
    return (len(blocks) == 0 or (ih(every_block_has_group, blocks[1:], groups, x) and use(member_head_tail, blocks, x))) and \
        implies(all(has_group(groups, b) for b in blocks) and x in blocks, has_group(groups, x))


def dedup_of_groups(groups):
    return dedup_groups(list(groups.values()))


@opaque
def dedup_pairs(groups: BlockGroups) -> Blocks:
    """dedup_of_groups as a fold over the (path, blocks) entries."""
    if len(groups) == 0:
        return []
    return per_file(groups[0][1]) + dedup_pairs(groups[1:])


@opaque
def groups_okp(groups: BlockGroups, blocks: Blocks) -> Bool:
    """groups_ok as a fold."""
    return len(groups) == 0 or (groups[0][1] == [b for b in blocks if b.file_path == groups[0][0]]
                                and groups_okp(groups[1:], blocks))


@opaque
def has_groupp(groups: BlockGroups, x: CodeBlockT) -> Bool:
    """has_group as a fold."""
    return len(groups) > 0 and (groups[0][0] == x.file_path or has_groupp(groups[1:], x))


@lemma(props=["C03"], types=dict(groups=BlockGroups), name="values-head-tail")
def values_head_tail(groups):
    return implies(len(groups) > 0, list(groups.values())[0] == groups[0][1]
                   and list(groups.values())[1:] == list(groups[1:].values()))


@lemma(props=["C03"], types=dict(groups=BlockGroups), name="dedup-groups-is-a-fold-over-entries")
def dedup_pairs_bridge(groups):
    reveal(dedup_pairs, groups)
    reveal(dedup_groups, list(groups.values()))
    return (len(groups) == 0 or (ih(dedup_pairs_bridge, groups[1:]) and use(values_head_tail, groups))) and \
        dedup_of_groups(groups) == dedup_pairs(groups)


@lemma(props=["C03"], types=dict(groups=BlockGroups, blocks=Blocks), name="groups-ok-is-a-fold")
def groups_ok_bridge(groups, blocks):
    reveal(groups_okp, groups, blocks)
    return (len(groups) == 0 or ih(groups_ok_bridge, groups[1:], blocks)) and \
        implies(groups_ok(groups, blocks), groups_okp(groups, blocks))


@lemma(props=["C03"], types=dict(groups=BlockGroups, x=CodeBlockT), name="has-group-is-a-fold")
def has_group_bridge(groups, x):
    reveal(has_groupp, groups, x)
    return (len(groups) == 0 or ih(has_group_bridge, groups[1:], x)) and \
        implies(has_group(groups, x), has_groupp(groups, x))


@lemma(props=["C03"], types=dict(a=Blocks, b=Blocks, y=CodeBlockT), name="member-concat")
def member_concat(a, b, y):
    return (y in a + b) == (y in a or y in b)


@lemma(props=["C03"], types=dict(groups=BlockGroups, blocks=Blocks, y=CodeBlockT), name="dedup-across-files-keeps-only-input-blocks")
def dedup_sound(groups, blocks, y):
    reveal(dedup_pairs, groups)
    reveal(groups_okp, groups, blocks)
    if len(groups) == 0:
        return implies(groups_okp(groups, blocks) and y in dedup_pairs(groups), y in blocks)
    ih(dedup_sound, groups[1:], blocks, y)
    use(member_concat, per_file(groups[0][1]), dedup_pairs(groups[1:]), y)
    use(greedy_members, sorted(groups[0][1], key=lambda b: b.start_line), [], y)
    sorted_member_fact(groups[0][1], y, key=lambda b: b.start_line)
    use(file_filter_membership, blocks, groups[0][0], y)
    return implies(groups_okp(groups, blocks) and y in dedup_pairs(groups), y in blocks)


@lemma(props=["C03"], types=dict(l1=Blocks, l2=Blocks, x=CodeBlockT), name="same-file-cover-survives-appending")
def cover_concat_left(l1, l2, x):
    return (len(l1) == 0 or (ih(cover_concat_left, l1[1:], l2, x) and use(concat_head_tail, l1, l2))) and \
        implies(same_file_cover(x, l1), same_file_cover(x, l1 + l2))


@lemma(props=["C03"], types=dict(g=Blocks, blocks=Blocks, k=PathT, x=CodeBlockT), name="file-group-selection-covers-its-blocks")
def group_cover(g, blocks, k, x):
    """One file: if g is exactly the blocks of file k, every block of that file is selected or shares a line with a
    selected block of the same file."""
    use(file_filter_membership, blocks, k, x)
    sorted_member_fact(g, x, key=lambda b: b.start_line)
    use(greedy_maximal, sorted(g, key=lambda b: b.start_line), [], x)
    use(overlap_witness, per_file(g), x)
    use(greedy_members, sorted(g, key=lambda b: b.start_line), [], first_hit(per_file(g), x))
    sorted_member_fact(g, first_hit(per_file(g), x), key=lambda b: b.start_line)
    use(file_filter_membership, blocks, k, first_hit(per_file(g), x))
    use(cover_from_witness, per_file(g), x, first_hit(per_file(g), x))
    return implies(g == [b for b in blocks if b.file_path == k] and x in blocks and x.file_path == k,
                   x in per_file(g) or same_file_cover(x, per_file(g)))


@lemma(props=["C03"], types=dict(g=Blocks, k=PathT, tail=BlockGroups, blocks=Blocks, x=CodeBlockT), name="dedup-cover-step")
def dedup_cover_step(g, k, tail, blocks, x):
    """One step of the fold: the head group covers the blocks of its own file, the tail's cover is kept."""
    use(group_cover, g, blocks, k, x)
    use(member_concat, per_file(g), dedup_pairs(tail), x)
    use(cover_concat_left, per_file(g), dedup_pairs(tail), x)
    use(cover_concat, per_file(g), dedup_pairs(tail), x)
    return implies(g == [b for b in blocks if b.file_path == k] and x in blocks
                   and (k == x.file_path or x in dedup_pairs(tail) or same_file_cover(x, dedup_pairs(tail))),
                   x in per_file(g) + dedup_pairs(tail) or same_file_cover(x, per_file(g) + dedup_pairs(tail)))


@lemma(props=["C03"], types=dict(groups=BlockGroups, blocks=Blocks, x=CodeBlockT), name="dedup-across-files-covers-every-block")
def dedup_cover(groups, blocks, x):
    reveal(dedup_pairs, groups)
    reveal(groups_okp, groups, blocks)
    reveal(has_groupp, groups, x)
    if len(groups) == 0:
        return not has_groupp(groups, x)
    ih(dedup_cover, groups[1:], blocks, x)
    use(dedup_cover_step, groups[0][1], groups[0][0], groups[1:], blocks, x)
    return implies(groups_okp(groups, blocks) and x in blocks and has_groupp(groups, x),
                   x in dedup_pairs(groups) or same_file_cover(x, dedup_pairs(groups)))


@lemma(props=["C03"], types=dict(blocks=Blocks, x=CodeBlockT), name="deduplicate-blocks-sound-and-covering")
def deduplicate_blocks_property(blocks, x):
    """Property (block level, all files): deduplicate_blocks returns only input blocks, and every input block is
    either returned or shares a line with a returned block OF THE SAME FILE -- no occurrence is dropped uncovered
    (modulo the assumed grouping contract of BlockGrouper and the trusted contract of sorted())."""
    r = call(D + "deduplicate_blocks", mk(DedupT), blocks)
    g = call(BG + "group_blocks_by_file", mk(GrouperT), blocks)
    reveal(dedup_groups, [])
    use(dedup_pairs_bridge, g)
    use(groups_ok_bridge, g, blocks)
    use(has_group_bridge, g, x)
    use(dedup_sound, g, blocks, x)
    use(dedup_cover, g, blocks, x)
    use(every_block_has_group, blocks, g, x)
    return implies(x in r, x in blocks) and implies(x in blocks, x in r or same_file_cover(x, r))


# =================================================================== the per-file selection stays sorted by start line
def by_start(l):
    return is_sorted(l, key=lambda b: b.start_line)


@lemma(props=["C03"], types=dict(l=Blocks), name="sorted-tail")
def sorted_tail(l):
    return implies(by_start(l) and len(l) > 0, by_start(l[1:]) and implies(len(l) > 1, l[0].start_line <= l[1].start_line))


@lemma(props=["C03"], types=dict(a=Blocks, s=Blocks), name="sorted-after-dropping-one")
def sorted_drop(a, s):
    """Pure: removing the first element of the second part keeps a concatenation ordered."""
    return (len(a) == 0 or (ih(sorted_drop, a[1:], s) and use(concat_head_tail, a, s) and use(concat_head_tail, a, s[1:])
                            and use(sorted_tail, a + s) and use(sorted_tail, a + s[1:]))) and \
        use(sorted_tail, s) and use(sorted_tail, s[1:]) and \
        implies(by_start(a + s) and len(s) > 0, by_start(a + s[1:]))


@lemma(props=["C03"], types=dict(s=Blocks, kept=Blocks), name="greedy-selection-stays-sorted")
def greedy_sorted(s, kept):
    reveal(greedy, s, kept)
    return (len(s) == 0 or (ih(greedy_sorted, s[1:], kept) and ih(greedy_sorted, s[1:], kept + [s[0]])
                            and use(sorted_drop, kept, s))) and \
        implies(by_start(kept + s), by_start(greedy(s, kept)))


@lemma(props=["C03"], types=dict(file_blocks=Blocks), name="per-file-dedup-is-sorted-by-start-line")
def per_file_sorted(file_blocks):
    """Property: the blocks kept for one file are returned in increasing start-line order."""
    r = call(D + "_remove_overlaps_from_file", None, file_blocks)
    use(greedy_sorted, sorted(file_blocks, key=lambda b: b.start_line), [])
    return by_start(r)


# =================================================================== deduplicate_violations across files (pure lemmas + property)
def vgroups_ok(groups, violations):
    return all(grp == [v for v in violations if v.file_path == key] for key, grp in groups)


def vhas_group(groups, v):
    return any(key == v.file_path for key, grp in groups)


def v_same_file_cover(x, l):
    """Some violation of l lies in x's file and x starts before its end (the filter's overlap relation)."""
    return any(voverlap(x, y) and y.file_path == x.file_path for y in l)


@lemma(props=["C03"], types=dict(blocks=Violations, k=Str, x=ViolationT), name="v-file-filter-membership")
def v_file_filter_membership(blocks, k, x):
    return (len(blocks) == 0 or (ih(v_file_filter_membership, blocks[1:], k, x) and use(v_member_head_tail, blocks, x))) and \
        (x in [v for v in blocks if v.file_path == k]) == (x in blocks and x.file_path == k)


@opaque
def v_first_hit(l: Violations, x: ViolationT) -> ViolationT:
    """Witness: the first block of l that overlaps x (x itself if there is none)."""
    if len(l) == 0:
        return x
    if voverlap(x, l[0]):
        return l[0]
    return v_first_hit(l[1:], x)


@lemma(props=["C03"], types=dict(l=Violations, x=ViolationT), name="v-overlap-witness")
def v_overlap_witness(l, x):
    reveal(v_first_hit, l, x)
    return (len(l) == 0 or (ih(v_overlap_witness, l[1:], x) and use(v_member_head_tail, l, v_first_hit(l, x)))) and \
        implies(any(voverlap(x, y) for y in l), v_first_hit(l, x) in l and voverlap(x, v_first_hit(l, x)))


@lemma(props=["C03"], types=dict(l=Violations, x=ViolationT, w=ViolationT), name="v-same-file-cover-from-witness")
def v_cover_from_witness(l, x, w):
    return (len(l) == 0 or (ih(v_cover_from_witness, l[1:], x, w) and use(v_member_head_tail, l, w))) and \
        implies(w in l and voverlap(x, w) and w.file_path == x.file_path, v_same_file_cover(x, l))


@lemma(props=["C03"], types=dict(l1=Violations, l2=Violations), name="v-concat-head-tail")
def v_concat_head_tail(l1, l2):
    return implies(len(l1) > 0, (l1 + l2)[0] == l1[0] and (l1 + l2)[1:] == l1[1:] + l2)


@lemma(props=["C03"], types=dict(l1=Violations, l2=Violations, x=ViolationT), name="v-same-file-cover-survives-prepending")
def v_cover_concat(l1, l2, x):
    return (len(l1) == 0 or (ih(v_cover_concat, l1[1:], l2, x) and use(v_concat_head_tail, l1, l2))) and \
        implies(v_same_file_cover(x, l2), v_same_file_cover(x, l1 + l2))


@lemma(props=["C03"], types=dict(blocks=Violations, groups=ViolationGroups, x=ViolationT), name="v-every-block-has-its-file-group")
def every_violation_has_group(blocks, groups, x):
    return (len(blocks) == 0 or (ih(every_violation_has_group, blocks[1:], groups, x) and use(v_member_head_tail, blocks, x))) and \
        implies(all(vhas_group(groups, v) for v in blocks) and x in blocks, vhas_group(groups, x))


def vdedup_of_groups(groups):
    return vdedup_groups(list(groups.values()))


@opaque
def vdedup_pairs(groups: ViolationGroups) -> Violations:
    """vdedup_of_groups as a fold over the (path, blocks) entries."""
    if len(groups) == 0:
        return []
    return per_file_violations(groups[0][1]) + vdedup_pairs(groups[1:])


@opaque
def vgroups_okp(groups: ViolationGroups, blocks: Violations) -> Bool:
    """vgroups_ok as a fold."""
    return len(groups) == 0 or (groups[0][1] == [v for v in blocks if v.file_path == groups[0][0]]
                                and vgroups_okp(groups[1:], blocks))


@opaque
def vhas_groupp(groups: ViolationGroups, x: ViolationT) -> Bool:
    """vhas_group as a fold."""
    return len(groups) > 0 and (groups[0][0] == x.file_path or vhas_groupp(groups[1:], x))


@lemma(props=["C03"], types=dict(groups=ViolationGroups), name="v-values-head-tail")
def v_values_head_tail(groups):
    return implies(len(groups) > 0, list(groups.values())[0] == groups[0][1]
                   and list(groups.values())[1:] == list(groups[1:].values()))


@lemma(props=["C03"], types=dict(groups=ViolationGroups), name="v-dedup-groups-is-a-fold-over-entries")
def vdedup_pairs_bridge(groups):
    reveal(vdedup_pairs, groups)
    reveal(vdedup_groups, list(groups.values()))
    return (len(groups) == 0 or (ih(vdedup_pairs_bridge, groups[1:]) and use(v_values_head_tail, groups))) and \
        vdedup_of_groups(groups) == vdedup_pairs(groups)


@lemma(props=["C03"], types=dict(groups=ViolationGroups, blocks=Violations), name="v-groups-ok-is-a-fold")
def vgroups_ok_bridge(groups, blocks):
    reveal(vgroups_okp, groups, blocks)
    return (len(groups) == 0 or ih(vgroups_ok_bridge, groups[1:], blocks)) and \
        implies(vgroups_ok(groups, blocks), vgroups_okp(groups, blocks))


@lemma(props=["C03"], types=dict(groups=ViolationGroups, x=ViolationT), name="v-has-group-is-a-fold")
def vhas_group_bridge(groups, x):
    reveal(vhas_groupp, groups, x)
    return (len(groups) == 0 or ih(vhas_group_bridge, groups[1:], x)) and \
        implies(vhas_group(groups, x), vhas_groupp(groups, x))


@lemma(props=["C03"], types=dict(a=Violations, b=Violations, y=ViolationT), name="v-member-concat")
def v_member_concat(a, b, y):
    return (y in a + b) == (y in a or y in b)


@lemma(props=["C03"], types=dict(groups=ViolationGroups, blocks=Violations, y=ViolationT), name="v-dedup-across-files-keeps-only-input-blocks")
def vdedup_sound(groups, blocks, y):
    reveal(vdedup_pairs, groups)
    reveal(vgroups_okp, groups, blocks)
    if len(groups) == 0:
        return implies(vgroups_okp(groups, blocks) and y in vdedup_pairs(groups), y in blocks)
    ih(vdedup_sound, groups[1:], blocks, y)
    use(v_member_concat, per_file_violations(groups[0][1]), vdedup_pairs(groups[1:]), y)
    use(vgreedy_members, sorted(groups[0][1], key=lambda v: v.line or 0), [], y)
    sorted_member_fact(groups[0][1], y, key=lambda v: v.line or 0)
    use(v_file_filter_membership, blocks, groups[0][0], y)
    return implies(vgroups_okp(groups, blocks) and y in vdedup_pairs(groups), y in blocks)


@lemma(props=["C03"], types=dict(l1=Violations, l2=Violations, x=ViolationT), name="v-same-file-cover-survives-appending")
def v_cover_concat_left(l1, l2, x):
    return (len(l1) == 0 or (ih(v_cover_concat_left, l1[1:], l2, x) and use(v_concat_head_tail, l1, l2))) and \
        implies(v_same_file_cover(x, l1), v_same_file_cover(x, l1 + l2))


@lemma(props=["C03"], types=dict(g=Violations, blocks=Violations, k=Str, x=ViolationT), name="v-file-group-selection-covers-its-blocks")
def v_group_cover(g, blocks, k, x):
    """One file: if g is exactly the blocks of file k, every block of that file is selected or shares a line with a
    selected block of the same file."""
    use(v_file_filter_membership, blocks, k, x)
    sorted_member_fact(g, x, key=lambda v: v.line or 0)
    use(vgreedy_maximal, sorted(g, key=lambda v: v.line or 0), [], x)
    use(v_overlap_witness, per_file_violations(g), x)
    use(vgreedy_members, sorted(g, key=lambda v: v.line or 0), [], v_first_hit(per_file_violations(g), x))
    sorted_member_fact(g, v_first_hit(per_file_violations(g), x), key=lambda v: v.line or 0)
    use(v_file_filter_membership, blocks, k, v_first_hit(per_file_violations(g), x))
    use(v_cover_from_witness, per_file_violations(g), x, v_first_hit(per_file_violations(g), x))
    return implies(g == [v for v in blocks if v.file_path == k] and x in blocks and x.file_path == k,
                   x in per_file_violations(g) or v_same_file_cover(x, per_file_violations(g)))


@lemma(props=["C03"], types=dict(g=Violations, k=Str, tail=ViolationGroups, blocks=Violations, x=ViolationT), name="v-dedup-cover-step")
def vdedup_cover_step(g, k, tail, blocks, x):
    """One step of the fold: the head group covers the blocks of its own file, the tail's cover is kept."""
    use(v_group_cover, g, blocks, k, x)
    use(v_member_concat, per_file_violations(g), vdedup_pairs(tail), x)
    use(v_cover_concat_left, per_file_violations(g), vdedup_pairs(tail), x)
    use(v_cover_concat, per_file_violations(g), vdedup_pairs(tail), x)
    return implies(g == [v for v in blocks if v.file_path == k] and x in blocks
                   and (k == x.file_path or x in vdedup_pairs(tail) or v_same_file_cover(x, vdedup_pairs(tail))),
                   x in per_file_violations(g) + vdedup_pairs(tail) or v_same_file_cover(x, per_file_violations(g) + vdedup_pairs(tail)))


@lemma(props=["C03"], types=dict(groups=ViolationGroups, blocks=Violations, x=ViolationT), name="v-dedup-across-files-covers-every-block")
def vdedup_cover(groups, blocks, x):
    reveal(vdedup_pairs, groups)
    reveal(vgroups_okp, groups, blocks)
    reveal(vhas_groupp, groups, x)
    if len(groups) == 0:
        return not vhas_groupp(groups, x)
    ih(vdedup_cover, groups[1:], blocks, x)
    use(vdedup_cover_step, groups[0][1], groups[0][0], groups[1:], blocks, x)
    return implies(vgroups_okp(groups, blocks) and x in blocks and vhas_groupp(groups, x),
                   x in vdedup_pairs(groups) or v_same_file_cover(x, vdedup_pairs(groups)))


@lemma(props=["C03"], types=dict(blocks=Violations, x=ViolationT), name="deduplicate-violations-sound-and-covering")
def deduplicate_violations_property(blocks, x):
    """Violation level, all files: deduplicate_violations returns only input violations, and an input violation is
    dropped only because it starts before the end of a returned violation OF THE SAME FILE (which, the input being
    sorted by line per file, means that their reported ranges share a line); nothing else is ever dropped."""
    r = call(D + "deduplicate_violations", mk(DedupT), blocks)
    g = call(BG + "group_violations_by_file", mk(GrouperT), blocks)
    reveal(vdedup_groups, [])
    use(vdedup_pairs_bridge, g)
    use(vgroups_ok_bridge, g, blocks)
    use(vhas_group_bridge, g, x)
    use(vdedup_sound, g, blocks, x)
    use(vdedup_cover, g, blocks, x)
    use(every_violation_has_group, blocks, g, x)
    return implies(x in r, x in blocks) and implies(x in blocks, x in r or v_same_file_cover(x, r))


# =================================================================== the groupers VERIFIED through a per-key view
# The contracts above describe the returned dict as an association list (what the callers iterate over) and are
# ASSUMED, because a dict of aliased lists cannot be an element of the engine's sequences. The views below verify the
# real code with the dict modelled as a map (present(k), value(k)): for an ARBITRARY key -- the uninterpreted constant
# ghost key (an uninterpreted function of a SYMBOLIC argument, so it is never constant-folded to its native stand-in and
# the clauses hold for every key) -- the entry of that key is exactly the order-preserving sub-list of the
# input with that key, and the key is present iff some element has it. In particular two blocks land in the same group
# iff their FULL file_path is equal.
from pyvc.ty import MapOf  # noqa: E402
import pathlib as _pathlib  # noqa: E402

ghost_path = uf("dry_ghost_path_key", [Int], PathT, concrete=lambda i: _pathlib.Path("pkg_a/helpers.py"))
ghost_str = uf("dry_ghost_str_key", [Int], Str, concrete=lambda i: "pkg_a/helpers.py")


@contract(BG + "group_blocks_by_file~by-full-path", props=["C03"],
          types=dict(self=GrouperT, blocks=Blocks, grouped=MapOf(PathT, Blocks), block=CodeBlockT),
          returns=MapOf(PathT, Blocks))
class GroupBlocksByFullPath:
    def ensures_group_of_a_path_is_exactly_its_blocks(blocks, result):
        return (result[ghost_path(len(blocks))] if ghost_path(len(blocks)) in result else []) == [b for b in blocks if b.file_path == ghost_path(len(blocks))]

    def ensures_path_has_a_group_iff_it_has_a_block(blocks, result):
        return (ghost_path(len(blocks)) in result) == any(b.file_path == ghost_path(len(blocks)) for b in blocks)

    def witness_same_basename_in_two_directories():
        # the native stand-in of the ghost key is pkg_a/helpers.py: two of its blocks, one block of a same-named file in
        # another directory and one of an unrelated file
        def blk(path, start):
            return {"file_path": _pathlib.Path(path), "start_line": start, "end_line": start + 2, "snippet": "s", "hash_value": 7}
        return {"self": {}, "blocks": [blk("pkg_a/helpers.py", 3), blk("pkg_b/helpers.py", 3), blk("pkg_a/helpers.py", 30),
                                       blk("other.py", 9)]}

    def inv0(blocks, grouped, rest):
        return [b for b in blocks if b.file_path == ghost_path(len(blocks))] == \
            (grouped[ghost_path(len(blocks))] if ghost_path(len(blocks)) in grouped else []) + [b for b in rest if b.file_path == ghost_path(len(blocks))] \
            and any(b.file_path == ghost_path(len(blocks)) for b in blocks) == \
            (ghost_path(len(blocks)) in grouped or any(b.file_path == ghost_path(len(blocks)) for b in rest))


@contract(BG + "group_violations_by_file~by-full-path", props=["C03"],
          types=dict(self=GrouperT, violations=Violations, grouped=MapOf(Str, Violations), violation=ViolationT),
          returns=MapOf(Str, Violations))
class GroupViolationsByFullPath:
    def ensures_group_of_a_path_is_exactly_its_violations(violations, result):
        return (result[ghost_str(len(violations))] if ghost_str(len(violations)) in result else []) == [v for v in violations if v.file_path == ghost_str(len(violations))]

    def ensures_path_has_a_group_iff_it_has_a_violation(violations, result):
        return (ghost_str(len(violations)) in result) == any(v.file_path == ghost_str(len(violations)) for v in violations)

    def witness_same_basename_in_two_directories():
        def vio(path, line):
            return {"rule_id": "dry.duplicate-code", "file_path": path, "line": line, "column": 1,
                    "message": "Duplicate code (3 lines, 2 occurrences)", "severity": "error", "suggestion": None}
        return {"self": {}, "violations": [vio("pkg_a/helpers.py", 3), vio("pkg_b/helpers.py", 3), vio("pkg_a/helpers.py", 30),
                                           vio("other.py", 9)]}

    def inv0(violations, grouped, rest):
        return [v for v in violations if v.file_path == ghost_str(len(violations))] == \
            (grouped[ghost_str(len(violations))] if ghost_str(len(violations)) in grouped else []) + [v for v in rest if v.file_path == ghost_str(len(violations))] \
            and any(v.file_path == ghost_str(len(violations)) for v in violations) == \
            (ghost_str(len(violations)) in grouped or any(v.file_path == ghost_str(len(violations)) for v in rest))
