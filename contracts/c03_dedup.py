"""C03 (part 2) -- DRY linter: interval logic of the block-level and violation-level de-duplication.

src/linters/dry/deduplicator.py, violation_filter.py, block_grouper.py.

Top-level spec (property text): "the occurrence count in the message is the number of distinct, NON-OVERLAPPING places
where the block occurs" and "every occurrence is covered by a violation": of the blocks of one file that share a hash,
the ones kept are pairwise non-overlapping, every kept block is one of the input blocks, and every dropped block
overlaps (shares a line with) a kept one. The same must hold for the violation-level filter with the RANGE
[line, line + line_count - 1] of each violation (expected to fail: known finding C03-violation-overlap-length).
`sorted(xs, key=...)` is a trusted external contract of the engine: same length, same members, ordered by key."""
from pyvc.api import (contract, lemma, Int, Bool, Str, SeqOf, TupleOf, Opt, Rec, implies, call, ih, opaque, reveal, use,
                      is_sorted, mk)
from contracts._common import ViolationT, PathT

D = "src/linters/dry/deduplicator.py::ViolationDeduplicator."
VFI = "src/linters/dry/violation_filter.py::ViolationFilter."

CodeBlockT = Rec("CodeBlock", cls="src/linters/dry/cache.py::CodeBlock", pycls="src.linters.dry.cache:CodeBlock",
                 file_path=PathT, start_line=Int, end_line=Int, snippet=Str, hash_value=Int)
Blocks = SeqOf(CodeBlockT)


# ------------------------------------------------------------------ two blocks
def ranges_intersect(a1, a2, b1, b2):
    """Some line lies in both [a1, a2] and [b1, b2]."""
    return (a1 if a1 > b1 else b1) <= (a2 if a2 < b2 else b2)


def overlap(a, b):
    return a.start_line <= b.end_line and b.start_line <= a.end_line


@contract(D + "_blocks_overlap", props=["C03"], types=dict(block1=CodeBlockT, block2=CodeBlockT), returns=Bool)
class BlocksOverlap:
    def value(block1, block2):
        return overlap(block1, block2)

    def ensures_iff_ranges_intersect(block1, block2, result):
        # property text: blocks overlap iff they share a line (for well-formed blocks: start <= end)
        return implies(block1.start_line <= block1.end_line and block2.start_line <= block2.end_line,
                       result == ranges_intersect(block1.start_line, block1.end_line, block2.start_line, block2.end_line))


@lemma(props=["C03"], types=dict(a=CodeBlockT, b=CodeBlockT), name="blocks-overlap-symmetric")
def blocks_overlap_symmetric(a, b):
    return call(D + "_blocks_overlap", None, a, b) == call(D + "_blocks_overlap", None, b, a)


@contract(D + "_overlaps_any_kept", props=["C03"], types=dict(block=CodeBlockT, kept_blocks=Blocks), returns=Bool)
class OverlapsAnyKept:
    def value(block, kept_blocks):
        return any(overlap(block, kept) for kept in kept_blocks)


# ------------------------------------------------------------------ one file: greedy selection over the sorted blocks
@opaque
def greedy(s: Blocks, kept: Blocks) -> Blocks:
    """Walk s in order; keep a block iff it overlaps none of the blocks kept so far."""
    if len(s) == 0:
        return kept
    if any(overlap(s[0], k) for k in kept):
        return greedy(s[1:], kept)
    return greedy(s[1:], kept + [s[0]])


@contract(D + "_remove_overlaps_from_file", props=["C03"],
          types=dict(file_blocks=Blocks, sorted_blocks=Blocks, kept_blocks=Blocks, block=CodeBlockT), returns=Blocks)
class RemoveOverlapsFromFile:
    def reveals(file_blocks):
        return reveal(greedy, sorted(file_blocks, key=lambda b: b.start_line), [])

    def value(file_blocks):
        return greedy(sorted(file_blocks, key=lambda b: b.start_line), [])

    def inv0(sorted_blocks, kept_blocks, rest):
        return reveal(greedy, rest, kept_blocks) and greedy(sorted_blocks, []) == greedy(rest, kept_blocks)


# ------------------------------------------------------------------ pure lemmas about the greedy selection
@lemma(props=["C03"], types=dict(l=Blocks, b=CodeBlockT), name="append-head-tail")
def append_head_tail(l, b):
    """Pure (sequences): head and tail of l + [b] for a non-empty l."""
    return implies(len(l) > 0, (l + [b])[0] == l[0] and (l + [b])[1:] == l[1:] + [b])


@lemma(props=["C03"], types=dict(s=Blocks, x=CodeBlockT), name="member-head-tail")
def member_head_tail(s, x):
    """Pure (sequences): membership in a non-empty list is head-or-tail membership."""
    return implies(len(s) > 0, (x in s) == (x == s[0] or x in s[1:]))


@lemma(props=["C03"], types=dict(l=Blocks, b=CodeBlockT, x=CodeBlockT), name="any-overlap-append")
def any_append(l, b, x):
    return (len(l) == 0 or (ih(any_append, l[1:], b, x) and use(append_head_tail, l, b))) and \
        any(overlap(x, k) for k in l + [b]) == (any(overlap(x, k) for k in l) or overlap(x, b))


@lemma(props=["C03"], types=dict(s=Blocks, kept=Blocks, x=CodeBlockT), name="greedy-keeps-only-input-blocks")
def greedy_members(s, kept, x):
    """Sub-list: whatever is returned was already kept or is one of the scanned blocks."""
    reveal(greedy, s, kept)
    return (len(s) == 0 or (ih(greedy_members, s[1:], kept, x) and ih(greedy_members, s[1:], kept + [s[0]], x))) and \
        implies(x in greedy(s, kept), x in kept or x in s)


@lemma(props=["C03"], types=dict(s=Blocks, kept=Blocks, x=CodeBlockT), name="greedy-never-forgets")
def greedy_extends(s, kept, x):
    """What is kept stays kept, and what overlaps a kept block still overlaps a block of the final selection."""
    reveal(greedy, s, kept)
    return (len(s) == 0 or (ih(greedy_extends, s[1:], kept, x) and ih(greedy_extends, s[1:], kept + [s[0]], x)
                            and use(any_append, kept, s[0], x))) and \
        implies(x in kept, x in greedy(s, kept)) and \
        implies(any(overlap(x, k) for k in kept), any(overlap(x, k) for k in greedy(s, kept)))


@lemma(props=["C03"], types=dict(s=Blocks, kept=Blocks, x=CodeBlockT), name="greedy-is-maximal")
def greedy_maximal(s, kept, x):
    """Every scanned block is kept or overlaps a kept block (nothing is dropped without a covering block)."""
    reveal(greedy, s, kept)
    return (len(s) == 0 or (ih(greedy_maximal, s[1:], kept, x) and ih(greedy_maximal, s[1:], kept + [s[0]], x)
                            and use(greedy_extends, s[1:], kept, s[0])
                            and use(greedy_extends, s[1:], kept + [s[0]], s[0])
                            and use(member_head_tail, s, x))) and \
        implies(x in s, x in greedy(s, kept) or any(overlap(x, k) for k in greedy(s, kept)))


@opaque
def free(l: Blocks) -> Bool:
    """Pairwise non-overlapping: no block overlaps a later one (overlap is symmetric)."""
    return len(l) == 0 or (not any(overlap(l[0], k) for k in l[1:]) and free(l[1:]))


@lemma(props=["C03"], types=dict(l=Blocks, b=CodeBlockT), name="free-append")
def free_append(l, b):
    reveal(free, l)
    reveal(free, l + [b])
    reveal(free, [b])
    return (len(l) == 0 or (ih(free_append, l[1:], b) and use(any_append, l[1:], b, l[0])
                            and use(append_head_tail, l, b))) and \
        implies(free(l) and not any(overlap(b, k) for k in l), free(l + [b]))


@lemma(props=["C03"], types=dict(s=Blocks, kept=Blocks), name="greedy-selection-is-pairwise-non-overlapping")
def greedy_free(s, kept):
    reveal(greedy, s, kept)
    return (len(s) == 0 or (ih(greedy_free, s[1:], kept) and ih(greedy_free, s[1:], kept + [s[0]])
                            and use(free_append, kept, s[0]))) and \
        implies(free(kept), free(greedy(s, kept)))


@lemma(props=["C03"], types=dict(file_blocks=Blocks, x=CodeBlockT), name="per-file-dedup-sound-and-maximal")
def per_file_dedup(file_blocks, x):
    """Property: the blocks kept for one file are input blocks, pairwise non-overlapping, and every dropped input
    block overlaps a kept one (so it is covered by the kept block's violation)."""
    r = call(D + "_remove_overlaps_from_file", None, file_blocks)
    use(greedy_members, sorted(file_blocks, key=lambda b: b.start_line), [], x)
    use(greedy_maximal, sorted(file_blocks, key=lambda b: b.start_line), [], x)
    use(greedy_free, sorted(file_blocks, key=lambda b: b.start_line), [])
    reveal(free, [])
    return implies(x in r, x in file_blocks) and free(r) and \
        implies(x in file_blocks, x in r or any(overlap(x, k) for k in r))


# =================================================================== violation-level filter (violation_filter.py)
from pyvc.api import parses_as_int  # noqa: E402

Violations = SeqOf(ViolationT)
FilterT = Rec("ViolationFilter", cls="src/linters/dry/violation_filter.py::ViolationFilter",
              pycls="src.linters.dry.violation_filter:ViolationFilter")


def count_text(message):
    """The text between the first '(' and the first ' lines' of a DRY message: "Duplicate code (N lines, ..."."""
    return message[message.find("(") + 1: message.find(" lines")]


@opaque
def line_count_of(message: Str, default: Int) -> Int:
    """Line count parsed back from a violation message; `default` when the message has no parsable count."""
    return int(count_text(message)) if "(" in message and " lines" in message and parses_as_int(count_text(message)) \
        else default


@contract(VFI + "_extract_line_count", props=["C03"], types=dict(message=Str, start=Int, end=Int), returns=Int)
class FilterExtractLineCount:
    def reveals(message):
        return reveal(line_count_of, message, 5)

    def value(message):
        return line_count_of(message, 5)


def voverlap(v1, v2):
    """What ViolationFilter._overlaps computes: v1 starts before v2's start plus the line count of V1 (sic)."""
    return (v1.line or 0) < (v2.line or 0) + line_count_of(v1.message, 5)


@contract(VFI + "_overlaps", props=["C03"], types=dict(v1=ViolationT, v2=ViolationT), returns=Bool)
class FilterOverlaps:
    def value(v1, v2):
        return voverlap(v1, v2)


@contract(VFI + "_overlaps_any", props=["C03"], types=dict(violation=ViolationT, kept_violations=Violations), returns=Bool)
class FilterOverlapsAny:
    def value(violation, kept_violations):
        return any(voverlap(violation, kept) for kept in kept_violations)


@opaque
def vgreedy(s: Violations, kept: Violations) -> Violations:
    if len(s) == 0:
        return kept
    if any(voverlap(s[0], k) for k in kept):
        return vgreedy(s[1:], kept)
    return vgreedy(s[1:], kept + [s[0]])


@contract(VFI + "filter_overlapping", props=["C03"],
          types=dict(sorted_violations=Violations, kept=Violations, violation=ViolationT), returns=Violations)
class FilterOverlapping:
    def reveals(sorted_violations):
        return reveal(vgreedy, sorted_violations, [])

    def value(sorted_violations):
        return vgreedy(sorted_violations, [])

    def inv0(sorted_violations, kept, rest):
        return reveal(vgreedy, rest, kept) and vgreedy(sorted_violations, []) == vgreedy(rest, kept)


def vcount(v):
    return line_count_of(v.message, 5)


def vrange_intersect(a, b):
    """The reported line ranges [line, line + line_count - 1] of two violations share a line."""
    return ranges_intersect(a.line, a.line + vcount(a) - 1, b.line, b.line + vcount(b) - 1)


def dry_violation(line, count, path):
    """A violation as DRYViolationBuilder writes it (message format of _build_message)."""
    return mk(ViolationT, rule_id="dry.duplicate-code", file_path=path, line=line, column=1,
              message=f"Duplicate code ({count} lines, 2 occurrences)", severity="error", suggestion=None)


@lemma(props=["C03"], types=dict(la=Int, ca=Int, lb=Int, cb=Int), name="violation-filter-drops-only-covered")
def violation_filter_covered(la, ca, lb, cb):
    """Property (needed for 'every occurrence is covered by a violation'), smallest instance: of two violations of
    one file, sorted by line, reporting ca lines from la and cb lines from lb, the second one may be dropped only if its
    line RANGE [lb, lb+cb-1] intersects the range [la, la+ca-1] of the first (kept) one.
    EXPECTED TO FAIL: known finding C03-violation-overlap-length (_overlaps measures the kept block with cb)."""
    if not (1 <= la and la <= lb and ca >= 1 and cb >= 1 and ca < 100 and cb < 100):
        return True
    a = dry_violation(la, ca, "f.py")
    b = dry_violation(lb, cb, "f.py")
    r = call(VFI + "filter_overlapping", mk(FilterT), [a, b])
    reveal(vgreedy, [a, b], [])
    reveal(vgreedy, [b], [a])
    reveal(vgreedy, [], [a])
    reveal(vgreedy, [], [a, b])
    reveal(line_count_of, a.message, 5)
    reveal(line_count_of, b.message, 5)
    return len(r) == 2 or ranges_intersect(la, la + ca - 1, lb, lb + cb - 1)


@lemma(props=["C03"], types=dict(a=ViolationT, b=ViolationT), name="violation-filter-drops-only-covered-adjusted")
def violation_filter_covered_adjusted(a, b):
    """Finding-adjusted: the second violation is dropped exactly when it starts before first.line + ITS OWN line count;
    whenever the kept block is at least as long as the dropped one this does imply that the ranges intersect. Any other
    deviation (dropping a violation that starts later, keeping an overlapping one) is still a violation."""
    if not (1 <= a.line and a.line <= b.line and vcount(a) >= 1 and vcount(b) >= 1):
        return True
    r = call(VFI + "filter_overlapping", mk(FilterT), [a, b])
    reveal(vgreedy, [a, b], [])
    reveal(vgreedy, [b], [a])
    reveal(vgreedy, [], [a])
    reveal(vgreedy, [], [a, b])
    return r[0] == a and len(r) == (1 if b.line < a.line + vcount(b) else 2) and implies(len(r) == 2, r[1] == b) \
        and implies(len(r) == 1 and vcount(a) >= vcount(b), vrange_intersect(a, b))


# ---- general (any length) facts about the violation-level filter, with the relation the code uses
@lemma(props=["C03"], types=dict(l=Violations, b=ViolationT), name="v-append-head-tail")
def v_append_head_tail(l, b):
    return implies(len(l) > 0, (l + [b])[0] == l[0] and (l + [b])[1:] == l[1:] + [b])


@lemma(props=["C03"], types=dict(s=Violations, x=ViolationT), name="v-member-head-tail")
def v_member_head_tail(s, x):
    return implies(len(s) > 0, (x in s) == (x == s[0] or x in s[1:]))


@lemma(props=["C03"], types=dict(l=Violations, b=ViolationT, x=ViolationT), name="v-any-overlap-append")
def v_any_append(l, b, x):
    return (len(l) == 0 or (ih(v_any_append, l[1:], b, x) and use(v_append_head_tail, l, b))) and \
        any(voverlap(x, k) for k in l + [b]) == (any(voverlap(x, k) for k in l) or voverlap(x, b))


@lemma(props=["C03"], types=dict(s=Violations, kept=Violations, x=ViolationT), name="vfilter-keeps-only-input-violations")
def vgreedy_members(s, kept, x):
    reveal(vgreedy, s, kept)
    return (len(s) == 0 or (ih(vgreedy_members, s[1:], kept, x) and ih(vgreedy_members, s[1:], kept + [s[0]], x))) and \
        implies(x in vgreedy(s, kept), x in kept or x in s)


@lemma(props=["C03"], types=dict(s=Violations, kept=Violations, x=ViolationT), name="vfilter-never-forgets")
def vgreedy_extends(s, kept, x):
    reveal(vgreedy, s, kept)
    return (len(s) == 0 or (ih(vgreedy_extends, s[1:], kept, x) and ih(vgreedy_extends, s[1:], kept + [s[0]], x)
                            and use(v_any_append, kept, s[0], x))) and \
        implies(x in kept, x in vgreedy(s, kept)) and \
        implies(any(voverlap(x, k) for k in kept), any(voverlap(x, k) for k in vgreedy(s, kept)))


@lemma(props=["C03"], types=dict(s=Violations, kept=Violations, x=ViolationT), name="vfilter-is-maximal-for-the-code-relation")
def vgreedy_maximal(s, kept, x):
    reveal(vgreedy, s, kept)
    return (len(s) == 0 or (ih(vgreedy_maximal, s[1:], kept, x) and ih(vgreedy_maximal, s[1:], kept + [s[0]], x)
                            and use(vgreedy_extends, s[1:], kept, s[0])
                            and use(vgreedy_extends, s[1:], kept + [s[0]], s[0])
                            and use(v_member_head_tail, s, x))) and \
        implies(x in s, x in vgreedy(s, kept) or any(voverlap(x, k) for k in vgreedy(s, kept)))


@lemma(props=["C03"], types=dict(vs=Violations, x=ViolationT), name="violation-filter-sound-and-code-maximal")
def violation_filter_general(vs, x):
    """Finding-adjusted, any length: only input violations are returned, and a violation is dropped only if it starts
    before (kept.line + its own line count) for some kept violation -- the relation of finding
    C03-violation-overlap-length; nothing else is ever dropped."""
    r = call(VFI + "filter_overlapping", mk(FilterT), vs)
    use(vgreedy_members, vs, [], x)
    use(vgreedy_maximal, vs, [], x)
    return implies(x in r, x in vs) and implies(x in vs, x in r or any(voverlap(x, k) for k in r))


# =================================================================== grouping by file and the two public entry points
from pyvc.api import Assoc, uf  # noqa: E402

BG = "src/linters/dry/block_grouper.py::BlockGrouper."
BlockGroups = Assoc(Blocks, keyty=PathT)        # dict[Path, list[CodeBlock]] in insertion order
ViolationGroups = Assoc(Violations)             # dict[str, list[Violation]]
GrouperT = Rec("BlockGrouper", cls="src/linters/dry/block_grouper.py::BlockGrouper",
               pycls="src.linters.dry.block_grouper:BlockGrouper")
DedupT = Rec("ViolationDeduplicator", cls="src/linters/dry/deduplicator.py::ViolationDeduplicator",
             pycls="src.linters.dry.deduplicator:ViolationDeduplicator", _grouper=GrouperT, _filter=FilterT)


def _group_blocks_native(blocks):
    out = {}
    for b in blocks:
        out.setdefault(b.file_path, []).append(b)
    return out


def _group_violations_native(violations):
    out = {}
    for v in violations:
        out.setdefault(v.file_path, []).append(v)
    return out


block_groups = uf("dry_block_groups", [Blocks], BlockGroups, concrete=_group_blocks_native)
violation_groups = uf("dry_violation_groups", [Violations], ViolationGroups, concrete=_group_violations_native)


@contract(BG + "group_blocks_by_file", props=["C03"], types=dict(self=GrouperT, blocks=Blocks), returns=BlockGroups,
          assumed="plumbing: builds a dict of lists keyed by Path objects (in-place append through a dict lookup; dicts with "
                  "non-string keys and aliased list values are outside the engine). Assumed: one entry per distinct "
                  "file_path; the entry of a path is the order-preserving sub-list of the blocks with that path")
class GroupBlocksByFile:
    def value(blocks):
        return block_groups(blocks)

    def ensures_each_group_is_the_blocks_of_its_file(blocks, result):
        return all(grp == [b for b in blocks if b.file_path == key] for key, grp in result)

    def ensures_every_file_has_a_group(blocks, result):
        return all(any(key == b.file_path for key, grp in result) for b in blocks)


@contract(BG + "group_violations_by_file", props=["C03"], types=dict(self=GrouperT, violations=Violations),
          returns=ViolationGroups,
          assumed="plumbing: dict of lists keyed by file path, in-place append through a dict lookup (aliased list values). "
                  "Assumed: one entry per distinct file_path holding the order-preserving sub-list of its violations")
class GroupViolationsByFile:
    def value(violations):
        return violation_groups(violations)

    def ensures_each_group_is_the_violations_of_its_file(violations, result):
        return all(grp == [v for v in violations if v.file_path == key] for key, grp in result)

    def ensures_every_file_has_a_group(violations, result):
        return all(any(key == v.file_path for key, grp in result) for v in violations)


def per_file(file_blocks):
    return greedy(sorted(file_blocks, key=lambda b: b.start_line), [])


@opaque
def dedup_groups(gs: SeqOf(Blocks)) -> Blocks:
    """Concatenation, group by group, of the per-file selections."""
    if len(gs) == 0:
        return []
    return per_file(gs[0]) + dedup_groups(gs[1:])


@contract(D + "deduplicate_blocks", props=["C03"],
          types=dict(self=DedupT, blocks=Blocks, grouped=BlockGroups, deduplicated=Blocks, file_blocks=Blocks, kept=Blocks),
          returns=Blocks)
class DeduplicateBlocks:
    def reveals(blocks):
        return reveal(dedup_groups, [])

    def value(blocks):
        return dedup_groups(list(block_groups(blocks).values())) if len(blocks) > 0 else []

    def inv0(grouped, deduplicated, rest):
        return reveal(dedup_groups, rest) and dedup_groups(list(grouped.values())) == deduplicated + dedup_groups(rest)


def per_file_violations(file_violations):
    return vgreedy(sorted(file_violations, key=lambda v: v.line or 0), [])


@opaque
def vdedup_groups(gs: SeqOf(Violations)) -> Violations:
    if len(gs) == 0:
        return []
    return per_file_violations(gs[0]) + vdedup_groups(gs[1:])


@contract(D + "deduplicate_violations", props=["C03"],
          types=dict(self=DedupT, violations=Violations, grouped=ViolationGroups, deduplicated=Violations,
                     file_violations=Violations, sorted_violations=Violations, kept=Violations),
          returns=Violations)
class DeduplicateViolations:
    def reveals(violations):
        return reveal(vdedup_groups, [])

    def value(violations):
        return vdedup_groups(list(violation_groups(violations).values())) if len(violations) > 0 else []

    def inv0(grouped, deduplicated, rest):
        return reveal(vdedup_groups, rest) and vdedup_groups(list(grouped.values())) == deduplicated + vdedup_groups(rest)
