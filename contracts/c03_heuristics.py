"""C03 (part 4) -- DRY linter, TypeScript/JavaScript statement classification (typescript_statement_detector.py).

What counts as an "ordinary statement" window is decided by heuristics; DESIGN.md 3/C03 left them assumed. The
TypeScript side is small enough to be proved:
  * the interface/type range finder (a brace-counting state machine over the raw lines): a declaration starts on a line
    whose stripped text starts with "interface " / "type " and contains "{", and ends on the first line (possibly the
    same one) on which the running brace balance is back to 0; windows overlapping such a range are not ordinary code,
    everything else is (property text: code that merely FOLLOWS a declaration is ordinary);
  * the single-statement patterns over the tree-sitter tree (code-derived helper specs, one per matcher).
The tree walk itself (_walk_nodes is a generator) and the Python detector / block filters stay assumed."""
from pyvc.api import (contract, lemma, Int, Bool, Str, SeqOf, TupleOf, Opt, Rec, Any, implies, call, ih, opaque, reveal, use, mk)
from contracts._nodes import TSNode

TSD = "src/linters/dry/typescript_statement_detector.py::"

RangeT = TupleOf(Int, Int)
Ranges = SeqOf(RangeT)
StateT = Rec("iface_state", as_dict=True, in_interface=Bool, start_line=Int, brace_count=Int)


# ------------------------------------------------------------------ interface / type declaration ranges
def is_start(stripped):
    return stripped.startswith(("interface ", "type ")) and "{" in stripped


def braces(stripped):
    """Net number of braces opened on the line."""
    return stripped.count("{") - stripped.count("}")


@contract(TSD + "_is_interface_start", props=["C03"], types=dict(stripped=Str), returns=Bool)
class IsInterfaceStart:
    def value(stripped):
        return is_start(stripped)


@contract(TSD + "_handle_interface_start", props=["C03"],
          types=dict(stripped=Str, line_num=Int, state=StateT, ranges=Ranges), modifies=["state", "ranges"])
class HandleInterfaceStart:
    def ensures_state(stripped, line_num, state):
        # the declaration stays open exactly when its first line leaves braces unbalanced
        return state["in_interface"] == (braces(stripped) != 0) and state["start_line"] == line_num \
            and state["brace_count"] == braces(stripped)

    def ensures_one_line_declaration_closes_on_its_own_line(stripped, line_num, ranges, old):
        return ranges == (old.ranges + [(line_num, line_num)] if braces(stripped) == 0 else old.ranges)


@contract(TSD + "_handle_interface_continuation", props=["C03"],
          types=dict(stripped=Str, line_num=Int, state=StateT, ranges=Ranges), modifies=["state", "ranges"])
class HandleInterfaceContinuation:
    def ensures_state(stripped, line_num, state, old):
        return state["brace_count"] == old.state["brace_count"] + braces(stripped) \
            and state["start_line"] == old.state["start_line"] \
            and state["in_interface"] == (old.state["in_interface"] and state["brace_count"] != 0)

    def ensures_closes_when_balanced(stripped, line_num, state, ranges, old):
        return ranges == (old.ranges + [(old.state["start_line"], line_num)]
                          if old.state["brace_count"] + braces(stripped) == 0 else old.ranges)


def step_inside(stripped, inside, count):
    """in_interface after the line."""
    return (braces(stripped) != 0) if is_start(stripped) else (inside and count + braces(stripped) != 0)


def step_start(stripped, k, start):
    return k if is_start(stripped) else start


def step_count(stripped, inside, count):
    return braces(stripped) if is_start(stripped) else (count + braces(stripped) if inside else count)


def step_emits(stripped, inside, count):
    """The line closes a declaration (opened on it, or earlier)."""
    return (braces(stripped) == 0) if is_start(stripped) else (inside and count + braces(stripped) == 0)


@contract(TSD + "_process_line_for_interface", props=["C03"],
          types=dict(stripped=Str, line_num=Int, state=StateT, ranges=Ranges), modifies=["state", "ranges"])
class ProcessLineForInterface:
    def ensures_state(stripped, line_num, state, old):
        return state["in_interface"] == step_inside(stripped, old.state["in_interface"], old.state["brace_count"]) \
            and state["start_line"] == step_start(stripped, line_num, old.state["start_line"]) \
            and state["brace_count"] == step_count(stripped, old.state["in_interface"], old.state["brace_count"])

    def ensures_ranges(stripped, line_num, ranges, old):
        return ranges == (old.ranges + [(step_start(stripped, line_num, old.state["start_line"]), line_num)]
                          if step_emits(stripped, old.state["in_interface"], old.state["brace_count"]) else old.ranges)


@opaque
def ranges_from(lines: SeqOf(Str), k: Int, inside: Bool, start: Int, count: Int) -> Ranges:
    """Declaration ranges found from line number k on, given the machine state before line k."""
    if len(lines) == 0:
        return []
    if step_emits(lines[0].strip(), inside, count):
        return [(step_start(lines[0].strip(), k, start), k)] + \
            ranges_from(lines[1:], k + 1, step_inside(lines[0].strip(), inside, count), step_start(lines[0].strip(), k, start),
                        step_count(lines[0].strip(), inside, count))
    return ranges_from(lines[1:], k + 1, step_inside(lines[0].strip(), inside, count), step_start(lines[0].strip(), k, start),
                       step_count(lines[0].strip(), inside, count))


def iface_ranges(content):
    return ranges_from(content.split("\n"), 1, False, 0, 0)


@contract(TSD + "_find_interface_ranges", props=["C03"],
          types=dict(content=Str, ranges=Ranges, lines=SeqOf(Str), state=StateT, i=Int, line=Str, stripped=Str),
          returns=Ranges)
class FindInterfaceRanges:
    def value(content):
        return iface_ranges(content)

    def inv0(content, lines, ranges, state, rest, old):
        return content == old.content and lines == content.split("\n") and len(rest) <= len(lines) and \
            reveal(ranges_from, rest, len(lines) - len(rest) + 1, state["in_interface"], state["start_line"], state["brace_count"]) and \
            ranges_from(lines, 1, False, 0, 0) == ranges + ranges_from(rest, len(lines) - len(rest) + 1, state["in_interface"],
                                                                       state["start_line"], state["brace_count"])


def hits_range(start, end, interface_ranges):
    return any(start <= if_end and end >= if_start for if_start, if_end in interface_ranges)


@contract(TSD + "_overlaps_interface", props=["C03"], types=dict(start=Int, end=Int, interface_ranges=Ranges), returns=Bool)
class OverlapsInterface:
    def value(start, end, interface_ranges):
        return hits_range(start, end, interface_ranges)


@contract(TSD + "should_include_block", props=["C03"], types=dict(content=Str, start_line=Int, end_line=Int), returns=Bool)
class ShouldIncludeBlock:
    """A window is kept iff it shares no line with an interface / type declaration range."""
    def value(content, start_line, end_line):
        return not hits_range(start_line, end_line, iface_ranges(content))


@lemma(props=["C03"], types=dict(lines=SeqOf(Str), k=Int, start=Int), name="no-declaration-no-range")
def no_declaration_no_range(lines, k, start):
    """Pure: outside a declaration, lines that do not start one produce no range."""
    reveal(ranges_from, lines, k, False, start, 0)
    return (len(lines) == 0 or ih(no_declaration_no_range, lines[1:], k + 1, start)) and \
        implies(all(not is_start(x.strip()) for x in lines), ranges_from(lines, k, False, start, 0) == [])


@lemma(props=["C03"], types=dict(content=Str, decl=Str, tail=SeqOf(Str), s=Int, e=Int),
       name="code-after-a-one-line-declaration-is-ordinary")
def code_after_one_line_declaration(content, decl, tail, s, e):
    """Property: a brace-balanced one-line `type X = {...}` / `interface X {...}` on line 1 excludes line 1 only; every
    window that lies after it (in a file without further declarations) is kept as ordinary code."""
    if not (content.split("\n") == [decl] + tail and is_start(decl.strip()) and braces(decl.strip()) == 0
            and all(not is_start(x.strip()) for x in tail) and 2 <= s and s <= e):
        return True
    keep = call(TSD + "should_include_block", content, s, e)
    reveal(ranges_from, [decl] + tail, 1, False, 0, 0)
    use(no_declaration_no_range, tail, 2, 1)
    return keep and not call(TSD + "should_include_block", content, 1, e)


# ------------------------------------------------------------------ single-statement patterns over the tree-sitter tree
SIMPLE_TYPES = ("decorator", "object", "member_expression", "as_expression", "array_pattern")
FUNCTION_TYPES = ("arrow_function", "function", "function_expression")
JSX_TYPES = ("jsx_opening_element", "jsx_self_closing_element")
METHOD_TYPES = ("method_definition", "function_declaration")


def row0(n):
    return n.start_point[0]


def row1(n):
    return n.end_point[0]


def contains_rows(n, a, b):
    return row0(n) <= a and row1(n) >= b


@contract(TSD + "_matches_simple_container_pattern", props=["C03"], types=dict(node=TSNode, contains=Bool), returns=Bool)
class MatchesSimpleContainer:
    def requires(node):
        return node is not None

    def value(node, contains):
        return node.type in SIMPLE_TYPES and contains


@contract(TSD + "_matches_call_expression_pattern", props=["C03"],
          types=dict(node=TSNode, ts_start=Int, ts_end=Int, contains=Bool), returns=Bool)
class MatchesCallExpression:
    def requires(node):
        return node is not None

    def value(node, ts_start, ts_end, contains):
        # a multi-line call that the window starts inside, or any call that contains the whole window
        return node.type == "call_expression" and ((row0(node) < row1(node) and row0(node) <= ts_start and ts_start <= row1(node))
                                                   or contains)


def has_function_body(n: TSNode) -> Bool:
    return any(c.type in FUNCTION_TYPES or has_function_body(c) for c in n.children)


@contract(TSD + "_contains_function_body", props=["C03"], types=dict(node=TSNode, child=TSNode), returns=Bool)
class ContainsFunctionBody:
    def requires(node):
        return node is not None

    def value(node):
        return has_function_body(node)

    def inv0(node, rest):
        return has_function_body(node) == any(c.type in FUNCTION_TYPES or has_function_body(c) for c in rest)


@contract(TSD + "_matches_declaration_pattern", props=["C03"], types=dict(node=TSNode, contains=Bool), returns=Bool)
class MatchesDeclaration:
    def requires(node):
        return node is not None

    def value(node, contains):
        return node.type == "lexical_declaration" and contains and not has_function_body(node)


@contract(TSD + "_matches_jsx_pattern", props=["C03"], types=dict(node=TSNode, contains=Bool), returns=Bool)
class MatchesJsx:
    def requires(node):
        return node is not None

    def value(node, contains):
        return node.type in JSX_TYPES and contains


def first_method_row(s: SeqOf(TSNode)) -> Opt(Int):
    if len(s) == 0:
        return None
    if s[0].type in METHOD_TYPES:
        return s[0].start_point[0]
    return first_method_row(s[1:])


@contract(TSD + "_find_first_method_line", props=["C03"], types=dict(class_body=TSNode, child=TSNode), returns=Opt(Int))
class FindFirstMethodLine:
    def requires(class_body):
        return class_body is not None

    def value(class_body):
        return first_method_row(class_body.children)

    def inv0(class_body, rest):
        return first_method_row(class_body.children) == first_method_row(rest)


def in_field_area(class_body, ts_start, ts_end):
    return (row0(class_body) <= ts_start and row1(class_body) >= ts_end) if first_method_row(class_body.children) is None \
        else (row0(class_body) <= ts_start and ts_end < first_method_row(class_body.children))


@contract(TSD + "_is_in_class_field_area", props=["C03"], types=dict(class_body=TSNode, ts_start=Int, ts_end=Int), returns=Bool)
class IsInClassFieldArea:
    def requires(class_body):
        return class_body is not None

    def value(class_body, ts_start, ts_end):
        return in_field_area(class_body, ts_start, ts_end)


@contract(TSD + "_matches_class_body_pattern", props=["C03"], types=dict(node=TSNode, ts_start=Int, ts_end=Int), returns=Bool)
class MatchesClassBody:
    def requires(node):
        return node is not None

    def value(node, ts_start, ts_end):
        return node.type == "class_body" and in_field_area(node, ts_start, ts_end)


def single_statement_pattern(node, ts_start, ts_end):
    return (node.type in SIMPLE_TYPES and contains_rows(node, ts_start, ts_end)) \
        or (node.type == "call_expression" and ((row0(node) < row1(node) and row0(node) <= ts_start and ts_start <= row1(node))
                                                or contains_rows(node, ts_start, ts_end))) \
        or (node.type == "lexical_declaration" and contains_rows(node, ts_start, ts_end) and not has_function_body(node)) \
        or (node.type in JSX_TYPES and contains_rows(node, ts_start, ts_end)) \
        or (node.type == "class_body" and in_field_area(node, ts_start, ts_end))


@contract(TSD + "_is_single_statement_pattern", props=["C03"], types=dict(node=TSNode, ts_start=Int, ts_end=Int), returns=Bool)
class IsSingleStatementPattern:
    def requires(node):
        return node is not None

    def value(node, ts_start, ts_end):
        return single_statement_pattern(node, ts_start, ts_end)


def node_matches(node, ts_start, ts_end):
    return not (row1(node) < ts_start or row0(node) > ts_end) and single_statement_pattern(node, ts_start, ts_end)


@contract(TSD + "_node_overlaps_and_matches", props=["C03"], types=dict(node=TSNode, ts_start=Int, ts_end=Int), returns=Bool)
class NodeOverlapsAndMatches:
    def requires(node):
        return node is not None

    def value(node, ts_start, ts_end):
        return node_matches(node, ts_start, ts_end)

    def ensures_only_overlapping_nodes_match(node, ts_start, ts_end, result):
        # a node that shares no row with the window never makes the window a "single statement"
        return implies(row1(node) < ts_start or row0(node) > ts_end, not result)


from pyvc.api import uf  # noqa: E402


def _walk_native(root):
    out, todo = [], [root]
    while todo:
        n = todo.pop()
        out.append(n)
        todo.extend(reversed(list(n.children)))
    return out


ts_all_nodes = uf("dry_ts_all_nodes", [TSNode], SeqOf(TSNode), concrete=_walk_native)


@contract(TSD + "_walk_nodes", props=["C03"], types=dict(node=TSNode), returns=SeqOf(TSNode),
          assumed="recursive generator (yield / yield from are outside the engine): trusted to yield the node and all its "
                  "descendants in pre-order, each once")
class WalkNodes:
    def value(node):
        return ts_all_nodes(node)


@contract(TSD + "_check_overlapping_nodes", props=["C03"], types=dict(root=TSNode, start_line=Int, end_line=Int), returns=Bool)
class CheckOverlappingNodes:
    """1-based window lines are converted to 0-based parser rows; the window is a 'single statement' iff SOME node of the
    tree overlaps it and matches one of the patterns."""
    def requires(root):
        return root is not None

    def value(root, start_line, end_line):
        return any(node_matches(node, start_line - 1, end_line - 1) for node in ts_all_nodes(root))
