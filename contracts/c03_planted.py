"""C03 (part 5) -- bounded native differential check at the property's observation point.

The property quantifies over "all multi-file Python/TypeScript/JavaScript projects built from statement pools with planted
duplicate runs of any length, position, multiplicity, indentation and interleaved comments/blank lines, and all
min_duplicate_lines / min_occurrences values". This check draws such projects (seeded), runs the REAL linter through its
public API (`Linter(config_file, project_root).lint(dir)`, finalize phase included) and compares the reported violations
with what the PROPERTY TEXT demands -- computed from the generator's own knowledge of where it planted what, never from
the implementation:
  complete   every place of a run planted in >= min_occurrences non-overlapping places is covered by a violation;
  sound      the reported block and every "Also found in" location are line-for-line identical after removing
             comments, blank lines and whitespace differences;
  mutual     every named location is itself covered by a violation of that file;
  count      the occurrence count equals the number of places the run was planted in;
  silent     a project whose runs all stay below the threshold (one place, too few places, or a self-overlapping
             repeated run that occupies a single non-overlapping place) produces no DRY violation.
It is labelled BOUNDED: it complements the contracts on the parts that are only assumed there (statement-classification
heuristics, SQLite storage, parsers) and on the composition of the whole pipeline."""
import os
import random
import re
import sys
import tempfile

from pyvc.api import custom


# ------------------------------------------------------------------ generator
def _stmt(lang, rng, uid):
    """An ordinary statement, unique per uid (so that only planted runs are shared)."""
    kind = rng.randrange(4)
    if lang == "python":
        return [f"value_{uid} = compute_{uid}(alpha, {uid})", f"total_{uid} = merge_{uid}(beta, gamma) + {uid}",
                f"register_{uid}(alpha, beta)", f"state_{uid} = beta * {uid} - alpha"][kind]
    return [f"const value_{uid} = compute_{uid}(alpha, {uid});", f"let total_{uid} = merge_{uid}(beta, gamma) + {uid};",
            f"register_{uid}(alpha, beta);", f"const state_{uid} = beta * {uid} - alpha;"][kind]


def _comment(lang, rng, uid):
    return (f"# note {uid}" if lang == "python" else f"// note {uid}")


class _Project:
    def __init__(self, rng, case, w=None, min_occ=None):
        self.rng = rng
        self.uid = case * 1000
        self.lang = rng.choice(["python", "python", "typescript", "javascript"])
        self.ext = {"python": ".py", "typescript": ".ts", "javascript": ".js"}[self.lang]
        self.w = w or rng.choice([3, 3, 4])
        self.min_occ = min_occ or rng.choice([2, 2, 2, 3])
        self.files = {}      # name -> list of raw lines
        self.places = []     # (run id, file name, first line, last line)  1-based original line numbers
        self.run_places = {}

    def fresh(self):
        self.uid += 1
        return self.uid

    def header(self, lines):
        r = self.rng
        if self.lang == "python":
            for _ in range(r.randrange(0, 3)):
                lines.append(f"import module_{self.fresh()}")
            if r.random() < 0.3:
                lines.append("")
            return
        k = r.randrange(5)
        u = self.fresh()
        if k == 0 and self.lang == "typescript":
            lines.append(f"type Options{u} = {{ retries: number; label{u}: string }};")  # one-line, brace-balanced
        elif k == 1 and self.lang == "typescript":
            lines.append(f"interface Shape{u} {{ width{u}: number }}")
        elif k == 2 and self.lang == "typescript":
            lines.extend([f"interface Record{u} {{", f"  id{u}: number;", f"  name{u}: string;", "}"])
        elif k == 3:
            lines.append(f"import {{ helper{u} }} from './helper{u}';")
        if r.random() < 0.4:
            lines.append("")  # sometimes a blank line separates the header from the code, sometimes NOT

    def odd_separator_line(self, lines):
        """A line holding a character that str.splitlines() / "smart" line splitting treats as a line boundary although
        it does not end a physical line (form feed page break, VT, FS/GS/RS, NEL, LS, PS). Only in comments or as a blank
        page-break line, so the program is unchanged; every line number below must still be the physical one."""
        r = self.rng
        u = self.fresh()
        if self.lang == "python":
            lines.append(r.choice(["\x0c", f"# section {u} \x0c next", f"# nel\x85 ls\u2028 ps\u2029 {u}", f"# vt\x0b fs\x1c gs\x1d rs\x1e {u}"]))
        else:
            lines.append(r.choice([f"// section {u} \x0c next", f"// vt\x0b page {u}"]))

    def open_function(self, lines):
        u = self.fresh()
        if self.lang == "python":
            lines.append(f"def function_{u}(alpha, beta, gamma):")
        elif self.lang == "typescript":
            lines.append(f"function function_{u}(alpha: number, beta: number, gamma: number): number {{")
        else:
            lines.append(f"function function_{u}(alpha, beta, gamma) {{")

    def close_function(self, lines):
        u = self.fresh()
        if self.lang == "python":
            lines.append(f"    return alpha + {u}")
            lines.append("")
        else:
            lines.append(f"  return alpha + {u};")
            lines.append("}")
            lines.append("")

    def plant(self, lines, fname, rid, run):
        """Write one place of a run: same statements, possibly other indentation, trailing comments, and blank /
        comment lines BETWEEN the statements (they are not statements: the run stays consecutive)."""
        r = self.rng
        indent = " " * r.choice([2, 4, 4, 8]) if self.lang != "python" else "    "
        first = last = None
        for i, st in enumerate(run):
            if i and r.random() < 0.25:
                lines.append(r.choice(["", indent + _comment(self.lang, r, self.fresh())]))
            text = indent + st.replace(", ", r.choice([", ", ",  "])) if self.lang != "python" else indent + st
            if r.random() < 0.2:
                text += "  " + _comment(self.lang, r, self.fresh())
            lines.append(text)
            last = len(lines)
            first = first or last
        self.places.append((rid, fname, first, last))
        self.run_places.setdefault(rid, []).append((fname, first, last))

    def filler(self, lines, n):
        indent = "    " if self.lang == "python" else "  "
        for _ in range(n):
            lines.append(indent + _stmt(self.lang, self.rng, self.fresh()))

    def build(self):
        r = self.rng
        nfiles = r.randrange(2, 5)
        names = [f"{r.choice(['mod', 'pkg_a/mod', 'pkg_b/unit'])}_{i}{self.ext}" for i in range(nfiles)]
        if r.random() < 0.4:
            # files with the SAME base name in different directories (helpers.py, index.ts, __init__.py ...): they are
            # different files -- a place in one of them is a place of its own
            base = r.choice(["helpers", "utils", "index", "__init__"])
            dirs = r.sample(["pkg_a", "pkg_b", "pkg_a/sub", "lib"], min(nfiles, r.choice([2, 2, 3])))
            for i, dname in enumerate(dirs):
                names[i] = f"{dname}/{base}{self.ext}"
        runs = []
        for rid in range(r.randrange(1, 3)):
            periodic = r.random() < 0.25
            if periodic:
                st = _stmt(self.lang, r, self.fresh())
                length = r.randrange(self.w + 1, 2 * self.w)          # self-overlapping, but ONE non-overlapping place
                run = [st] * length
            else:
                length = r.randrange(self.w, self.w + 4)
                run = [_stmt(self.lang, r, self.fresh()) for _ in range(length)]
            k = r.choice([1, 2, 2, 3])
            k = min(k, nfiles)
            runs.append((rid, run, periodic, names[:k] if r.random() < 0.5 else r.sample(names, k)))
        for name in names:
            lines = []
            self.header(lines)
            if r.random() < 0.25:
                self.odd_separator_line(lines)
            self.open_function(lines)
            self.filler(lines, r.randrange(1, 4))
            for rid, run, periodic, where in runs:
                if name in where:
                    self.plant(lines, name, rid, run)
                    self.filler(lines, r.randrange(1, 3))   # a unique statement always follows a place
            self.close_function(lines)
            self.files[name] = lines
        self.runs = {rid: (run, periodic) for rid, run, periodic, _ in runs}


# ------------------------------------------------------------------ reference notions (property text)
def _norm(line):
    """Normalisation of the property: drop comments, collapse whitespace."""
    line = line.split("#")[0].split("//")[0]
    return " ".join(line.split())


def _norm_range(lines, start, end):
    return [t for t in (_norm(x) for x in lines[start - 1:end]) if t]


_MSG = re.compile(r"^Duplicate code \((\d+) lines, (\d+) occurrences\)(?:\. Also found in: (.*))?$")
_LOC = re.compile(r"^(.*):(\d+)-(\d+)$")


def _check_project(proj, violations, root):
    """Returns a description of the first deviation from the property, or None."""
    by_file = {}
    parsed = []
    for v in violations:
        m = _MSG.match(v.message)
        if not m:
            return f"unparsable DRY message {v.message!r}"
        rel = os.path.relpath(str(v.file_path), root) if os.path.isabs(str(v.file_path)) else str(v.file_path)
        count, occ = int(m.group(1)), int(m.group(2))
        locs = []
        for part in (m.group(3).split(", ") if m.group(3) else []):
            lm = _LOC.match(part)
            if not lm:
                return f"unparsable location {part!r} in {v.message!r}"
            lp = lm.group(1)
            locs.append((os.path.relpath(lp, root) if os.path.isabs(lp) else lp, int(lm.group(2)), int(lm.group(3))))
        parsed.append((rel, v.line, v.line + count - 1, occ, locs, v.message))
        by_file.setdefault(rel, []).append((v.line, v.line + count - 1))
    reportable = {rid for rid, places in proj.run_places.items()
                  if len(places) >= proj.min_occ}          # places are non-overlapping by construction
    # silent
    if not reportable and parsed:
        return f"no run is planted in >= {proj.min_occ} non-overlapping places, yet reported: {parsed[0][0]}:{parsed[0][1]} {parsed[0][5]}"
    # complete
    for rid in sorted(reportable):
        for fname, first, last in proj.run_places[rid]:
            if not any(a <= last and b >= first for a, b in by_file.get(fname, [])):
                return (f"run {rid} is planted in {len(proj.run_places[rid])} places (min_occurrences {proj.min_occ}) but its "
                        f"occurrence {fname}:{first}-{last} is covered by no violation (violations in that file: {by_file.get(fname, [])})")
    for rel, start, end, occ, locs, message in parsed:
        if rel not in proj.files:
            return f"violation in unknown file {rel}"
        own = _norm_range(proj.files[rel], start, end)
        # names at least one other location
        if not locs:
            return f"{rel}:{start} names no other location: {message}"
        for lf, ls, le in locs:
            if lf not in proj.files:
                return f"{rel}:{start} names unknown file {lf}"
            # sound
            if _norm_range(proj.files[lf], ls, le) != own:
                return f"{rel}:{start}-{end} and the named location {lf}:{ls}-{le} are not identical after normalisation"
            # mutual
            if not any(a <= le and b >= ls for a, b in by_file.get(lf, [])):
                return f"{rel}:{start} names {lf}:{ls}-{le}, which is covered by no violation"
        # count
        hit = {rid for rid, fname, first, last in proj.places if fname == rel and start <= last and end >= first}
        if len(hit) == 1:
            rid = next(iter(hit))
            if rid not in reportable:
                return f"{rel}:{start} reports run {rid}, planted in only {len(proj.run_places[rid])} non-overlapping place(s): {message}"
            if not proj.runs[rid][1] and occ != len(proj.run_places[rid]):
                return f"{rel}:{start} says {occ} occurrences, run {rid} is planted in {len(proj.run_places[rid])} places"
            if occ != len(locs) + 1:
                return f"{rel}:{start} says {occ} occurrences but names {len(locs)} other location(s)"
    return None


def _run_cases(repo, seed, cases):
    """Cases come in groups that share ONE long-lived Linter object and one directory (library / watch-mode use): the
    files of the previous project are removed, the next project is written and linted with the SAME object. Every run
    is judged against its own project only -- a run must not see anything an earlier run stored."""
    from pyvc import native as _native
    os.environ.setdefault("VERIF_REPO", repo)
    _native._ensure_repo_on_path()  # `src` must be the tree under verification, not an editable install of another one
    from src import Linter
    if os.path.realpath(os.path.dirname(sys.modules["src"].__file__)) != os.path.realpath(os.path.join(repo, "src")):
        raise RuntimeError(f"src was imported from {sys.modules['src'].__file__}, not from {repo}")
    from pathlib import Path
    rng = random.Random(seed * 7919 + 3)
    case = 0
    while case < cases:
        group = min(rng.choice([1, 1, 3]), cases - case)
        first = _Project(rng, case + 1)
        with tempfile.TemporaryDirectory() as d:
            cfg = os.path.join(d, ".thailint.yaml")
            with open(cfg, "w") as fh:
                fh.write(f"dry:\n  enabled: true\n  min_duplicate_lines: {first.w}\n  min_occurrences: {first.min_occ}\n  ignore: []\n")
            linter = Linter(config_file=Path(cfg), project_root=Path(d))
            history = []
            for g in range(group):
                proj = first if g == 0 else _Project(rng, case + 1, w=first.w, min_occ=first.min_occ)
                proj.build()
                for root, _dirs, names in os.walk(d):           # the previous project's files are gone
                    for n in names:
                        if n != ".thailint.yaml":
                            os.unlink(os.path.join(root, n))
                for name, lines in proj.files.items():
                    path = os.path.join(d, name)
                    os.makedirs(os.path.dirname(path), exist_ok=True)
                    with open(path, "w", newline="") as fh:
                        fh.write("\n".join(lines) + "\n")
                violations = [v for v in linter.lint(Path(d), rules=["dry.duplicate-code"]) if v.rule_id == "dry.duplicate-code"]
                bad = _check_project(proj, violations, d)
                history.append({n: ls for n, ls in proj.files.items()})
                case += 1
                if bad:
                    where = f"run {g + 1} of {group} on one reused Linter object" if group > 1 else "fresh Linter object"
                    return (f"case {case - 1} ({proj.lang}, min_duplicate_lines {proj.w}, min_occurrences {proj.min_occ}, {where}): {bad}",
                            {"runs_on_this_linter": history}), case
    return None, cases


@custom("dry-planted-duplicates", props=["C03"])
def dry_planted_duplicates(ctx):
    cases = 60 if ctx.get("tier") != "thorough" else 600
    try:
        bad, ran = _run_cases(ctx["repo"], ctx.get("seed", 0), cases)
    except BaseException as e:  # noqa
        import traceback
        return [{"name": "custom:dry-planted-duplicates/reports-match-the-planted-runs", "kind": "bounded", "verdict": "unknown",
                 "note": ("generator / linter run failed: " + traceback.format_exc())[-600:], "tool": "native Linter API",
                 "budget": cases, "cases": 0}]
    return [{"name": "custom:dry-planted-duplicates/reports-match-the-planted-runs", "kind": "bounded",
             "verdict": "refuted" if bad else "passed",
             "note": bad[0] if bad else f"{ran} generated projects: reports complete, sound, mutual, correctly counted, silent below threshold",
             "tool": "native differential check: real Linter API vs the planted runs (property text)", "budget": cases, "cases": ran,
             "witness": {"deviation": bad[0], "files": bad[1]} if bad else None, "witness_confirmed": bool(bad)}]
