"""C03 (part 3) -- DRY linter: message, grouping by hash, mutual references, ignore filters, storage.

src/linters/dry/violation_builder.py, violation_generator.py, duplicate_storage.py, cache.py, cache_query.py,
python_analyzer.py / typescript_analyzer.py (block creation).

Top-level spec (property text): a hash is reported iff its de-duplicated group has at least min_occurrences(language)
members; every member of a reported group gets one violation at its own start line whose message states
line_count = end - start + 1, occurrences = len(group) and "Also found in" = the group minus the member itself
(mutual references); the ignore filters only remove violations. SQLite storage is an ASSUMED contract whose SQL text is
fingerprinted (a changed query string => undecided)."""
from pyvc.api import (contract, lemma, custom, Int, Bool, Str, SeqOf, TupleOf, Opt, Rec, Opaque, Dict, EnumOf, implies, call, ih,
                      opaque, reveal, use, mk, uf)
from contracts._common import ViolationT, PathT, path_str
from contracts.c03_dedup import CodeBlockT, Blocks, Violations, line_count_of, overlap

VB = "src/linters/dry/violation_builder.py::DRYViolationBuilder."
VG = "src/linters/dry/violation_generator.py::ViolationGenerator."

# same SMT sort as ViolationT (an EnumOf field is a string); natively the severity is the real Severity member
DryViolationT = ViolationT.extend(severity=EnumOf("src/core/types.py::Severity", pycls="src.core.types:Severity"))
BuilderT = Rec("DRYViolationBuilder", cls="src/linters/dry/violation_builder.py::DRYViolationBuilder",
               pycls="src.linters.dry.violation_builder:DRYViolationBuilder")


# ------------------------------------------------------------------ message
def same_place(d, block):
    """Same occurrence: same file and same start line (blocks of one de-duplicated group differ in one of them)."""
    return d.file_path == block.file_path and d.start_line == block.start_line


def others(block, group):
    """The group minus the block itself."""
    return [d for d in group if d.file_path != block.file_path or d.start_line != block.start_line]


def refs(block, group):
    return [f"{loc.file_path}:{loc.start_line}-{loc.end_line}" for loc in others(block, group)]


def message_of(line_count, occurrence_count, locations):
    return f"Duplicate code ({line_count} lines, {occurrence_count} occurrences)" + \
        (f". Also found in: {', '.join(locations)}" if len(locations) > 0 else "")


@contract(VB + "_get_location_refs", props=["C03"], types=dict(block=CodeBlockT, all_duplicates=Blocks), returns=SeqOf(Str))
class GetLocationRefs:
    def value(block, all_duplicates):
        return refs(block, all_duplicates)


@lemma(props=["C03"], types=dict(l=Blocks), name="one-reference-per-listed-block")
def one_ref_per_block(l):
    """Pure: the rendered reference list has exactly one entry per block."""
    return (len(l) == 0 or ih(one_ref_per_block, l[1:])) and \
        len([f"{loc.file_path}:{loc.start_line}-{loc.end_line}" for loc in l]) == len(l)


@lemma(props=["C03"], types=dict(s=Blocks, x=CodeBlockT), name="block-member-head-tail")
def block_member_head_tail(s, x):
    """Pure (sequences): membership in a non-empty list is head-or-tail membership."""
    return implies(len(s) > 0, (x in s) == (x == s[0] or x in s[1:]))


@lemma(props=["C03"], types=dict(group=Blocks, block=CodeBlockT, x=CodeBlockT), name="others-is-group-minus-self")
def others_is_group_minus_self(group, block, x):
    """Pure: the blocks named in "Also found in" are exactly the group members at a different place than the block."""
    return (len(group) == 0 or (ih(others_is_group_minus_self, group[1:], block, x)
                                and use(block_member_head_tail, group, x))) and \
        (x in others(block, group)) == (x in group and not same_place(x, block))


@contract(VB + "_build_message", props=["C03"], types=dict(line_count=Int, occurrence_count=Int, locations=SeqOf(Str)),
          returns=Str)
class BuildMessage:
    def value(line_count, occurrence_count, locations):
        return message_of(line_count, occurrence_count, locations)

    def ensures_states_count_and_occurrences(line_count, occurrence_count, locations, result):
        return result.startswith(f"Duplicate code ({line_count} lines, {occurrence_count} occurrences)")

    def ensures_names_other_locations_iff_any(line_count, occurrence_count, locations, result):
        return implies(len(locations) > 0, result.endswith(f". Also found in: {', '.join(locations)}")) and \
            implies(len(locations) == 0, result == f"Duplicate code ({line_count} lines, {occurrence_count} occurrences)")


@opaque
def violation_for(block: CodeBlockT, group: Blocks, rule_id: Str) -> ViolationT:
    """The violation reported for `block` as a member of the de-duplicated `group` (definition revealed where needed)."""
    return mk(DryViolationT, rule_id=rule_id, file_path=path_str(block.file_path), line=block.start_line, column=1,
              message=message_of(block.end_line - block.start_line + 1, len(group), refs(block, group)),
              severity="error", suggestion=None)


@contract(VB + "build_violation", props=["C03", "C12"], types=dict(block=CodeBlockT, all_duplicates=Blocks, rule_id=Str),
          returns=ViolationT)
class BuildViolation:
    def reveals(block, all_duplicates, rule_id):
        return reveal(violation_for, block, all_duplicates, rule_id)

    def value(block, all_duplicates, rule_id):
        return violation_for(block, all_duplicates, rule_id)

    def ensures_located_at_the_block(block, all_duplicates, rule_id, result):
        return result.file_path == path_str(block.file_path) and result.line == block.start_line and result.column == 1 \
            and result.rule_id == rule_id


@lemma(props=["C03"], types=dict(block=CodeBlockT, group=Blocks, rule_id=Str), name="dry-message-states-count-occurrences-others")
def dry_message(block, group, rule_id):
    """Property text: line_count = end - start + 1, occurrences = len(group), "Also found in" = the group minus the
    block itself (one "<path>:<start>-<end>" reference per other member, in group order)."""
    v = call(VB + "build_violation", mk(BuilderT), block, group, rule_id)
    reveal(violation_for, block, group, rule_id)
    return v.message == message_of(block.end_line - block.start_line + 1, len(group), refs(block, group)) and \
        v.line == block.start_line and v.file_path == path_str(block.file_path)


# =================================================================== storage (SQLite): assumed at the SQL boundary
from contracts.c09_paths import path_of_str  # noqa: E402  (registers the pathlib.Path external)
from contracts.c05_config import DRYConfigT, min_occ  # noqa: E402
from contracts.c15_language import detect_language_spec, detect_stat_race  # noqa: E402
from contracts.c03_dedup import DedupT, dedup_groups, block_groups, vdedup_groups, violation_groups  # noqa: E402

QS = "src/linters/dry/cache_query.py::CacheQueryService."
DCACHE = "src/linters/dry/cache.py::DRYCache."
DST = "src/linters/dry/duplicate_storage.py::DuplicateStorage."

ConnT = Opaque("SqliteConnection")
RowT = TupleOf(Str, Int, Int, Str, Int)          # (file_path, start_line, end_line, snippet, hash_value)
QueryServiceT = Rec("CacheQueryService", cls="src/linters/dry/cache_query.py::CacheQueryService")
CacheT = Rec("DRYCache", cls="src/linters/dry/cache.py::DRYCache", db=ConnT, _query_service=QueryServiceT)
StorageT = Rec("DuplicateStorage", cls="src/linters/dry/duplicate_storage.py::DuplicateStorage", _cache=CacheT)



def _native_query_service():
    from pyvc import native as _native
    _native._ensure_repo_on_path()
    from src.linters.dry.cache_query import CacheQueryService
    return CacheQueryService()


# natively the two uninterpreted functions ARE the two SQL queries (run on the generated connection)
db_dup_hashes = uf("dry_db_duplicate_hashes", [ConnT], SeqOf(Int),
                   concrete=lambda db: list(_native_query_service().get_duplicate_hashes(db)))
db_rows = uf("dry_db_rows_by_hash", [ConnT, Int], SeqOf(RowT),
             concrete=lambda db, h: [tuple(r) for r in _native_query_service().find_blocks_by_hash(db, h)])


def _gen_connection(g):
    """CPython cross-check: an in-memory DRY database filled through the real DRYCache.add_blocks with a few blocks
    whose hash values collide often (so that duplicate groups, overlaps and several files occur)."""
    from pathlib import Path as _Path
    from pyvc import native as _native
    _native._ensure_repo_on_path()
    from src.linters.dry.cache import CodeBlock, DRYCache
    cache = DRYCache("memory")
    for f in range(g.rng.randrange(0, 4)):
        path = _Path(g.rng.choice(["a.py", "pkg/b.py", "c.ts", "d.js", "e.py"]))
        blocks = []
        for _ in range(g.rng.randrange(0, 5)):
            start = g.rng.randrange(1, 30)
            blocks.append(CodeBlock(file_path=path, start_line=start, end_line=start + g.rng.randrange(0, 6),
                                    snippet=g.rng.choice(["x = 1", "y = f(x)\nz = 2", "s"]), hash_value=g.rng.randrange(0, 3)))
        cache.add_blocks(path, blocks)
    return cache.db


def _register_generators():
    from pyvc import selftest
    selftest.OPAQUE_GENERATORS["SqliteConnection"] = _gen_connection


_register_generators()


@contract(QS + "get_duplicate_hashes", props=["C03"], types=dict(self=QueryServiceT, db=ConnT), returns=SeqOf(Int),
          assumed="SQLite: SELECT hash_value FROM code_blocks GROUP BY hash_value HAVING COUNT(*) >= 2 -- assumed to return "
                  "each hash value stored in two or more rows exactly once (query text fingerprinted by the custom check "
                  "dry-sql-fingerprint)")
class GetDuplicateHashes:
    def value(db):
        return db_dup_hashes(db)

    def ensures_empty_store_has_no_duplicates(db, result):
        return implies(db_empty(db), len(result) == 0)


@contract(QS + "find_blocks_by_hash", props=["C03"], types=dict(self=QueryServiceT, db=ConnT, hash_value=Int),
          returns=SeqOf(RowT),
          assumed="SQLite: SELECT file_path, start_line, end_line, snippet, hash_value FROM code_blocks WHERE hash_value = ? "
                  "ORDER BY file_path, start_line -- assumed to return exactly the inserted rows with that hash (query text "
                  "fingerprinted by the custom check dry-sql-fingerprint)")
class FindBlocksByHash:
    def value(db, hash_value):
        return db_rows(db, hash_value)

    def ensures_rows_have_the_requested_hash(db, hash_value, result):
        return all(r[4] == hash_value for r in result)


def _db_empty_native(db):
    return db.execute("SELECT COUNT(*) FROM code_blocks").fetchone()[0] == 0


# the database is a state token: db_insert(db, path, blocks) is the store after inserting the blocks of one file;
# db_empty(db): no code_blocks row (what a freshly created DRYCache holds)
db_insert = uf("dry_db_insert", [ConnT, PathT, Blocks], ConnT)
db_empty = uf("dry_db_empty", [ConnT], Bool, concrete=_db_empty_native)


@contract(DCACHE + "add_blocks", props=["C03"], types=dict(self=CacheT, file_path=PathT, blocks=Blocks), modifies=["self.db"],
          assumed="SQLite INSERT of one row (str(file_path), hash_value, start_line, end_line, snippet) per block plus the "
                  "files row (INSERT text fingerprinted); the store afterwards is the state token db_insert(before, path, "
                  "blocks), an empty block list changes nothing")
class CacheAddBlocks:
    def ensures_inserts_exactly_these_blocks(self, file_path, blocks, old):
        return self.db == (db_insert(old.self.db, file_path, blocks) if len(blocks) > 0 else old.self.db)


@contract(DCACHE + "__init__", props=["C03"], types=dict(self=CacheT, storage_mode=Str),
          modifies=["self.db", "self._query_service"], raises=["ValueError"],
          assumed="opens a NEW sqlite database (':memory:' or a fresh temporary file) and creates the empty schema "
                  "(CREATE TABLE IF NOT EXISTS ..., text fingerprinted): a freshly constructed cache holds no code block")
class CacheInit:
    def raises_when(storage_mode):
        return storage_mode not in ("memory", "tempfile")

    def ensures_new_database_is_empty(self):
        return db_empty(self.db)


def rows_to_blocks(rows):
    return [mk(CodeBlockT, file_path=path_of_str(r[0]), start_line=r[1], end_line=r[2], snippet=r[3], hash_value=r[4])
            for r in rows]


@contract(DCACHE + "find_duplicates_by_hash", props=["C03"],
          types=dict(self=CacheT, hash_value=Int, rows=SeqOf(RowT), blocks=Blocks, block=CodeBlockT, file_path_str=Str,
                     start=Int, end=Int, snippet=Str, hash_val=Int),
          returns=Blocks)
class FindDuplicatesByHash:
    def value(self, hash_value):
        return rows_to_blocks(db_rows(self.db, hash_value))

    def inv0(rows, blocks, rest):
        return rows_to_blocks(rows) == blocks + rows_to_blocks(rest)


@contract(DCACHE + "duplicate_hashes", props=["C03"], types=dict(self=CacheT), returns=SeqOf(Int))
class CacheDuplicateHashes:
    def value(self):
        return db_dup_hashes(self.db)


@contract(DST + "duplicate_hashes", props=["C03"], types=dict(self=StorageT), returns=SeqOf(Int))
class StorageDuplicateHashes:
    def value(self):
        return db_dup_hashes(self._cache.db)


@contract(DST + "get_blocks_for_hash", props=["C03"], types=dict(self=StorageT, hash_value=Int), returns=Blocks)
class StorageGetBlocksForHash:
    def value(self, hash_value):
        return rows_to_blocks(db_rows(self._cache.db, hash_value))


@contract(DST + "add_blocks", props=["C03"], types=dict(self=StorageT, file_path=PathT, blocks=Blocks),
          modifies=["self._cache.db"])
class StorageAddBlocks:
    def ensures_stores_exactly_these_blocks(self, file_path, blocks, old):
        return self._cache.db == (db_insert(old.self._cache.db, file_path, blocks) if len(blocks) > 0 else old.self._cache.db)


# =================================================================== grouping by hash and reporting (violation_generator.py)
GeneratorT = Rec("ViolationGenerator", cls="src/linters/dry/violation_generator.py::ViolationGenerator",
                 _deduplicator=DedupT, _violation_builder=BuilderT)


def dedup_spec(blocks):
    """ViolationDeduplicator.deduplicate_blocks as a function (contracts.c03_dedup)."""
    return dedup_groups(list(block_groups(blocks).values())) if len(blocks) > 0 else []


def meets(blocks, config):
    """Property text: a group is reported iff it has at least min_occurrences(language of the group) members."""
    return len(blocks) > 0 and len(blocks) >= min_occ(config, detect_language_spec(blocks[0].file_path).lower())


@contract(VG + "_meets_min_occurrences", props=["C03"],
          types=dict(self=GeneratorT, blocks=Blocks, config=DRYConfigT, first_block=CodeBlockT, language=Str, min_occurrences=Int),
          returns=Bool, raises=["OSError"])
class MeetsMinOccurrences:
    """detect_language may let the OSError of a stat() race escape (C11 stated gap); otherwise a pure threshold test."""
    def raises_when(blocks):
        return len(blocks) > 0 and detect_stat_race(blocks[0].file_path)

    def value(blocks, config):
        return meets(blocks, config)

    def ensures_empty_group_never_reported(blocks, result):
        return implies(len(blocks) == 0, not result)


@opaque
def gv(bs: Blocks, group: Blocks, rule_id: Str) -> Violations:
    """One violation per block of bs, each built as a member of `group`."""
    if len(bs) == 0:
        return []
    return [violation_for(bs[0], group, rule_id)] + gv(bs[1:], group, rule_id)


def group_violations(dedup, rule_id):
    """One violation per member of the group, each naming all the others."""
    return gv(dedup, dedup, rule_id)


def stored(conn, h):
    return rows_to_blocks(db_rows(conn, h))


@opaque
def collect(hashes: SeqOf(Int), conn: ConnT, rule_id: Str, config: DRYConfigT) -> Violations:
    """For every duplicate hash in order: the violations of its de-duplicated group if the group meets the threshold."""
    if len(hashes) == 0:
        return []
    return (group_violations(dedup_spec(stored(conn, hashes[0])), rule_id)
            if meets(dedup_spec(stored(conn, hashes[0])), config) else []) + collect(hashes[1:], conn, rule_id, config)


class _WitnessDb:
    """Picklable stand-in for a sqlite3 connection: the in-memory DRY database holding `files` =
    {path: [(hash, start, end)]} is (re)built through the real DRYCache.add_blocks on first use."""

    def __init__(self, files):
        self.files = files
        self._db = None

    def __getstate__(self):
        return {"files": self.files, "_db": None}

    def __repr__(self):
        return f"<DRY database {self.files!r}>"

    def _conn(self):
        if self._db is None:
            from pathlib import Path as _Path
            from pyvc import native as _native
            _native._ensure_repo_on_path()
            from src.linters.dry.cache import CodeBlock, DRYCache
            cache = DRYCache("memory")
            for path, blocks in self.files.items():
                cache.add_blocks(_Path(path), [CodeBlock(file_path=_Path(path), start_line=s, end_line=e,
                                                         snippet=f"snippet {h}", hash_value=h) for h, s, e in blocks])
            self._db = cache.db
        return self._db

    def execute(self, *args):
        return self._conn().execute(*args)

    def commit(self):
        return self._conn().commit()


def _collect_witness(files, min_occurrences):
    """Model inputs of _collect_violations for a database holding `files`."""
    return {"self": {"_deduplicator": {"_grouper": {}, "_filter": {}}, "_violation_builder": {}},
            "storage": {"_cache": {"db": _WitnessDb(files), "_query_service": {}}}, "rule_id": "dry.duplicate-code",
            "config": {"enabled": True, "min_duplicate_lines": 3, "min_duplicate_tokens": 30, "min_occurrences": min_occurrences,
                       "python_min_occurrences": None, "typescript_min_occurrences": None, "javascript_min_occurrences": None,
                       "storage_mode": "memory", "ignore_patterns": [], "detect_duplicate_constants": True,
                       "min_constant_occurrences": 2, "python_min_constant_occurrences": None,
                       "typescript_min_constant_occurrences": None}}


@contract(VG + "_collect_violations", props=["C03"],
          types=dict(self=GeneratorT, storage=StorageT, rule_id=Str, config=DRYConfigT, violations=Violations, hash_value=Int,
                     blocks=Blocks, dedup_blocks=Blocks, block=CodeBlockT, violation=ViolationT),
          returns=Violations, raises=["OSError"])
class CollectViolations:
    def reveals(storage, rule_id, config):
        return reveal(collect, [], storage._cache.db, rule_id, config)

    def value(storage, rule_id, config):
        return collect(db_dup_hashes(storage._cache.db), storage._cache.db, rule_id, config)

    def inv0(storage, rule_id, config, violations, rest, old):
        return config == old.config and storage == old.storage and \
            reveal(collect, rest, storage._cache.db, rule_id, config) and \
            collect(db_dup_hashes(storage._cache.db), storage._cache.db, rule_id, config) == \
            violations + collect(rest, storage._cache.db, rule_id, config)

    # Concrete scenarios taken from the property text ("the occurrence count is the number of distinct, NON-OVERLAPPING
    # places"; "reported iff at least min_occurrences places"). When the solver cannot decide a loop obligation they are
    # run on the REAL function; a post-condition failing natively on one of them is a genuine violation.
    def witness_overlapping_windows_are_one_place():
        # a run one line longer than the window: two same-hash windows (1-3, 2-4) in ONE file = one place => not reported
        return _collect_witness({"a.py": [(7, 1, 3), (7, 2, 4)]}, min_occurrences=2)

    def witness_places_below_threshold():
        # the same self-overlapping run in two files with min_occurrences 3: two places < 3 => not reported
        return _collect_witness({"a.py": [(7, 1, 3), (7, 2, 4)], "b.py": [(7, 5, 7), (7, 6, 8)]}, min_occurrences=3)

    def witness_three_places_name_each_other():
        return _collect_witness({"a.py": [(5, 10, 12)], "b.ts": [(5, 3, 5)], "pkg/c.py": [(5, 20, 22), (9, 1, 3)]}, min_occurrences=2)

    def inv1(storage, rule_id, config, violations, hash_value, dedup_blocks, rest0, rest, old):
        # inner loop over the members of one reported group; rest0 = hashes still to come in the outer loop
        return config == old.config and storage == old.storage and \
            dedup_blocks == dedup_spec(stored(storage._cache.db, hash_value)) and \
            reveal(gv, rest, dedup_blocks, rule_id) and \
            collect(db_dup_hashes(storage._cache.db), storage._cache.db, rule_id, config) == \
            violations + gv(rest, dedup_blocks, rule_id) + collect(rest0, storage._cache.db, rule_id, config)


# ------------------------------------------------------------------ property lemmas: grouping, threshold, mutual references
@lemma(props=["C03"], types=dict(bs=Blocks, group=Blocks, rule_id=Str, j=Int), name="one-violation-per-group-member")
def gv_indexing(bs, group, rule_id, j):
    """Pure: gv yields exactly one violation per block, in order; the j-th one is built for block j."""
    reveal(gv, bs, group, rule_id)
    return (len(bs) == 0 or ih(gv_indexing, bs[1:], group, rule_id, j - 1)) and \
        len(gv(bs, group, rule_id)) == len(bs) and \
        implies(0 <= j and j < len(bs), gv(bs, group, rule_id)[j] == violation_for(bs[j], group, rule_id))


@lemma(props=["C03"], types=dict(conn=ConnT, h=Int, rule_id=Str, config=DRYConfigT, j=Int),
       name="hash-reported-iff-group-meets-threshold")
def reported_iff(conn, h, rule_id, config, j):
    """Property (on the fold that _collect_violations is proved equal to): a duplicate hash contributes violations iff
    its de-duplicated group has >= min_occurrences(language) members, and then exactly one per member, the j-th one
    located at member j and built against the whole group (so it names all the others)."""
    reveal(collect, [h], conn, rule_id, config)
    reveal(collect, [], conn, rule_id, config)
    use(gv_indexing, dedup_spec(stored(conn, h)), dedup_spec(stored(conn, h)), rule_id, j)
    return (len(collect([h], conn, rule_id, config)) > 0) == meets(dedup_spec(stored(conn, h)), config) and \
        implies(meets(dedup_spec(stored(conn, h)), config),
                len(collect([h], conn, rule_id, config)) == len(dedup_spec(stored(conn, h)))
                and implies(0 <= j and j < len(dedup_spec(stored(conn, h))),
                            collect([h], conn, rule_id, config)[j] ==
                            violation_for(dedup_spec(stored(conn, h))[j], dedup_spec(stored(conn, h)), rule_id)))


@lemma(props=["C03"], types=dict(blocks=Blocks, c1=DRYConfigT, c2=DRYConfigT), name="min-occurrences-monotone")
def min_occurrences_monotone(blocks, c1, c2):
    """Lowering every occurrence threshold never un-reports a group (and the threshold test is len >= threshold)."""
    if len(blocks) == 0 or detect_stat_race(blocks[0].file_path):
        return True
    lo = call(VG + "_meets_min_occurrences", mk(GeneratorT), blocks, c1)
    hi = call(VG + "_meets_min_occurrences", mk(GeneratorT), blocks, c2)
    lang = detect_language_spec(blocks[0].file_path).lower()
    return lo == (len(blocks) >= min_occ(c1, lang)) and implies(min_occ(c1, lang) <= min_occ(c2, lang) and hi, lo)


@opaque
def ref_of(b: CodeBlockT) -> Str:
    """How a block is cited in "Also found in": <path>:<start>-<end>."""
    return f"{b.file_path}:{b.start_line}-{b.end_line}"


@opaque
def refs_list(l: Blocks) -> SeqOf(Str):
    """The rendered reference list, as a fold (same list as the comprehension in _get_location_refs)."""
    if len(l) == 0:
        return []
    return [ref_of(l[0])] + refs_list(l[1:])


@lemma(props=["C03"], types=dict(l=Blocks), name="reference-list-is-a-fold")
def refs_list_is_comprehension(l):
    reveal(refs_list, l)
    reveal(ref_of, l[0])
    return (len(l) == 0 or ih(refs_list_is_comprehension, l[1:])) and \
        [f"{loc.file_path}:{loc.start_line}-{loc.end_line}" for loc in l] == refs_list(l)


@lemma(props=["C03"], types=dict(a=Str, r=SeqOf(Str), x=Str), name="str-member-cons")
def str_member_cons(a, r, x):
    return (x in [a] + r) == (x == a or x in r)


@lemma(props=["C03"], types=dict(l=Blocks, x=CodeBlockT), name="listed-block-is-referenced")
def listed_block_is_referenced(l, x):
    """Pure: the reference string of every listed block occurs in the rendered reference list."""
    reveal(refs_list, l)
    return (len(l) == 0 or (ih(listed_block_is_referenced, l[1:], x) and use(block_member_head_tail, l, x)
                            and use(str_member_cons, ref_of(l[0]), refs_list(l[1:]), ref_of(x)))) and \
        implies(x in l, ref_of(x) in refs_list(l))


@lemma(props=["C03"], types=dict(group=Blocks, a=CodeBlockT, b=CodeBlockT), name="references-are-mutual")
def references_are_mutual(group, a, b):
    """Property (mutuality): two members of a reported group at different places name each other: b's location is in
    a's "Also found in" list and a's location is in b's."""
    if not (a in group and b in group and not same_place(a, b)):
        return True
    ra = call(VB + "_get_location_refs", mk(BuilderT), a, group)
    rb = call(VB + "_get_location_refs", mk(BuilderT), b, group)
    use(others_is_group_minus_self, group, a, b)
    use(others_is_group_minus_self, group, b, a)
    use(listed_block_is_referenced, others(a, group), b)
    use(listed_block_is_referenced, others(b, group), a)
    use(refs_list_is_comprehension, others(a, group))
    use(refs_list_is_comprehension, others(b, group))
    return ref_of(b) in ra and ref_of(a) in rb


# =================================================================== ignore filters: they only REMOVE violations
from contracts.c14_collect import norm_str  # noqa: E402  (str(Path(s)) as used by ViolationGenerator._is_ignored, C09)
from contracts.c04_checkers import InlineParserT  # noqa: E402
from contracts.c04_ignore import ParserT as SharedParserT  # noqa: E402

II = "src/linters/dry/inline_ignore.py::InlineIgnoreParser."


def path_ignored(file_path, ignore_patterns):
    """ViolationGenerator._is_ignored (contract in contracts/c09_path_predicates.py)."""
    return any(pattern in norm_str(file_path) for pattern in ignore_patterns)


@contract(VG + "_filter_ignored", props=["C03"],
          types=dict(self=GeneratorT, violations=Violations, ignore_patterns=SeqOf(Str), filtered=Violations, violation=ViolationT,
                     path_str=Str),
          returns=Violations, inline=["_is_ignored"])  # two-line helper (its own contract lives in c09_path_predicates.py)
class FilterIgnored:
    """Exactly the violations whose file matches no ignore pattern, in order (nothing else is removed, nothing added)."""
    def value(violations, ignore_patterns):
        return [v for v in violations if not any(pattern in norm_str(v.file_path) for pattern in ignore_patterns)] \
            if len(ignore_patterns) > 0 else violations

    def inv0(violations, ignore_patterns, filtered, rest, old):
        return ignore_patterns == old.ignore_patterns and \
            [v for v in violations if not any(pattern in norm_str(v.file_path) for pattern in ignore_patterns)] == \
            filtered + [v for v in rest if not any(pattern in norm_str(v.file_path) for pattern in ignore_patterns)]


@contract(VG + "_extract_line_count", props=["C03"], types=dict(self=GeneratorT, message=Str, start=Int, end=Int), returns=Int)
class GeneratorExtractLineCount:
    def reveals(message):
        return reveal(line_count_of, message, 1)

    def value(message):
        return line_count_of(message, 1)




def _inline_ignored_native(ranges, file_path, line, end_line):
    from pyvc import native as _native
    _native._ensure_repo_on_path()
    from src.linters.dry.inline_ignore import InlineIgnoreParser
    parser = InlineIgnoreParser()
    parser._ignore_ranges = ranges
    return parser.should_ignore(file_path, line, end_line)


def _gen_ignore_ranges(g):
    """Type invariant of InlineIgnoreParser._ignore_ranges: str(Path) -> list of (start, end) int pairs."""
    from pathlib import Path as _Path
    return {str(_Path(g.s() or "x")): [(a, a + g.rng.randrange(0, 11)) for a in [g.rng.choice(g.ints) for _ in range(g.rng.randrange(1, 3))]]
            for _ in range(g.rng.randrange(0, 4))}


inline_ignored = uf("dry_inline_ignored", [Dict, Str, Int, Int], Bool, concrete=_inline_ignored_native)
# same record as contracts.c04_checkers.InlineParserT; the field additionally carries its native type invariant
InlineParserGenT = Rec("InlineIgnoreParser", cls="src/linters/dry/inline_ignore.py::InlineIgnoreParser",
                       _ignore_ranges=Dict.with_gen(_gen_ignore_ranges))


@contract(II + "should_ignore", props=["C03", "C04"],
          types=dict(self=InlineParserT, file_path=Str, line=Int, end_line=Opt(Int)), returns=Bool,
          assumed="looks the file's ignore ranges up in a dict of lists of (start, end) tuples (dict values that are lists "
                  "of tuples are outside the engine); the range tests themselves (_check_range_overlap, "
                  "_check_single_line) are proved in contracts/c04_checkers.py. Assumed: a pure function of the stored "
                  "ranges, the path and the line range")
class InlineShouldIgnore:
    def value(self, file_path, line, end_line):
        return inline_ignored(self._ignore_ranges, file_path, line, end_line if end_line is not None else line)


def inline_dropped(ranges, v):
    """The violation's reported range [line, line + line_count - 1] touches a `# dry: ignore-*` range of its file."""
    return inline_ignored(ranges, v.file_path, v.line or 0, (v.line or 0) + line_count_of(v.message, 1) - 1)


@contract(VG + "_filter_inline_ignored", props=["C03", "C04"],
          types=dict(self=GeneratorT, violations=Violations, inline_ignore=InlineParserGenT, filtered=Violations, violation=ViolationT,
                     start_line=Int, line_count=Int, end_line=Int),
          returns=Violations)
class FilterInlineIgnored:
    def value(violations, inline_ignore):
        return [v for v in violations if not inline_dropped(inline_ignore._ignore_ranges, v)]

    def inv0(violations, inline_ignore, filtered, rest, old):
        return inline_ignore == old.inline_ignore and \
            [v for v in violations if not inline_dropped(inline_ignore._ignore_ranges, v)] == \
            filtered + [v for v in rest if not inline_dropped(inline_ignore._ignore_ranges, v)]


@opaque
def subseq(a: Violations, b: Violations) -> Bool:
    """a is b with some elements deleted (order preserved): the filters only REMOVE violations."""
    return len(a) == 0 or (len(b) > 0 and ((a[-1] == b[-1] and subseq(a[:-1], b[:-1])) or subseq(a, b[:-1])))


@contract(VG + "_filter_shared_ignored", props=["C03", "C04"],
          types=dict(self=GeneratorT, violations=Violations, ignore_parser=SharedParserT,
                     file_contents=Dict.with_gen(lambda g: {g.s(): g.s() for _ in range(g.rng.randrange(0, 4))}),  # dict[str, str]
                     filtered=Violations, violation=ViolationT),
          returns=Violations, modifies=["ignore_parser._ignore_cache"])
class FilterSharedIgnored:
    """The shared directive parser is stateful (memo of repository-pattern verdicts, C04): stated here is only that the
    filter removes violations -- never adds, reorders or alters one."""
    def reveals(violations):
        return reveal(subseq, [], [])

    def ensures_only_removes(violations, result):
        return subseq(result, violations)

    def inv0(violations, filtered, done, old):
        return violations == old.violations and reveal(subseq, filtered, done) and subseq(filtered, done)


IgnoreCtxT = Rec("IgnoreContext", cls="src/linters/dry/violation_generator.py::IgnoreContext",
                 inline_ignore=InlineParserGenT, shared_parser=Opt(SharedParserT),
                 file_contents=Opt(Dict.with_gen(lambda g: {g.s(): g.s() for _ in range(g.rng.randrange(0, 4))})))


def vdedup_spec(violations):
    """ViolationDeduplicator.deduplicate_violations as a function (contracts.c03_dedup)."""
    return vdedup_groups(list(violation_groups(violations).values())) if len(violations) > 0 else []


def pattern_filtered(violations, ignore_patterns):
    return [v for v in violations if not any(pattern in norm_str(v.file_path) for pattern in ignore_patterns)] \
        if len(ignore_patterns) > 0 else violations


def reported_before_shared_filter(storage, rule_id, config, ranges):
    """collect -> violation-level de-duplication -> `ignore:` patterns -> `# dry: ignore-*` ranges."""
    return [v for v in pattern_filtered(vdedup_spec(collect(db_dup_hashes(storage._cache.db), storage._cache.db, rule_id, config)),
                                        config.ignore_patterns)
            if not inline_dropped(ranges, v)]


@lemma(props=["C03"], types=dict(a=Violations), name="subseq-reflexive")
def subseq_refl(a):
    reveal(subseq, a, a)
    return (len(a) == 0 or ih(subseq_refl, a[:-1])) and subseq(a, a)


@contract(VG + "generate_violations", props=["C03"],
          types=dict(self=GeneratorT, storage=StorageT, rule_id=Str, config=DRYConfigT, ignore_ctx=IgnoreCtxT),
          returns=Violations, raises=["OSError"], modifies=["ignore_ctx.shared_parser"])
class GenerateViolations:
    """The pipeline of the finalize phase. Every stage after _collect_violations only removes violations."""
    def lemmas_only_removes_after_the_pipeline(storage, rule_id, config, ignore_ctx):
        return subseq_refl(reported_before_shared_filter(storage, rule_id, config, ignore_ctx.inline_ignore._ignore_ranges))

    def ensures_only_removes_after_the_pipeline(storage, rule_id, config, ignore_ctx, result):
        return subseq(result, reported_before_shared_filter(storage, rule_id, config, ignore_ctx.inline_ignore._ignore_ranges))

    def ensures_exact_without_shared_directives(storage, rule_id, config, ignore_ctx, result):
        return implies(ignore_ctx.shared_parser is None or ignore_ctx.file_contents is None,
                       result == reported_before_shared_filter(storage, rule_id, config, ignore_ctx.inline_ignore._ignore_ranges))


# =================================================================== SQL text fingerprint (the storage contracts are ASSUMED)
SQL_FINGERPRINT = "b623a9845dbc7a461f144a292faab879c89770216837077eee5a4aa218ddb5a0"


def _dry_sql_statements(repo):
    """Whitespace-normalised SQL texts: every statement of cache_query.py and every statement of cache.py that touches
    the code_blocks table or the files table it references (schema, index, INSERT, any DELETE)."""
    import ast as _ast
    import os as _os
    out = []
    for rel, keep in (("src/linters/dry/cache_query.py", lambda s: True), ("src/linters/dry/cache.py", lambda s: "code_blocks" in s or " files" in s)):
        tree = _ast.parse(open(_os.path.join(repo, rel)).read())
        found = []
        for n in _ast.walk(tree):
            if isinstance(n, _ast.Call) and isinstance(n.func, _ast.Attribute) and n.func.attr in ("execute", "executemany", "executescript") \
                    and n.args and isinstance(n.args[0], _ast.Constant) and isinstance(n.args[0].value, str):
                found.append((n.lineno, " ".join(n.args[0].value.split())))
        out.extend(f"{rel}: {s}" for _, s in sorted(found) if keep(s))
    return out


def _storage_roundtrip(repo, seed, cases):
    """Bounded native check of the ASSUMED storage contract on the real DRYCache (both storage modes): the duplicate
    hashes are exactly the hash values inserted at least twice (each once) and find_duplicates_by_hash returns exactly
    the inserted blocks with that hash."""
    import random
    from pathlib import Path as _Path
    from pyvc import native as _native
    _native._ensure_repo_on_path()  # `src` = the tree under verification ($VERIF_REPO), never another install
    from src.linters.dry.cache import CodeBlock, DRYCache
    rng = random.Random(seed)
    for case in range(cases):
        cache = DRYCache("memory" if case % 2 == 0 else "tempfile")
        try:
            inserted = []
            for f in range(rng.randrange(1, 4)):
                path = _Path(f"pkg{rng.randrange(3)}/f{f}.py")
                blocks = [CodeBlock(file_path=path, start_line=s, end_line=s + rng.randrange(0, 5), snippet=f"s{rng.randrange(4)}",
                                    hash_value=rng.randrange(-3, 4)) for s in rng.sample(range(1, 40), rng.randrange(0, 6))]
                cache.add_blocks(path, blocks)
                inserted.extend(blocks)
            counts = {}
            for b in inserted:
                counts[b.hash_value] = counts.get(b.hash_value, 0) + 1
            dups = list(cache.duplicate_hashes)
            if sorted(dups) != sorted(h for h, n in counts.items() if n >= 2):
                return f"case {case}: duplicate_hashes {sorted(dups)} != hashes stored twice {sorted(h for h, n in counts.items() if n >= 2)}"
            key = lambda b: (str(b.file_path), b.start_line, b.end_line, b.snippet, b.hash_value)  # noqa: E731
            for h in counts:
                got = sorted(key(b) for b in cache.find_duplicates_by_hash(h))
                want = sorted(key(b) for b in inserted if b.hash_value == h)
                if got != want:
                    return f"case {case}: find_duplicates_by_hash({h}) returned {got}, inserted {want}"
        finally:
            cache.close()
    # "every run starts from an empty store": one long-lived StorageInitializer (as a reused rule object has) hands out
    # a store per run; whatever earlier runs inserted, a newly handed-out store holds nothing
    from src.linters.dry.config import DRYConfig
    from src.linters.dry.storage_initializer import StorageInitializer
    for mode in ("memory", "tempfile"):
        initializer = StorageInitializer()
        config = DRYConfig(enabled=True, storage_mode=mode)
        seen = set()
        for run in range(3):
            storage = initializer.initialize(None, config)
            stale = list(storage.duplicate_hashes) + [b for h in sorted(seen) for b in storage.get_blocks_for_hash(h)]
            if stale:
                return (f"StorageInitializer.initialize ({mode}), run {run + 1} on one initializer: the store handed out is not "
                        f"empty, it still holds {stale[:4]} from an earlier run")
            path = _Path(f"run{run}/f.py")
            blocks = [CodeBlock(file_path=path, start_line=s, end_line=s + 2, snippet="s", hash_value=rng.randrange(0, 3))
                      for s in (1, 11, 21, 31)]
            storage.add_blocks(path, blocks)
            seen.update(b.hash_value for b in blocks)
            if not list(storage.duplicate_hashes):
                return f"StorageInitializer.initialize ({mode}): four blocks with three hash values stored, no duplicate hash found"
    return None


@custom("dry-sql-fingerprint", props=["C03"])
def dry_sql_fingerprint(ctx):
    import hashlib
    stmts = _dry_sql_statements(ctx["repo"])
    digest = hashlib.sha256("\n".join(stmts).encode()).hexdigest()
    ok = digest == SQL_FINGERPRINT
    obs = [{"name": "custom:dry-sql-fingerprint/sql-text-unchanged", "kind": "custom",
            "verdict": "discharged" if ok else "unknown", "solver": "sha256", "ms": 0.0, "carries": False, "lineno": 0,
            "note": "" if ok else f"the SQL text of the DRY block storage changed (sha256 {digest}, expected {SQL_FINGERPRINT}): "
                                  "the assumed storage contracts must be re-validated"}]
    cases = 40 if ctx.get("tier") != "thorough" else 400
    try:
        bad = _storage_roundtrip(ctx["repo"], ctx.get("seed", 0), cases)
    except BaseException as e:  # noqa
        bad = None
        obs.append({"name": "custom:dry-sql-fingerprint/storage-roundtrip", "kind": "bounded", "verdict": "unknown",
                    "note": f"native storage check could not run: {e!r}"[:300], "tool": "native DRYCache", "budget": cases, "cases": 0})
        return obs
    obs.append({"name": "custom:dry-sql-fingerprint/storage-roundtrip", "kind": "bounded",
                "verdict": "refuted" if bad else "passed", "note": bad or "assumed storage contract holds on random insertions",
                "tool": "native DRYCache (memory + tempfile)", "budget": cases, "cases": cases, "witness": bad,
                "witness_confirmed": bool(bad)})
    return obs


# =================================================================== window -> CodeBlock (analyzers); heuristics ASSUMED
PAN = "src/linters/dry/python_analyzer.py::PythonDuplicateAnalyzer."
TAN = "src/linters/dry/typescript_analyzer.py::TypeScriptDuplicateAnalyzer."
SSD = "src/linters/dry/single_statement_detector.py::SingleStatementDetector."
BFR = "src/linters/dry/block_filter.py::BlockFilterRegistry."
TSD = "src/linters/dry/typescript_statement_detector.py::"
HEURISTIC = ("statement-classification heuristic (what counts as an 'ordinary statement' window): by DESIGN.md 3/C03 not "
             "brought under contract; assumed to be a pure function of the file content and the line range")

WinT = TupleOf(Int, Int, Int, Str)


def _real(modname, name):
    from pyvc import native as _native
    import importlib as _importlib
    _native._ensure_repo_on_path()
    return getattr(_importlib.import_module(modname), name)


# natively: a detector without cached AST (its verdict is then a function of the content alone) and the default registry
DetectorT = Rec("SingleStatementDetector", cls="src/linters/dry/single_statement_detector.py::SingleStatementDetector") \
    .with_gen(lambda g: _real("src.linters.dry.single_statement_detector", "SingleStatementDetector")())
RegistryT = Rec("BlockFilterRegistry", cls="src/linters/dry/block_filter.py::BlockFilterRegistry") \
    .with_gen(lambda g: _real("src.linters.dry.block_filter", "create_default_registry")())
PyAnalyzerT = Rec("PythonDuplicateAnalyzer", cls="src/linters/dry/python_analyzer.py::PythonDuplicateAnalyzer",
                  _filter_registry=RegistryT, _statement_detector=Opt(DetectorT))
TsAnalyzerT = Rec("TypeScriptDuplicateAnalyzer", cls="src/linters/dry/typescript_analyzer.py::TypeScriptDuplicateAnalyzer",
                  _filter_registry=RegistryT)

py_single_statement = uf("dry_py_single_statement", [Str, Int, Int], Bool,
                         concrete=lambda c, s, e: _real("src.linters.dry.single_statement_detector", "SingleStatementDetector")()
                         .is_single_statement(c, s, e))
ts_single_statement = uf("dry_ts_single_statement", [Str, Int, Int], Bool,
                         concrete=lambda c, s, e: _real("src.linters.dry.typescript_statement_detector", "is_single_statement")(c, s, e))
# verdict of the DEFAULT filter registry (the only one the analyzers are built with when none is injected)
block_filtered = uf("dry_block_filtered", [CodeBlockT, Str], Bool,
                    concrete=lambda b, c: _real("src.linters.dry.block_filter", "create_default_registry")().should_filter_block(b, c))


@contract(SSD + "is_single_statement", props=["C03"], types=dict(self=DetectorT, content=Str, start_line=Int, end_line=Int),
          returns=Bool, assumed=HEURISTIC)
class PyIsSingleStatement:
    def value(content, start_line, end_line):
        return py_single_statement(content, start_line, end_line)


@contract(BFR + "should_filter_block", props=["C03"], types=dict(self=RegistryT, block=CodeBlockT, file_content=Str),
          returns=Bool, assumed=HEURISTIC)
class ShouldFilterBlock:
    def value(block, file_content):
        return block_filtered(block, file_content)


@contract(TSD + "is_single_statement", props=["C03"], types=dict(content=Str, start_line=Int, end_line=Int), returns=Bool,
          assumed=HEURISTIC)
class TsIsSingleStatement:
    def value(content, start_line, end_line):
        return ts_single_statement(content, start_line, end_line)


def block_of(file_path, w):
    """The CodeBlock of a window: location, snippet and hash copied unchanged."""
    return mk(CodeBlockT, file_path=file_path, start_line=w[1], end_line=w[2], snippet=w[3], hash_value=w[0])


def py_keeps(has_detector, file_path, content, w):
    return not (has_detector and py_single_statement(content, w[1], w[2])) and not block_filtered(block_of(file_path, w), content)


@contract(PAN + "_create_block_if_valid", props=["C03"],
          types=dict(self=PyAnalyzerT, file_path=PathT, content=Str, hash_val=Int, start_line=Int, end_line=Int, snippet=Str),
          returns=Opt(CodeBlockT))
class PyCreateBlockIfValid:
    def value(self, file_path, content, hash_val, start_line, end_line, snippet):
        return block_of(file_path, (hash_val, start_line, end_line, snippet)) \
            if py_keeps(self._statement_detector is not None, file_path, content, (hash_val, start_line, end_line, snippet)) else None

    def ensures_block_copies_the_window(self, file_path, content, hash_val, start_line, end_line, snippet, result):
        # (`or`, not implies(): natively both arguments of implies() are evaluated, and None has no fields)
        return result is None or (result.file_path == file_path and result.start_line == start_line
                                  and result.end_line == end_line and result.snippet == snippet and result.hash_value == hash_val)


@contract(TAN + "_build_blocks", props=["C03"],
          types=dict(self=TsAnalyzerT, windows=SeqOf(WinT), file_path=PathT, content=Str, blocks=Blocks, block=CodeBlockT,
                     hash_val=Int, start_line=Int, end_line=Int, snippet=Str),
          returns=Blocks)
class TsBuildBlocks:
    """One block per window that the (assumed) filter registry does not reject, in window order, data copied unchanged."""
    def value(windows, file_path, content):
        return [block_of(file_path, w) for w in windows if not block_filtered(block_of(file_path, w), content)]

    def inv0(windows, file_path, content, blocks, rest, old):
        return file_path == old.file_path and \
            [block_of(file_path, w) for w in windows if not block_filtered(block_of(file_path, w), content)] == \
            blocks + [block_of(file_path, w) for w in rest if not block_filtered(block_of(file_path, w), content)]


@contract(PAN + "_filter_valid_blocks", props=["C03"],
          types=dict(self=PyAnalyzerT, windows=SeqOf(WinT), file_path=PathT, content=Str), returns=Blocks)
class PyFilterValidBlocks:
    """One block per window that is neither classified as a single statement nor rejected by the filter registry (both
    assumed heuristics), in window order, data copied unchanged: no other window is lost on the way to the storage."""
    def value(self, windows, file_path, content):
        # same comprehension shape as the code (walrus on the optional block), so both denote one generated function
        return [block for hash_val, start_line, end_line, snippet in windows
                if (block := (block_of(file_path, (hash_val, start_line, end_line, snippet))
                              if py_keeps(self._statement_detector is not None, file_path, content,
                                          (hash_val, start_line, end_line, snippet)) else None))]


# =================================================================== message <-> line count round trip (bounded)
@custom("dry-message-round-trip", props=["C03"])
def dry_message_round_trip(ctx):
    """B tier (DESIGN.md 3/C03: 'P / B for the int() round trip'): the universally quantified lemma
    line_count_of(message_of(n, occ, locs)) == n needs int(str(n)) == n and first-occurrence reasoning over a
    symbolic decimal rendering, on which every back end gives up; checked natively on the REAL functions instead."""
    from pyvc import native as _native
    _native._ensure_repo_on_path()  # `src` = the tree under verification ($VERIF_REPO)
    from src.linters.dry.violation_builder import DRYViolationBuilder
    from src.linters.dry.violation_filter import ViolationFilter
    from src.linters.dry.violation_generator import ViolationGenerator
    b, f, g = DRYViolationBuilder(), ViolationFilter(), ViolationGenerator()
    locs = [[], ["b.py:10-12"], ["dir (old)/x lines.py:1-3", "c.ts:7-9"], ["(9 lines, 9 occurrences).py:1-2"]]
    top = 400 if ctx.get("tier") != "thorough" else 5000
    bad, cases = None, 0
    for n in range(0, top):
        for occ in (1, 2, 3, 10, 123):
            for ls in locs:
                cases += 1
                m = b._build_message(n, occ, ls)
                got = (f._extract_line_count(m), g._extract_line_count(m))
                if got != (n, n) and bad is None:
                    bad = f"_build_message({n}, {occ}, {ls!r}) = {m!r}: parsed back as {got}"
    return [{"name": "custom:dry-message-round-trip/extract-inverts-build", "kind": "bounded",
             "verdict": "refuted" if bad else "passed", "note": bad or f"line counts 0..{top - 1} parse back unchanged",
             "tool": "native enumeration (DRYViolationBuilder._build_message, both _extract_line_count)",
             "budget": cases, "cases": cases, "witness": bad, "witness_confirmed": bool(bad)}]


@lemma(props=["C03"], types=dict(storage=StorageT, rule_id=Str, config=DRYConfigT, ranges=Dict, r=Violations),
       name="no-duplicate-hash-no-violation")
def no_duplicate_hash_no_violation(storage, rule_id, config, ranges, r):
    """Property text: 'projects that share no such run produce no DRY violation' -- on the pipeline that
    generate_violations is proved to implement: with no hash stored twice nothing is collected, and since every later
    stage only removes violations (subseq), the final list r is empty."""
    if len(db_dup_hashes(storage._cache.db)) != 0:
        return True
    reveal(collect, db_dup_hashes(storage._cache.db), storage._cache.db, rule_id, config)
    reveal(subseq, r, reported_before_shared_filter(storage, rule_id, config, ranges))
    return reported_before_shared_filter(storage, rule_id, config, ranges) == [] and \
        implies(subseq(r, reported_before_shared_filter(storage, rule_id, config, ranges)), len(r) == 0)


# =================================================================== TypeScript analyze(): which windows become blocks
from contracts.c03_windows import track, twindows_from  # noqa: E402
from contracts.c03_heuristics import hits_range, iface_ranges  # noqa: E402


def _jsdoc_native(content):
    an = _real("src.linters.dry.typescript_analyzer", "TypeScriptDuplicateAnalyzer")()
    return sorted(an._get_jsdoc_ranges_from_content(content))


ts_jsdoc_lines = uf("dry_ts_jsdoc_lines", [Str], SeqOf(Int), concrete=_jsdoc_native)


@contract(TAN + "_get_jsdoc_ranges_from_content", props=["C03"], types=dict(self=TsAnalyzerT, content=Str), returns=SeqOf(Int),
          assumed="tree-sitter parse + recursive walk collecting the line numbers of /** ... */ comments into a set "
                  "(parser and sets are outside the engine); assumed to be a pure function of the content. Only "
                  "membership of a line number is used by the caller")
class TsGetJsdocRanges:
    def value(content):
        return ts_jsdoc_lines(content)


def ts_windows(content, w):
    """All rolling windows over the tracked statement lines of a TS/JS file (contracts.c03_windows)."""
    return twindows_from(track([(line_num, line) for line_num, line in enumerate(content.split("\n"), start=1)
                                if line_num not in ts_jsdoc_lines(content)], False), w, 0)


@contract(TAN + "analyze", props=["C03"],
          types=dict(self=TsAnalyzerT, file_path=PathT, content=Str, config=DRYConfigT), returns=Blocks)
class TsAnalyze:
    """Property (completeness of recording): EVERY rolling window of the file becomes a stored block, with its data
    unchanged, unless it overlaps an interface/type declaration range, is classified as a single statement, or is
    rejected by the filter registry -- no other window is lost."""
    def requires(config):
        return config.min_duplicate_lines >= 1  # DRYConfig.__post_init__

    def value(self, file_path, content, config):
        return [block_of(file_path, w) for w in
                [(hash_val, start_line, end_line, snippet)
                 for hash_val, start_line, end_line, snippet in ts_windows(content, config.min_duplicate_lines)
                 if not hits_range(start_line, end_line, iface_ranges(content))
                 and not ts_single_statement(content, start_line, end_line)]
                if not block_filtered(block_of(file_path, w), content)]


# =================================================================== Python analyze()
AstT = Opaque("AstModule")
LineIndexT = Opaque("LineToNodeIndex")


def _py_ast_native(content):
    import ast as _ast
    try:
        return _ast.parse(content)
    except SyntaxError:
        return None


def _docstring_native(content):
    an = _real("src.linters.dry.python_analyzer", "PythonDuplicateAnalyzer")()
    return sorted(an._get_docstring_ranges_from_content(content))


py_ast = uf("dry_py_ast", [Str], Opt(AstT), concrete=_py_ast_native)
py_line_index = uf("dry_py_line_index", [Opt(AstT)], Opt(LineIndexT))
py_docstring_lines = uf("dry_py_docstring_lines", [Str], SeqOf(Int), concrete=_docstring_native)
PARSER = "CPython ast.parse / ast.walk (parser and tree walk are trusted; sets and dicts of node lists are outside the engine)"


@contract(PAN + "_parse_content_safe", props=["C03"], types=dict(content=Str), returns=Opt(AstT), assumed=PARSER)
class PyParseContentSafe:
    def value(content):
        return py_ast(content)


@contract(SSD + "build_line_to_node_index", props=["C03"], types=dict(tree=Opt(AstT)), returns=Opt(LineIndexT), assumed=PARSER)
class BuildLineToNodeIndex:
    def value(tree):
        return py_line_index(tree)


@contract(PAN + "_get_docstring_ranges_from_content", props=["C03"], types=dict(self=PyAnalyzerT, content=Str),
          returns=SeqOf(Int),
          assumed=PARSER + "; assumed to be a pure function of the content (line numbers of docstring expressions); only "
                           "membership of a line number is used by the caller")
class PyGetDocstringRanges:
    def value(content):
        return py_docstring_lines(content)


def py_windows(content, w):
    return twindows_from(track([(line_num, line) for line_num, line in enumerate(content.split("\n"), start=1)
                                if line_num not in py_docstring_lines(content)], False), w, 0)


@contract(PAN + "analyze", props=["C03"],
          types=dict(self=PyAnalyzerT, file_path=PathT, content=Str, config=DRYConfigT), returns=Blocks,
          modifies=["self._statement_detector"], inline=["__init__"])
class PyAnalyze:
    """Property (completeness of recording): every rolling window of the file becomes a stored block, data unchanged,
    unless it is classified as a single statement (a detector IS installed during the analysis) or rejected by the filter
    registry; the per-analysis detector is cleared afterwards."""
    def requires(config):
        return config.min_duplicate_lines >= 1  # DRYConfig.__post_init__

    def value(self, file_path, content, config):
        return [block for hash_val, start_line, end_line, snippet in py_windows(content, config.min_duplicate_lines)
                if (block := (block_of(file_path, (hash_val, start_line, end_line, snippet))
                              if py_keeps(True, file_path, content, (hash_val, start_line, end_line, snippet)) else None))]

    def ensures_detector_cleared(self):
        return self._statement_detector is None


# =================================================================== FileAnalyzer.analyze: language dispatch
FAN = "src/linters/dry/file_analyzer.py::FileAnalyzer."
FileAnalyzerT = Rec("FileAnalyzer", cls="src/linters/dry/file_analyzer.py::FileAnalyzer",
                    _python_analyzer=PyAnalyzerT, _typescript_analyzer=TsAnalyzerT)


@contract(FAN + "analyze", props=["C03"],
          types=dict(self=FileAnalyzerT, file_path=PathT, content=Str, language=Str, config=DRYConfigT), returns=Blocks,
          modifies=["self._python_analyzer._statement_detector"])
class FileAnalyzerAnalyze:
    """Property: Python files go to the Python analyzer, TypeScript AND JavaScript files to the TypeScript analyzer;
    every other language records nothing."""
    def requires(config):
        return config.min_duplicate_lines >= 1

    def value(self, file_path, content, language, config):
        return ([block for hash_val, start_line, end_line, snippet in py_windows(content, config.min_duplicate_lines)
                 if (block := (block_of(file_path, (hash_val, start_line, end_line, snippet))
                               if py_keeps(True, file_path, content, (hash_val, start_line, end_line, snippet)) else None))]
                if language == "python" else
                ([block_of(file_path, w) for w in
                  [(hash_val, start_line, end_line, snippet)
                   for hash_val, start_line, end_line, snippet in ts_windows(content, config.min_duplicate_lines)
                   if not hits_range(start_line, end_line, iface_ranges(content))
                   and not ts_single_statement(content, start_line, end_line)]
                  if not block_filtered(block_of(file_path, w), content)]
                 if language in ("typescript", "javascript") else []))


# =================================================================== every run starts from an empty store
SI = "src/linters/dry/storage_initializer.py::StorageInitializer."
DRYL = "src/linters/dry/linter.py::DRYRule."
from contracts.c15_language import CtxT as LintCtxT  # noqa: E402

# natively a REAL, valid DRYConfig (the record type of contracts/c05_config.py lists only the fields its clauses read;
# assumed callees such as FileAnalyzer.__init__ read others, e.g. `filters`)
DryConfigGenT = DRYConfigT.with_gen(lambda g: _real("src.linters.dry.config", "DRYConfig")(
    enabled=True, min_duplicate_lines=g.rng.randrange(1, 6), min_occurrences=g.rng.randrange(1, 5),
    storage_mode=g.rng.choice(["memory", "tempfile"])))
StorageInitializerT = Rec("StorageInitializer", cls="src/linters/dry/storage_initializer.py::StorageInitializer",
                          pycls="src.linters.dry.storage_initializer:StorageInitializer", closed=True)


@contract(SI + "initialize", props=["C03", "C08"], types=dict(self=StorageInitializerT, context=LintCtxT, config=DryConfigGenT),
          returns=StorageT, inline=["src/linters/dry/duplicate_storage.py::DuplicateStorage.__init__"])
class StorageInitialize:
    """Property ('projects that share no run produce no DRY violation'; nothing stored by an earlier run may be seen):
    every call hands out a store that holds no code block, and the initializer itself keeps nothing."""
    def requires(config):
        return config.storage_mode in ("memory", "tempfile")  # DRYConfig.__post_init__

    def ensures_every_run_starts_from_an_empty_store(result):
        return db_empty(result._cache.db)


@contract(FAN + "__init__", props=["C03"], types=dict(self=FileAnalyzerT, config=Opt(DRYConfigT)),
          modifies=["self._python_analyzer", "self._typescript_analyzer"],
          assumed="builds the block-filter registry from config.filters (dict iteration over an unmodelled field) and the two "
                  "language analyzers; the Python analyzer starts without a statement detector")
class FileAnalyzerInit:
    def ensures_no_detector_yet(self):
        return self._python_analyzer._statement_detector is None


# the rule's storage-related fields (contracts/c08_state.py has its own, coarser view of the same class for C08)
DRYRuleT = Rec("DRYRule", cls="src/linters/dry/linter.py::DRYRule", _storage=Opt(StorageT), _initialized=Bool,
               _file_analyzer=Opt(FileAnalyzerT),
               _helpers=Rec("DRYComponents", cls="src/linters/dry/linter.py::DRYComponents", storage_initializer=StorageInitializerT))


@contract(DRYL + "_ensure_storage_initialized", props=["C03", "C08"],
          types=dict(self=DRYRuleT, context=LintCtxT, config=DryConfigGenT),
          modifies=["self._storage", "self._file_analyzer", "self._initialized"])
class EnsureStorageInitialized:
    def requires(config):
        return config.storage_mode in ("memory", "tempfile")

    def ensures_first_file_of_a_run_gets_an_empty_store(self, old):
        return implies(not old.self._initialized,
                       self._initialized and self._storage is not None and db_empty(self._storage._cache.db)
                       and self._file_analyzer is not None)

    def ensures_later_files_keep_the_store(self, old):
        # (stated on the store's database token, not on object equality: the objects define no __eq__)
        return (not old.self._initialized) or (
            self._initialized and (self._storage is None) == (old.self._storage is None)
            and (self._storage is None or self._storage._cache.db == old.self._storage._cache.db)
            and (self._file_analyzer is None) == (old.self._file_analyzer is None))


@contract(DRYL + "_can_analyze", props=["C03"], types=dict(self=DRYRuleT, context=LintCtxT), returns=Bool)
class CanAnalyze:
    def value(self, context):
        return context.file_path is not None and context.file_content is not None and self._file_analyzer is not None \
            and self._storage is not None


@contract(DRYL + "_active_storage", props=["C03"], types=dict(self=DRYRuleT), returns=StorageT, raises=["AssertionError"])
class ActiveStorage:
    def raises_when(self):
        return self._storage is None

    def value(self):
        return self._storage


@contract(DRYL + "_active_file_analyzer", props=["C03"], types=dict(self=DRYRuleT), returns=FileAnalyzerT,
          raises=["AssertionError"])
class ActiveFileAnalyzer:
    def raises_when(self):
        return self._file_analyzer is None

    def value(self):
        return self._file_analyzer


def analyze_spec(file_path, content, language, config):
    """FileAnalyzer.analyze as a function (its contract's value)."""
    return ([block for hash_val, start_line, end_line, snippet in py_windows(content, config.min_duplicate_lines)
             if (block := (block_of(file_path, (hash_val, start_line, end_line, snippet))
                           if py_keeps(True, file_path, content, (hash_val, start_line, end_line, snippet)) else None))]
            if language == "python" else
            ([block_of(file_path, w) for w in
              [(hash_val, start_line, end_line, snippet)
               for hash_val, start_line, end_line, snippet in ts_windows(content, config.min_duplicate_lines)
               if not hits_range(start_line, end_line, iface_ranges(content))
               and not ts_single_statement(content, start_line, end_line)]
              if not block_filtered(block_of(file_path, w), content)]
             if language in ("typescript", "javascript") else []))


@contract(DRYL + "_analyze_and_store", props=["C03"], types=dict(self=DRYRuleT, context=LintCtxT, config=DryConfigGenT, blocks=Blocks),
          modifies=["self._storage", "self._file_analyzer"],  # (optional fields: the frame is stated per clause below)
          raises=["AssertionError"])
class AnalyzeAndStore:
    """Property (completeness of recording): for a file that can be analysed, exactly the blocks the analyzer yields for
    THIS file and language are inserted under THIS file's path; otherwise the store is untouched."""
    def requires(config):
        return config.min_duplicate_lines >= 1

    def raises_when(self):
        return False

    def ensures_stores_the_blocks_of_this_file(self, context, config, old):
        return implies(context.file_path is not None and context.file_content is not None
                       and old.self._file_analyzer is not None and old.self._storage is not None,
                       self._storage._cache.db == (
                           db_insert(old.self._storage._cache.db, context.file_path,
                                     analyze_spec(context.file_path, context.file_content, context.language, config))
                           if len(analyze_spec(context.file_path, context.file_content, context.language, config)) > 0
                           else old.self._storage._cache.db))

    def ensures_store_and_analyzer_stay_in_place(self, old):
        # (the frame of the two optional fields: analysing a file never drops or creates the store / the analyzer)
        return (self._storage is None) == (old.self._storage is None) \
            and (self._file_analyzer is None) == (old.self._file_analyzer is None)

    def ensures_store_untouched_when_not_analysable(self, context, old):
        return (context.file_path is not None and context.file_content is not None
                and old.self._file_analyzer is not None and old.self._storage is not None) or (
            (self._storage is None) == (old.self._storage is None)
            and (self._storage is None or self._storage._cache.db == old.self._storage._cache.db))


# =================================================================== C03 depends on contracts owned by other properties
# One contract per function, several properties: the functions below are on the path from the observation point (rule
# check()/finalize()) to the DRY pipeline and are contracted by the files of other properties. C03 DEPENDS on them, so it
# adds its id to their `props` (they then also run under ./check C03); a target that is missing is reported by the
# custom check `dry-dependency-cone` instead of being silently skipped.
from pyvc import api as _api  # noqa: E402

C03_DEPENDS = [
    ("src/core/linter_utils.py::should_process_file", "a file without path or content is not analysed"),
    ("src/core/linter_utils.py::has_file_content", "part of should_process_file"),
    ("src/core/linter_utils.py::has_file_path", "part of should_process_file"),
    ("src/linters/dry/config.py::DRYConfig.__post_init__", "min_duplicate_lines / min_occurrences >= 1, storage mode valid"),
    ("src/linters/dry/config.py::DRYConfig._validate_positive_fields", "part of __post_init__"),
    ("src/linters/dry/linter.py::DRYRule._process_file", "per-file collection step: initialise storage, analyse and store"),
    ("src/linters/dry/linter.py::DRYRule.finalize", "reports the collected evidence and leaves the rule clean for the next run"),
    ("src/linters/dry/inline_ignore.py::InlineIgnoreParser.parse_file", "records the `# dry: ignore-*` ranges of a file"),
    ("src/linters/dry/inline_ignore.py::InlineIgnoreParser.clear", "ignore ranges do not leak into the next run"),
    ("src/linters/dry/inline_ignore.py::InlineIgnoreParser._parse_ignore_directive", "range of one directive"),
    ("src/linters/dry/inline_ignore.py::InlineIgnoreParser._check_range_overlap", "range test of should_ignore"),
    ("src/linters/dry/inline_ignore.py::InlineIgnoreParser._check_single_line", "line test of should_ignore"),
]
_DEP_IMPORT_ERRORS = {}
for _m in ("contracts.c05_config", "contracts.c11_containment", "contracts.c04_checkers", "contracts.c04_dry_content",
           "contracts.c08_state"):
    try:
        __import__(_m)
    except BaseException as _e:  # noqa  (reported by the cone check below, never silently)
        _DEP_IMPORT_ERRORS[_m] = repr(_e)[:200]
for _t, _why in C03_DEPENDS:
    _c = _api.REGISTRY.get(_t)
    if _c is not None and "C03" not in _c.props:
        _c.props.append("C03")


@custom("dry-dependency-cone", props=["C03"])
def dry_dependency_cone(ctx):
    """Mechanical: every function C03 depends on through another property's file is still under a contract that
    carries C03 (a vanished or renamed target => undecided, never a silent loss of coverage)."""
    missing = [t for t, _ in C03_DEPENDS if t not in _api.REGISTRY or "C03" not in _api.REGISTRY[t].props]
    ok = not missing
    return [{"name": "custom:dry-dependency-cone/contracts-of-other-properties-carry-C03", "kind": "custom",
             "verdict": "discharged" if ok else "unknown", "solver": "registry", "ms": 0.0, "carries": False, "lineno": 0,
             "note": "" if ok else f"no contract carrying C03 for {missing} (import errors: {_DEP_IMPORT_ERRORS})"}]
