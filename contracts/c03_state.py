"""C03 (part 6) -- the rule's evidence never outlives a run: what check() leaves behind is what finalize() cleans.

DRYRule.finalize (contracts/c08_state.py, props C08 C12 C13 C19 + C03 by load-time extension) re-establishes Clean
(no store, no analyzer, no config, no project root, no constants, no cached text, no ignore ranges) WHENEVER the rule
holds a store and a config, and leaves a rule that holds neither exactly as it was. "finalize leaves nothing behind on
EVERY path" therefore needs the producer side: everything check() / _process_file record (cached text, ignore ranges,
constants, blocks) is recorded only together with a store and a config. That is stated and verified here:
  _process_file  returns with self._storage set and self._initialized (every file that caches text initialises the store);
  check          either leaves the rule untouched (no content / rule disabled) or returns with BOTH self._config and
                 self._storage set -- so the finalize that follows takes the cleaning path."""
from pyvc.api import contract, Int, Bool, Str, SeqOf, Opt, Rec, Dict, Opaque, implies, uf
from contracts._common import ViolationT, PathT
from contracts.c04_checkers import CtxT
from contracts.c05_config import DRYConfigT
from contracts.c03_report import DryConfigGenT  # natively a real, valid DRYConfig
from contracts.c04_dry_content import DRYRuleT as _ContentRuleT

DRY = "src/linters/dry/linter.py::"
CL = "src/linters/dry/config_loader.py::ConfigLoader."
LoaderT = Rec("ConfigLoader", cls="src/linters/dry/config_loader.py::ConfigLoader")
RuleT = _ContentRuleT.extend(_config=Opt(DRYConfigT),
                             _helpers=_ContentRuleT.fields["_helpers"].extend(config_loader=LoaderT))



def _load_config_native(context):
    from pyvc import native as _native
    _native._ensure_repo_on_path()
    from src.linters.dry.config_loader import ConfigLoader
    return ConfigLoader().load_config(context)


dry_loaded_config = uf("dry_loaded_config", [CtxT], DRYConfigT, concrete=_load_config_native)


def coherent(rule):
    """Object invariant of DRYRule (established by __init__, re-established by finalize): the initialised flag, the
    store and the file analyzer come and go together."""
    return rule._initialized == (rule._storage is not None) and rule._initialized == (rule._file_analyzer is not None)


@contract(CL + "load_config", props=["C03", "C08"], types=dict(self=LoaderT, context=CtxT), returns=DRYConfigT,
          assumed="reads context.metadata['dry'] (dynamic attribute + dict of the orchestrator) and builds a VALIDATED DRYConfig "
                  "(DRYConfig.from_dict / __post_init__, verified in contracts/c05_config.py); a pure function of the context")
class LoadConfig:
    def value(context):
        return dry_loaded_config(context)

    def ensures_validated(result):
        return result.storage_mode in ("memory", "tempfile") and result.min_duplicate_lines >= 1 and result.min_occurrences >= 1


@contract(DRY + "DRYRule._process_file~evidence-needs-a-store", props=["C03", "C08"],
          types=dict(self=RuleT, context=CtxT, config=DryConfigGenT, file_path=PathT),
          modifies=["self._file_contents", "self._project_root", "self._storage", "self._file_analyzer", "self._initialized",
                    "self._constants", "self._helpers.inline_ignore._ignore_ranges"])
class ProcessFileNeedsStore:
    def requires(self, context, config):
        return context.file_path is not None and context.file_content is not None \
            and config.storage_mode in ("memory", "tempfile") and config.min_duplicate_lines >= 1 and coherent(self)

    def ensures_invariant_kept(self):
        return coherent(self)

    def ensures_whatever_is_cached_comes_with_a_store(self):
        # text, ignore ranges, constants and blocks of a file are recorded only in a rule that holds an initialised store
        return self._storage is not None and self._initialized and self._file_analyzer is not None

    def ensures_config_untouched(self, old):
        return (self._config is None) == (old.self._config is None)


@contract(DRY + "DRYRule.check", props=["C03", "C08"], types=dict(self=RuleT, context=CtxT, config=DRYConfigT),
          returns=SeqOf(ViolationT),
          modifies=["self._config", "self._file_contents", "self._project_root", "self._storage", "self._file_analyzer",
                    "self._initialized", "self._constants", "self._helpers.inline_ignore._ignore_ranges"],
          inline=["_process_file"])  # (its primary contract, contracts/c04_dry_content.py, speaks about the text cache only)
class DryCheck:
    """Collection phase: reports nothing itself; see the module docstring for the state clauses."""
    def requires(self):
        return coherent(self)

    def ensures_invariant_kept(self):
        return coherent(self)

    def ensures_reports_nothing_before_finalize(result):
        return len(result) == 0

    def ensures_skipped_file_leaves_the_rule_untouched(self, context, old):
        return implies(context.file_content is None or context.file_path is None or not dry_loaded_config(context).enabled,
                       (self._storage is None) == (old.self._storage is None) and (self._config is None) == (old.self._config is None)
                       and self._initialized == old.self._initialized and self._file_contents == old.self._file_contents
                       and self._constants == old.self._constants)

    def ensures_evidence_comes_with_config_and_store(self, context, old):
        # ... so that the finalize() of this run takes the path that cleans everything
        return implies(context.file_content is not None and context.file_path is not None and dry_loaded_config(context).enabled,
                       self._config is not None and self._storage is not None and self._initialized)
