"""C03 (part 1) -- DRY linter: normalisation, line tracking and rolling hash windows.

src/linters/dry/token_hasher.py, python_analyzer.py, typescript_analyzer.py.

Top-level spec (property text): with norm(file) the sequence of (original line, normalised text) pairs of the ordinary
statement lines of a file, every index i with i + w <= len(norm) has exactly one window
(hash(join(texts[i:i+w])), line[i], line[i+w-1], join(texts[i:i+w])) -- no window is missed by the rolling scan, and
the reported start/end are ORIGINAL line numbers. Normalisation = comment stripping (prefix before the first '#',
then before the first '//') followed by whitespace collapsing; `hash` of a str and `"\\n".join` are the engine's
uninterpreted builtins (hash collision-freedom and injectivity of join on newline-free lines are assumptions of C03).
The statement-classification heuristics (single_statement_detector.py, block_filter.py, typescript_statement_detector)
are NOT under contract (DESIGN.md 3/C03: assumed as documented)."""
from pyvc.api import contract, lemma, Int, Bool, Str, SeqOf, TupleOf, Opt, implies, call, ih, opaque, reveal, use

T = "src/linters/dry/token_hasher.py::"
PA = "src/linters/dry/python_analyzer.py::PythonDuplicateAnalyzer."
TA = "src/linters/dry/typescript_analyzer.py::TypeScriptDuplicateAnalyzer."

WinT = TupleOf(Int, Int, Int, Str)          # (hash_value, start_line, end_line, snippet)
NumLineT = TupleOf(Int, Str)                # (original line number, normalised text)


# ------------------------------------------------------------------ comment stripping / normalisation
def strip_spec(line):
    """Property text: the part before the first '#', then the part of that before the first '//'."""
    a = line[: line.find("#")] if "#" in line else line
    return a[: a.find("//")] if "//" in a else a


@contract(T + "_strip_comments", props=["C03", "C13"], types=dict(line=Str), returns=Str)
class StripComments:
    def value(line):
        return strip_spec(line)

    def ensures_identity_without_markers(line, result):
        return implies("#" not in line and "//" not in line, result == line)


@opaque
def norm(line: Str) -> Str:
    """The normalisation of one source line: comments stripped, whitespace runs collapsed to one blank, trimmed.
    (`split()`/`join` are uninterpreted builtins of the engine; the definition is revealed only for normalize_line.)"""
    return " ".join(strip_spec(line).split())


@contract(T + "normalize_line", props=["C03", "C13"], types=dict(line=Str), returns=Str)
class NormalizeLine:
    def reveals(line):
        return reveal(norm, line)

    def value(line):
        return norm(line)


# ------------------------------------------------------------------ import lines
def is_import(line):
    return line.startswith(("import ", "from ", "export ")) or line in ("{", "}", "} from")


@contract(T + "_is_import_statement", props=["C03"], types=dict(line=Str), returns=Bool)
class IsImportStatement:
    def value(line):
        return is_import(line)


@contract(T + "_is_multiline_import_start", props=["C03"], types=dict(line=Str), returns=Bool)
class IsMultilineImportStart:
    def value(line):
        return is_import(line) and "(" in line and ")" not in line


@contract(T + "_handle_multiline_import_continuation", props=["C03"], types=dict(line=Str), returns=TupleOf(Bool, Bool))
class HandleMultilineImportContinuation:
    def value(line):
        return (")" not in line, True)


def skip_state(line, in_multi):
    """New 'inside a parenthesised multi-line import' state after seeing the normalised line: switched on by an import
    line with '(' and no ')', kept on until a line containing ')'. (One expression: spec functions with `if` fork.)"""
    return (is_import(line) and "(" in line and ")" not in line) or (in_multi and ")" not in line)


def skip_line(line, in_multi):
    """The normalised line belongs to an import statement (and is therefore not an ordinary statement line)."""
    return (is_import(line) and "(" in line and ")" not in line) or in_multi or is_import(line)


@contract(T + "should_skip_import_line", props=["C03"], types=dict(line=Str, in_multiline_import=Bool),
          returns=TupleOf(Bool, Bool))
class ShouldSkipImportLine:
    def value(line, in_multiline_import):
        return (skip_state(line, in_multiline_import), skip_line(line, in_multiline_import))

    def ensures_ordinary_line_kept(line, in_multiline_import, result):
        # a line that is not an import and not inside a multi-line import is never skipped and leaves the state off
        return implies(not in_multiline_import and not is_import(line), result == (False, False))

    def ensures_skips_every_import(line, in_multiline_import, result):
        return implies(is_import(line) or in_multiline_import, result[1])


# ------------------------------------------------------------------ tokenize (plain variant used by BaseTokenAnalyzer)
def tok(lines: SeqOf(Str), in_multi: Bool) -> SeqOf(Str):
    """Normalised, non-empty, non-import lines in order."""
    if len(lines) == 0:
        return []
    if len(norm(lines[0])) == 0:
        return tok(lines[1:], in_multi)
    if skip_line(norm(lines[0]), in_multi):
        return tok(lines[1:], skip_state(norm(lines[0]), in_multi))
    return [norm(lines[0])] + tok(lines[1:], skip_state(norm(lines[0]), in_multi))


@contract(T + "tokenize", props=["C03"], types=dict(code=Str, lines=SeqOf(Str), in_multiline_import=Bool, line=Str,
                                                   should_skip=Bool), returns=SeqOf(Str))
class Tokenize:
    def value(code):
        return tok(code.split("\n"), False)

    def ensures_lines_are_physical_lines(code, result):
        return result == tok(code.split("\n"), False)

    def witness_lines_are_physical_lines():
        return {"code": ODD_SEPARATORS}

    def inv0(code, lines, in_multiline_import, rest):
        return tok(code.split("\n"), False) == lines + tok(rest, in_multiline_import)


# ------------------------------------------------------------------ rolling hash over plain lines (1-based positions)
def win(lines, w, i):
    """The window starting at index i: hash and text of lines[i:i+w], positions i+1 .. i+w."""
    return (hash("\n".join(lines[i:i + w])), i + 1, i + w, "\n".join(lines[i:i + w]))


@opaque
def windows_from(lines: SeqOf(Str), w: Int, i: Int) -> SeqOf(WinT):
    """All windows starting at index >= i, in order (one per index that still has w lines)."""
    if i < 0 or i + w > len(lines):
        return []
    return [win(lines, w, i)] + windows_from(lines, w, i + 1)


@contract(T + "rolling_hash", props=["C03", "C13"],
          types=dict(lines=SeqOf(Str), window_size=Int, hashes=SeqOf(WinT), window=SeqOf(Str), snippet=Str, hash_val=Int,
                     start_line=Int, end_line=Int),
          returns=SeqOf(WinT))
class RollingHash:
    def requires(lines, window_size):
        return window_size >= 1

    def reveals(lines, window_size):
        return reveal(windows_from, lines, window_size, 0)

    def value(lines, window_size):
        return windows_from(lines, window_size, 0)

    def inv0(lines, window_size, hashes, i):
        # `i` is the index of the next window; one unfolding of the (opaque) spec at i is all a step needs
        return reveal(windows_from, lines, window_size, i) and \
            windows_from(lines, window_size, 0) == hashes + windows_from(lines, window_size, i)


@lemma(props=["C03", "C13"], types=dict(a=WinT, r=SeqOf(WinT), j=Int), name="window-cons-index")
def win_cons_index(a, r, j):
    """Pure (sequences): indexing into [a] + r."""
    return len([a] + r) == len(r) + 1 and ([a] + r)[0] == a and implies(1 <= j and j <= len(r), ([a] + r)[j] == r[j - 1])


@lemma(props=["C03"], types=dict(k=Int, lines=SeqOf(Str), w=Int, j=Int), name="windows-from-indexing")
def windows_indexing(k, lines, w, j):
    """Pure: with k = number of windows still to come (start index i = len - w + 1 - k) the list windows_from(i) has
    exactly k elements and its j-th element is the window of index i + j."""
    i = len(lines) - w + 1 - k
    if w < 1 or k < 0 or i < 0:
        return True
    reveal(windows_from, lines, w, i)
    if k == 0:
        return len(windows_from(lines, w, i)) == 0
    ih(windows_indexing, k - 1, lines, w, j - 1)
    use(win_cons_index, win(lines, w, i), windows_from(lines, w, i + 1), j)
    return len(windows_from(lines, w, i)) == k and \
        implies(0 <= j and j < k, windows_from(lines, w, i)[j] == win(lines, w, i + j))


@lemma(props=["C03"], types=dict(lines=SeqOf(Str), w=Int, j=Int), name="rolling-hash-complete")
def rolling_hash_complete(lines, w, j):
    """Property: rolling_hash yields max(0, n-w+1) windows and window j is exactly (hash(join(lines[j:j+w])), j+1, j+w,
    join(lines[j:j+w])) -- every index has its window (no run is missed by the scan)."""
    if w < 1:
        return True
    r = call(T + "rolling_hash", lines, w)
    n = len(lines) - w + 1
    reveal(windows_from, lines, w, 0)
    if n <= 0:
        return len(r) == 0
    use(windows_indexing, n, lines, w, j)
    return len(r) == n and implies(0 <= j and j < n, r[j] == win(lines, w, j))


# ------------------------------------------------------------------ line-tracked tokenisation (Python and TypeScript analyzers)
def naf(line, in_multi):
    """_normalize_and_filter_line: (new multi-line-import state, normalised text or None when the line is dropped)."""
    if len(norm(line)) == 0:
        return (in_multi, None)
    if skip_line(norm(line), in_multi):
        return (skip_state(norm(line), in_multi), None)
    return (skip_state(norm(line), in_multi), norm(line))


@contract(PA + "_normalize_and_filter_line", props=["C03", "C13"], types=dict(line=Str, in_multiline_import=Bool),
          returns=TupleOf(Bool, Opt(Str)))
class PyNormalizeAndFilterLine:
    def value(line, in_multiline_import):
        return naf(line, in_multiline_import)

    def ensures_kept_text_is_the_normalised_line(line, in_multiline_import, result):
        return implies(result[1] is not None, result[1] == norm(line) and len(result[1]) > 0)


@contract(TA + "_normalize_and_filter_line", props=["C03", "C13"], types=dict(line=Str, in_multiline_import=Bool),
          returns=TupleOf(Bool, Opt(Str)))
class TsNormalizeAndFilterLine:
    def value(line, in_multiline_import):
        return naf(line, in_multiline_import)

    def ensures_kept_text_is_the_normalised_line(line, in_multiline_import, result):
        return implies(result[1] is not None, result[1] == norm(line) and len(result[1]) > 0)


@opaque
def track(pairs: SeqOf(NumLineT), in_multi: Bool) -> SeqOf(NumLineT):
    """Fold of _normalize_and_filter_line over (line number, raw line) pairs: kept lines keep their number."""
    if len(pairs) == 0:
        return []
    if len(norm(pairs[0][1])) == 0:
        return track(pairs[1:], in_multi)
    if skip_line(norm(pairs[0][1]), in_multi):
        return track(pairs[1:], skip_state(norm(pairs[0][1]), in_multi))
    return [(pairs[0][0], norm(pairs[0][1]))] + track(pairs[1:], skip_state(norm(pairs[0][1]), in_multi))


# Characters that str.splitlines() (and some editors' "smart" splitting) treat as line boundaries but that are NOT line
# terminators of the file: the original line numbers of the property are those of the "\n"-separated physical lines
# (the parser, the block filters and every named location count lines that way).
ODD_SEPARATORS = "x = 1\x0c\ny = 2  # page\x0b break\x1c\x1d\x1e\nz = 3  # nel\x85 ls\u2028 ps\u2029 end\r\nw = x + y\n\nv = z\n"


def _tracking_witness(skip_name):
    return {"self": {}, "content": ODD_SEPARATORS, skip_name: [5]}


@contract(PA + "_tokenize_with_line_numbers", props=["C03", "C13"],
          types=dict(content=Str, docstring_lines=SeqOf(Int), lines_with_numbers=SeqOf(NumLineT), in_multiline_import=Bool,
                     non_docstring_lines=SeqOf(NumLineT), line_num=Int, line=Str, normalized=Opt(Str)),
          returns=SeqOf(NumLineT))
class PyTokenizeWithLineNumbers:
    def value(content, docstring_lines):
        return track([(line_num, line) for line_num, line in enumerate(content.split("\n"), start=1)
                      if line_num not in docstring_lines], False)

    def ensures_numbers_are_physical_line_numbers(content, docstring_lines, result):
        # soundness of every reported location: a tracked statement carries the number of its "\n"-separated line
        return result == track([(line_num, line) for line_num, line in enumerate(content.split("\n"), start=1)
                                if line_num not in docstring_lines], False)

    def witness_numbers_are_physical_line_numbers():
        return _tracking_witness("docstring_lines")

    def inv0(non_docstring_lines, lines_with_numbers, in_multiline_import, rest):
        return reveal(track, rest, in_multiline_import) and track(non_docstring_lines, False) == lines_with_numbers + track(rest, in_multiline_import)


@contract(TA + "_tokenize_with_line_numbers", props=["C03", "C13"],
          types=dict(content=Str, jsdoc_lines=SeqOf(Int), lines_with_numbers=SeqOf(NumLineT), in_multiline_import=Bool,
                     non_jsdoc_lines=SeqOf(NumLineT), line_num=Int, line=Str, normalized=Opt(Str)),
          returns=SeqOf(NumLineT))
class TsTokenizeWithLineNumbers:
    def value(content, jsdoc_lines):
        return track([(line_num, line) for line_num, line in enumerate(content.split("\n"), start=1)
                      if line_num not in jsdoc_lines], False)

    def ensures_numbers_are_physical_line_numbers(content, jsdoc_lines, result):
        return result == track([(line_num, line) for line_num, line in enumerate(content.split("\n"), start=1)
                                if line_num not in jsdoc_lines], False)

    def witness_numbers_are_physical_line_numbers():
        return _tracking_witness("jsdoc_lines")

    def inv0(non_jsdoc_lines, lines_with_numbers, in_multiline_import, rest):
        return reveal(track, rest, in_multiline_import) and track(non_jsdoc_lines, False) == lines_with_numbers + track(rest, in_multiline_import)


@opaque
def tracked(lines: SeqOf(Str), k: Int, skip: SeqOf(Int), in_multi: Bool) -> SeqOf(NumLineT):
    """Top-level description of line tracking: walk the raw lines numbered k, k+1, ...; drop numbers in `skip`
    (docstring / JSDoc lines), blank and comment-only lines and import lines; keep (number, normalised text)."""
    if len(lines) == 0:
        return []
    if k in skip or len(norm(lines[0])) == 0:
        return tracked(lines[1:], k + 1, skip, in_multi)
    if skip_line(norm(lines[0]), in_multi):
        return tracked(lines[1:], k + 1, skip, skip_state(norm(lines[0]), in_multi))
    return [(k, norm(lines[0]))] + tracked(lines[1:], k + 1, skip, skip_state(norm(lines[0]), in_multi))


@lemma(props=["C03", "C13"], types=dict(lines=SeqOf(Str), k=Int, skip=SeqOf(Int), m=Bool), name="line-tracking-fusion")
def tracking_fusion(lines, k, skip, m):
    """Pure: the code's pipeline (enumerate from k, filter by the skip set, fold) is the one-pass description."""
    reveal(tracked, lines, k, skip, m)
    reveal(track, [(n, x) for n, x in enumerate(lines, start=k) if n not in skip], m)
    return (len(lines) == 0 or (ih(tracking_fusion, lines[1:], k + 1, skip, m)
                                and ih(tracking_fusion, lines[1:], k + 1, skip, skip_state(norm(lines[0]), m)))) and \
        track([(n, x) for n, x in enumerate(lines, start=k) if n not in skip], m) == tracked(lines, k, skip, m)


def tracked_elem_bounds(lines, k, skip, m, j):
    """Element j of tracked(..): its number is an un-skipped line number of the input and its text is not empty."""
    return implies(0 <= j and j < len(tracked(lines, k, skip, m)),
                   k <= tracked(lines, k, skip, m)[j][0] and tracked(lines, k, skip, m)[j][0] < k + len(lines)
                   and len(tracked(lines, k, skip, m)[j][1]) > 0 and tracked(lines, k, skip, m)[j][0] not in skip)


def tracked_elem_text(lines, k, skip, m, j):
    """... and its text is the normalisation of exactly that line."""
    return implies(0 <= j and j < len(tracked(lines, k, skip, m)),
                   tracked(lines, k, skip, m)[j][1] == norm(lines[tracked(lines, k, skip, m)[j][0] - k]))


def tracked_elem_ok(lines, k, skip, m, j):
    return tracked_elem_bounds(lines, k, skip, m, j) and tracked_elem_text(lines, k, skip, m, j)


@lemma(props=["C03", "C13"], types=dict(s=SeqOf(Str), i=Int), name="tail-index")
def tail_index(s, i):
    """Pure (sequences): element i of the tail is element i + 1."""
    return implies(0 <= i and i + 1 < len(s), s[1:][i] == s[i + 1])


@lemma(props=["C03", "C13"], types=dict(a=NumLineT, r=SeqOf(NumLineT), j=Int), name="cons-index")
def cons_index(a, r, j):
    """Pure (sequences): indexing into [a] + r."""
    return len([a] + r) == len(r) + 1 and ([a] + r)[0] == a and implies(1 <= j and j <= len(r), ([a] + r)[j] == r[j - 1])


@lemma(props=["C03", "C13"], types=dict(lines=SeqOf(Str), k=Int, skip=SeqOf(Int), m=Bool, j=Int), name="tracked-line-numbers-in-range")
def tracked_bounds(lines, k, skip, m, j):
    reveal(tracked, lines, k, skip, m)
    return (len(lines) == 0 or (ih(tracked_bounds, lines[1:], k + 1, skip, m, j)
                                and ih(tracked_bounds, lines[1:], k + 1, skip, skip_state(norm(lines[0]), m), j)
                                and ih(tracked_bounds, lines[1:], k + 1, skip, skip_state(norm(lines[0]), m), j - 1)
                                and use(cons_index, (k, norm(lines[0])), tracked(lines[1:], k + 1, skip, skip_state(norm(lines[0]), m)), j))) and \
        tracked_elem_bounds(lines, k, skip, m, j)


@lemma(props=["C03", "C13"], types=dict(lines=SeqOf(Str), k=Int, skip=SeqOf(Int), m=Bool, j=Int), name="tracked-lines-are-original")
def tracked_lines(lines, k, skip, m, j):
    reveal(tracked, lines, k, skip, m)
    return (len(lines) == 0 or (ih(tracked_lines, lines[1:], k + 1, skip, m, j)
                                and ih(tracked_lines, lines[1:], k + 1, skip, skip_state(norm(lines[0]), m), j)
                                and ih(tracked_lines, lines[1:], k + 1, skip, skip_state(norm(lines[0]), m), j - 1)
                                and use(cons_index, (k, norm(lines[0])), tracked(lines[1:], k + 1, skip, skip_state(norm(lines[0]), m)), j)
                                and use(tracked_bounds, lines[1:], k + 1, skip, m, j)
                                and use(tracked_bounds, lines[1:], k + 1, skip, skip_state(norm(lines[0]), m), j)
                                and use(tracked_bounds, lines[1:], k + 1, skip, skip_state(norm(lines[0]), m), j - 1)
                                and use(tail_index, lines, tracked(lines[1:], k + 1, skip, m)[j][0] - (k + 1))
                                and use(tail_index, lines, tracked(lines[1:], k + 1, skip, skip_state(norm(lines[0]), m))[j][0] - (k + 1))
                                and use(tail_index, lines, tracked(lines[1:], k + 1, skip, skip_state(norm(lines[0]), m))[j - 1][0] - (k + 1)))) and \
        use(tracked_bounds, lines, k, skip, m, j) and tracked_elem_ok(lines, k, skip, m, j)


def tracked_order_ok(lines, k, skip, m, j):
    """Numbers are strictly increasing: order preserved, no line emitted twice."""
    return implies(0 <= j and j + 1 < len(tracked(lines, k, skip, m)),
                   tracked(lines, k, skip, m)[j][0] < tracked(lines, k, skip, m)[j + 1][0])


@lemma(props=["C03", "C13"], types=dict(lines=SeqOf(Str), k=Int, skip=SeqOf(Int), m=Bool, j=Int), name="tracked-lines-keep-order")
def tracked_order(lines, k, skip, m, j):
    reveal(tracked, lines, k, skip, m)
    return (len(lines) == 0 or (ih(tracked_order, lines[1:], k + 1, skip, m, j)
                                and ih(tracked_order, lines[1:], k + 1, skip, skip_state(norm(lines[0]), m), j)
                                and ih(tracked_order, lines[1:], k + 1, skip, skip_state(norm(lines[0]), m), j - 1)
                                and use(tracked_lines, lines[1:], k + 1, skip, skip_state(norm(lines[0]), m), 0)
                                and use(cons_index, (k, norm(lines[0])), tracked(lines[1:], k + 1, skip, skip_state(norm(lines[0]), m)), j)
                                and use(cons_index, (k, norm(lines[0])), tracked(lines[1:], k + 1, skip, skip_state(norm(lines[0]), m)), j + 1))) and \
        tracked_order_ok(lines, k, skip, m, j)


def tracking_property(content, skip, r, j):
    return implies(0 <= j and j < len(r),
                   1 <= r[j][0] and r[j][0] <= len(content.split("\n")) and r[j][1] == norm(content.split("\n")[r[j][0] - 1])
                   and len(r[j][1]) > 0 and r[j][0] not in skip
                   and implies(j + 1 < len(r), r[j][0] < r[j + 1][0]))


@lemma(props=["C03", "C13"], types=dict(content=Str, skip=SeqOf(Int), j=Int), name="py-line-tracking")
def py_line_tracking(content, skip, j):
    """Property: every (ln, t) emitted for a Python file has t = normalize(line ln of the file), ln is not a docstring
    line, t is not empty, and the emitted line numbers are strictly increasing."""
    r = call(PA + "_tokenize_with_line_numbers", None, content, skip)
    use(tracking_fusion, content.split("\n"), 1, skip, False)
    use(tracked_lines, content.split("\n"), 1, skip, False, j)
    use(tracked_order, content.split("\n"), 1, skip, False, j)
    return tracking_property(content, skip, r, j)


@lemma(props=["C03", "C13"], types=dict(content=Str, skip=SeqOf(Int), j=Int), name="ts-line-tracking")
def ts_line_tracking(content, skip, j):
    """Same property for the TypeScript/JavaScript analyzer (skip = JSDoc comment lines)."""
    r = call(TA + "_tokenize_with_line_numbers", None, content, skip)
    use(tracking_fusion, content.split("\n"), 1, skip, False)
    use(tracked_lines, content.split("\n"), 1, skip, False, j)
    use(tracked_order, content.split("\n"), 1, skip, False, j)
    return tracking_property(content, skip, r, j)


# ------------------------------------------------------------------ rolling hash with ORIGINAL line numbers
def texts(lwn, w, i):
    return "\n".join([code for _, code in lwn[i:i + w]])


def twin(lwn, w, i):
    """Window over tracked lines starting at index i: hash/snippet of the w texts, ORIGINAL line numbers of the first
    and the last statement line of the window."""
    return (hash(texts(lwn, w, i)), lwn[i:i + w][0][0], lwn[i:i + w][-1][0], texts(lwn, w, i))


@opaque
def twindows_from(lwn: SeqOf(NumLineT), w: Int, i: Int) -> SeqOf(WinT):
    if i < 0 or i + w > len(lwn):
        return []
    return [twin(lwn, w, i)] + twindows_from(lwn, w, i + 1)


@contract(PA + "_rolling_hash_with_tracking", props=["C03", "C13"],
          types=dict(lines_with_numbers=SeqOf(NumLineT), window_size=Int, hashes=SeqOf(WinT), window=SeqOf(NumLineT),
                     code_lines=SeqOf(Str), snippet=Str, hash_val=Int, start_line=Int, end_line=Int),
          returns=SeqOf(WinT))
class PyRollingHashWithTracking:
    def requires(lines_with_numbers, window_size):
        return window_size >= 1

    def reveals(lines_with_numbers, window_size):
        return reveal(twindows_from, lines_with_numbers, window_size, 0)

    def value(lines_with_numbers, window_size):
        return twindows_from(lines_with_numbers, window_size, 0)

    def inv0(lines_with_numbers, window_size, hashes, i):
        return reveal(twindows_from, lines_with_numbers, window_size, i) and \
            twindows_from(lines_with_numbers, window_size, 0) == hashes + twindows_from(lines_with_numbers, window_size, i)


@contract(TA + "_rolling_hash_with_tracking", props=["C03", "C13"],
          types=dict(lines_with_numbers=SeqOf(NumLineT), window_size=Int, hashes=SeqOf(WinT), window=SeqOf(NumLineT),
                     code_lines=SeqOf(Str), snippet=Str, hash_val=Int, start_line=Int, end_line=Int),
          returns=SeqOf(WinT))
class TsRollingHashWithTracking:
    def requires(lines_with_numbers, window_size):
        return window_size >= 1

    def reveals(lines_with_numbers, window_size):
        return reveal(twindows_from, lines_with_numbers, window_size, 0)

    def value(lines_with_numbers, window_size):
        return twindows_from(lines_with_numbers, window_size, 0)

    def inv0(lines_with_numbers, window_size, hashes, i):
        return reveal(twindows_from, lines_with_numbers, window_size, i) and \
            twindows_from(lines_with_numbers, window_size, 0) == hashes + twindows_from(lines_with_numbers, window_size, i)


@lemma(props=["C03", "C13"], types=dict(k=Int, lwn=SeqOf(NumLineT), w=Int, j=Int), name="tracked-windows-indexing")
def twindows_indexing(k, lwn, w, j):
    """Pure: k windows remain from start index len - w + 1 - k; the j-th of them is the window of index start + j."""
    reveal(twindows_from, lwn, w, len(lwn) - w + 1 - k)
    return (w < 1 or k <= 0 or len(lwn) - w + 1 - k < 0 or (
        ih(twindows_indexing, k - 1, lwn, w, j - 1)
        and use(win_cons_index, twin(lwn, w, len(lwn) - w + 1 - k), twindows_from(lwn, w, len(lwn) - w + 1 - k + 1), j))) and \
        implies(w >= 1 and k >= 0 and len(lwn) - w + 1 - k >= 0,
                len(twindows_from(lwn, w, len(lwn) - w + 1 - k)) == k
                and implies(0 <= j and j < k,
                            twindows_from(lwn, w, len(lwn) - w + 1 - k)[j] == twin(lwn, w, len(lwn) - w + 1 - k + j)))


@lemma(props=["C03", "C13"], types=dict(s=SeqOf(NumLineT), i=Int, w=Int), name="slice-ends")
def slice_ends(s, i, w):
    """Pure (Python slicing): the first / last element of s[i:i+w] are s[i] / s[i+w-1] when the slice is inside s."""
    return implies(0 <= i and w >= 1 and i + w <= len(s), s[i:i + w][0] == s[i] and s[i:i + w][-1] == s[i + w - 1])


def tracked_windows_property(lwn, w, r, j):
    """max(0, n-w+1) windows; window j hashes the texts of statements j .. j+w-1 and reports the ORIGINAL line
    numbers of statement j (start) and statement j+w-1 (end)."""
    return len(r) == (len(lwn) - w + 1 if len(lwn) - w + 1 > 0 else 0) and \
        implies(0 <= j and j < len(r),
                r[j][0] == hash(texts(lwn, w, j)) and r[j][3] == texts(lwn, w, j)
                and r[j][1] == lwn[j][0] and r[j][2] == lwn[j + w - 1][0])


@lemma(props=["C03", "C13"], types=dict(lwn=SeqOf(NumLineT), w=Int, j=Int), name="py-windows-complete-with-original-lines")
def py_windows_complete(lwn, w, j):
    if w < 1:
        return True
    r = call(PA + "_rolling_hash_with_tracking", None, lwn, w)
    reveal(twindows_from, lwn, w, 0)
    use(twindows_indexing, len(lwn) - w + 1, lwn, w, j)
    use(slice_ends, lwn, j, w)
    return tracked_windows_property(lwn, w, r, j)


@lemma(props=["C03", "C13"], types=dict(lwn=SeqOf(NumLineT), w=Int, j=Int), name="ts-windows-complete-with-original-lines")
def ts_windows_complete(lwn, w, j):
    if w < 1:
        return True
    r = call(TA + "_rolling_hash_with_tracking", None, lwn, w)
    reveal(twindows_from, lwn, w, 0)
    use(twindows_indexing, len(lwn) - w + 1, lwn, w, j)
    use(slice_ends, lwn, j, w)
    return tracked_windows_property(lwn, w, r, j)
