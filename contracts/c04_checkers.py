"""C04 (part 4) -- linter-specific suppression checkers and the shared line helpers:
src/core/violation_utils.py, src/linters/magic_numbers/typescript_ignore_checker.py,
src/linters/stringly_typed/ignore_checker.py, src/linters/dry/inline_ignore.py.

Property-level statements: the linter-specific checkers first consult the shared five-level filter (so they agree with
it wherever it suppresses) and add only same-line comment forms; they never look at another line."""
from pyvc.api import contract, lemma, Int, Bool, Str, SeqOf, Opt, Rec, Dict, TupleOf, implies, call, uf
from contracts._common import ViolationT, PathT, re_search
from contracts.c04_ignore import ParserT, suppressed, IG

VU = "src/core/violation_utils.py::"
TS = "src/linters/magic_numbers/typescript_ignore_checker.py::"
ST = "src/linters/stringly_typed/ignore_checker.py::"
DI = "src/linters/dry/inline_ignore.py::"

CtxT = Rec("LintContext", file_path=Opt(PathT), file_content=Opt(Str), language=Str)
TSCheckerT = Rec("TypeScriptIgnoreChecker", cls=TS + "TypeScriptIgnoreChecker", _ignore_parser=ParserT)
IgnoreCheckerT = Rec("IgnoreChecker", cls=ST + "IgnoreChecker", _ignore_parser=ParserT, _file_content_cache=Dict)
InlineParserT = Rec("InlineIgnoreParser", cls=DI + "InlineIgnoreParser", _ignore_ranges=Dict)


# ------------------------------------------------------------------ violation_utils
def violation_line_text(vline, content):
    """Lower-cased text of line vline (1-based) of the content; None when there is no content or no such line."""
    return content.splitlines()[vline - 1].lower() if (content and 1 <= vline <= len(content.splitlines())) else None


@contract(VU + "get_violation_line", props=["C04"], types=dict(violation=ViolationT, context=CtxT, lines=SeqOf(Str)),
          returns=Opt(Str))
class GetViolationLine:
    def value(violation, context):
        return violation_line_text(violation.line, context.file_content)


@contract(VU + "has_python_noqa", props=["C04"], types=dict(line_text=Str), returns=Bool)
class HasPythonNoqa:
    def value(line_text):
        return "# noqa" in line_text


@contract(VU + "has_typescript_noqa", props=["C04"], types=dict(line_text=Str), returns=Bool)
class HasTypescriptNoqa:
    def value(line_text):
        return "// noqa" in line_text


# ------------------------------------------------------------------ magic-numbers: TypeScript checker
def ts_directive(line_text):
    """Same-line `//` forms accepted for TypeScript: ignore[magic-numbers], a bare `// thailint: ignore` (no bracket
    before the next `//`), or `// noqa`."""
    return ("// thailint: ignore[magic-numbers]" in line_text
            or ("// thailint: ignore" in line_text and "[" not in line_text.split("// thailint: ignore")[1].split("//")[0])
            or "// noqa" in line_text)


@contract(TS + "TypeScriptIgnoreChecker._has_typescript_ignore_directive", props=["C04"],
          types=dict(self=TSCheckerT, line_text=Str, after_ignore=Str), returns=Bool)
class HasTypescriptIgnoreDirective:
    def value(line_text):
        return ts_directive(line_text)

    def ensures_needs_a_directive_comment(line_text, result):
        # no `// thailint: ignore...` and no `// noqa` on the line => nothing is suppressed by this checker
        return implies("// thailint: ignore" not in line_text and "// noqa" not in line_text, not result)


def ts_line_ignores(vline, content):
    return violation_line_text(vline, content) is not None and ts_directive(violation_line_text(vline, content))


@contract(TS + "TypeScriptIgnoreChecker._check_typescript_ignore", props=["C04"],
          types=dict(self=TSCheckerT, violation=ViolationT, context=CtxT), returns=Bool)
class CheckTypescriptIgnore:
    def value(violation, context):
        return ts_line_ignores(violation.line, context.file_content)


def content_or_empty(content):
    return content if content else ""


@contract(TS + "TypeScriptIgnoreChecker.should_ignore", props=["C04"],
          types=dict(self=TSCheckerT, violation=ViolationT, context=CtxT), returns=Bool,
          modifies=["self._ignore_parser._ignore_cache"])
class TSShouldIgnore:
    def value(self, violation, context, old):
        # agrees with the shared filter wherever that suppresses; adds only the same-line `//` forms
        return suppressed(old.self._ignore_parser._ignore_cache, self._ignore_parser.project_root,
                          self._ignore_parser.repo_patterns, violation.file_path, violation.rule_id, violation.line,
                          content_or_empty(context.file_content)) \
            or ts_line_ignores(violation.line, context.file_content)


# ------------------------------------------------------------------ stringly-typed: IgnoreChecker
def _native_file_text(file_path):
    from pyvc.native import resolve_target
    _, _, cls = resolve_target(ST + "IgnoreChecker")
    return cls._read_file_content(object.__new__(cls), file_path)


file_text = uf("disk_file_text", [Str], Str, concrete=_native_file_text)


def text_cache_coherent(cache, file_path):
    """Invariant of the memo cache (dict[str, str] filled only by _get_file_content): an entry is the file's text."""
    return file_path not in cache or cache[file_path] == file_text(file_path)


@contract(ST + "IgnoreChecker._get_file_content", props=["C04"], types=dict(self=IgnoreCheckerT, file_path=Str), returns=Str,
          modifies=["self._file_content_cache"],
          assumed="reads the file from disk through a memo cache (I/O): the text is the uninterpreted disk_file_text(path)")
class GetFileContent:
    def requires(self, file_path):
        return text_cache_coherent(self._file_content_cache, file_path)

    def value(file_path):
        return file_text(file_path)


@contract(ST + "IgnoreChecker._should_ignore", props=["C04"], types=dict(self=IgnoreCheckerT, violation=ViolationT, file_content=Str),
          returns=Bool, modifies=["self._file_content_cache", "self._ignore_parser._ignore_cache"])
class StringlyShouldIgnore:
    def requires(self, violation):
        return text_cache_coherent(self._file_content_cache, violation.file_path)

    def value(self, violation, old):
        # exactly the shared filter, applied to the file's text on disk
        return suppressed(old.self._ignore_parser._ignore_cache, self._ignore_parser.project_root,
                          self._ignore_parser.repo_patterns, violation.file_path, violation.rule_id, violation.line,
                          file_text(violation.file_path))


# ------------------------------------------------------------------ dry: inline `# dry: ignore-block / ignore-next`
P_DRY_BLOCK = r"#\s*dry:\s*ignore-block"
P_DRY_NEXT = r"#\s*dry:\s*ignore-next"


@contract(DI + "InlineIgnoreParser._parse_ignore_directive", props=["C04"],
          types=dict(self=InlineParserT, line=Str, line_num=Int, total_lines=Int, start=Int, end=Int),
          returns=Opt(TupleOf(Int, Int)))
class ParseIgnoreDirective:
    def ensures_block(line, line_num, total_lines, result):
        # ignore-block on line n covers lines n+1 .. min(n+10, last line)
        return implies(re_search(P_DRY_BLOCK, line),
                       result is not None and result[0] == line_num + 1
                       and result[1] == (line_num + 10 if line_num + 10 <= total_lines else total_lines))

    def ensures_next(line, line_num, total_lines, result):
        # ignore-next on line n covers exactly line n+1
        return implies((not re_search(P_DRY_BLOCK, line)) and re_search(P_DRY_NEXT, line),
                       result is not None and result[0] == line_num + 1 and result[1] == line_num + 1)

    def ensures_none(line, line_num, total_lines, result):
        return implies((not re_search(P_DRY_BLOCK, line)) and (not re_search(P_DRY_NEXT, line)), result is None)


@contract(DI + "InlineIgnoreParser._check_single_line", props=["C04"],
          types=dict(self=InlineParserT, line=Int, ranges=SeqOf(TupleOf(Int, Int))), returns=Bool)
class CheckSingleLine:
    def value(line, ranges):
        return any(start <= line <= end for start, end in ranges)


@contract(DI + "InlineIgnoreParser._check_range_overlap", props=["C04"],
          types=dict(self=InlineParserT, line=Int, end_line=Int, ranges=SeqOf(TupleOf(Int, Int))), returns=Bool)
class CheckRangeOverlap:
    def value(line, end_line, ranges):
        return any(line <= ign_end and end_line >= ign_start for ign_start, ign_end in ranges)


# ------------------------------------------------------------------ lemmas
@lemma(props=["C04"], types=dict(s=TSCheckerT, v=ViolationT, ctx=CtxT), name="ts-checker-agrees-with-shared-filter")
def ts_agrees(s, v, ctx):
    """Whatever the shared filter suppresses, the TypeScript checker suppresses too (same parser state)."""
    s2 = s._ignore_parser
    shared = suppressed(s2._ignore_cache, s2.project_root, s2.repo_patterns, v.file_path, v.rule_id, v.line,
                        content_or_empty(ctx.file_content))
    return implies(shared, call(TS + "TypeScriptIgnoreChecker.should_ignore", s, v, ctx))
