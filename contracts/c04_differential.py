"""C04 (part 9) -- bounded native checks (a net UNDER the contracts, never instead of them; all labelled bounded).

  c04-inline-helpers   every private same-line helper of the linters (verified mirrors in c04_wrappers.py) is run
                       natively over a generated family of directive lines; oracle from the property text only: a
                       directive that names ANOTHER rule, or whose scope is another line (ignore-next-line, ignore-file),
                       must not make a same-line helper say "suppressed". One obligation per helper; helpers that
                       deviate on the unchanged tree are known findings with the exact recorded set of deviating forms
                       as adjusted obligation (any further form is a violation).
  c04-header-window    "ignore-file in the first TEN lines", on disk and in memory: files whose only directive sits on
                       line k = 1..12 through has_file_ignore / _read_file_first_lines / _has_file_ignore_in_content.
  c04-differential     observation point (Linter API): generated files with several violations, one directive of a
                       random form / spelling / placement; the reported set must shrink by exactly the violations the
                       directive names in its scope. Seeded by ctx["seed"]."""
import json
import os
import random
import subprocess

from pyvc.api import custom

OTHER_RULES = ["nesting", "srp.violation", "dry", "file-header", "stringly-typed.*"]

# (label, text after the comment prefix)  -- forms that must NOT make a same-line helper suppress
def foreign_forms(own, other, other2):
    return [
        ("ignore[OTHER]", f"thailint: ignore[{other}]"),
        ("ignore[OTHER, OTHER]", f"thailint: ignore[{other}, {other2}]"),
        ("ignore-next-line", "thailint: ignore-next-line"),
        ("ignore-next-line[OWN]", f"thailint: ignore-next-line[{own}]"),
        ("ignore-next-line[OTHER]", f"thailint: ignore-next-line[{other}]"),
        ("ignore-file[OTHER]", f"thailint: ignore-file[{other}]"),
    ]


# helper key -> (factory expression, comment prefix, own rule spelling, how to call). Evaluated in a subprocess on VERIF_REPO.
HELPERS = {
    "shared._check_current_line_ignore": ("#", "magic-numbers"),
    "MagicNumberRule._has_generic_ignore_directive": ("#", "magic-numbers"),
    "TypeScriptIgnoreChecker._has_typescript_ignore_directive": ("//", "magic-numbers"),
    "PrintStatementRule._has_generic_ignore_directive": ("#", "print-statements"),
    "PrintStatementRule._has_typescript_ignore_directive": ("//", "print-statements"),
    "ConditionalVerboseRule._has_generic_ignore_directive": ("#", "improper-logging"),
    "CollectionPipelineRule._is_ignore_directive": ("#", "collection-pipeline"),
    "StatelessClassRule._is_ignore_directive": ("#", "stateless-class"),
    "MethodPropertyRule._has_inline_ignore": ("#", "method-property"),
}

# deviations present on the unchanged tree (known findings): the forms each helper wrongly accepts
RECORDED = {
    "MagicNumberRule._has_generic_ignore_directive": {"ignore-next-line"},
    "TypeScriptIgnoreChecker._has_typescript_ignore_directive": {"ignore-next-line"},
    "PrintStatementRule._has_generic_ignore_directive": {"ignore-next-line"},
    "PrintStatementRule._has_typescript_ignore_directive": {"ignore-next-line"},
    "ConditionalVerboseRule._has_generic_ignore_directive": {"ignore-next-line"},
    "CollectionPipelineRule._is_ignore_directive": {"ignore-next-line", "ignore-next-line[OWN]", "ignore-next-line[OTHER]",
                                                    "ignore-file[OTHER]"},
    "StatelessClassRule._is_ignore_directive": {"ignore-next-line", "ignore-next-line[OWN]", "ignore-next-line[OTHER]",
                                                "ignore-file[OTHER]"},
    "MethodPropertyRule._has_inline_ignore": {"ignore[OTHER]", "ignore[OTHER, OTHER]", "ignore-next-line",
                                              "ignore-next-line[OWN]", "ignore-next-line[OTHER]", "ignore-file[OTHER]"},
}

_HELPER_RUNNER = r'''
import json, sys, types
sys.path.insert(0, sys.argv[1])
cases = json.loads(sys.stdin.read())
from src.core.types import Violation
from src.linter_config.ignore import _check_current_line_ignore
from src.linters.magic_numbers.linter import MagicNumberRule
from src.linters.magic_numbers.typescript_ignore_checker import TypeScriptIgnoreChecker
from src.linters.print_statements.linter import PrintStatementRule
from src.linters.print_statements.conditional_verbose_rule import ConditionalVerboseRule
from src.linters.collection_pipeline.linter import CollectionPipelineRule
from src.linters.stateless_class.linter import StatelessClassRule
from src.linters.method_property.linter import MethodPropertyRule

def viol(rule):
    return Violation(rule_id=rule, file_path="w.py", line=1, column=0, message="m")

def ctx(line):
    return types.SimpleNamespace(file_content=line + "\n", file_path=None, language="python")

mn, ts, ps, cv, cp, sl, mp = (MagicNumberRule(), TypeScriptIgnoreChecker(), PrintStatementRule(), ConditionalVerboseRule(),
                               CollectionPipelineRule(), StatelessClassRule(), MethodPropertyRule())
CALL = {
    "shared._check_current_line_ignore": lambda line: _check_current_line_ignore([line], viol("magic-numbers.numeric-literal")),
    "MagicNumberRule._has_generic_ignore_directive": lambda line: mn._has_generic_ignore_directive(line.lower()),
    "TypeScriptIgnoreChecker._has_typescript_ignore_directive": lambda line: ts._has_typescript_ignore_directive(line.lower()),
    "PrintStatementRule._has_generic_ignore_directive": lambda line: ps._has_generic_ignore_directive(line.lower()),
    "PrintStatementRule._has_typescript_ignore_directive": lambda line: ps._has_typescript_ignore_directive(line.lower()),
    "ConditionalVerboseRule._has_generic_ignore_directive": lambda line: cv._has_generic_ignore_directive(line.lower()),
    "CollectionPipelineRule._is_ignore_directive": lambda line: cp._is_ignore_directive(line.lower()),
    "StatelessClassRule._is_ignore_directive": lambda line: sl._is_ignore_directive(line.lower()),
    "MethodPropertyRule._has_inline_ignore": lambda line: mp._has_inline_ignore(viol("method-property.should-be-property"), ctx(line)),
}
out = {}
for key, lines in cases.items():
    res = []
    for label, line in lines:
        try:
            res.append([label, line, bool(CALL[key](line))])
        except BaseException as e:
            res.append([label, line, "error: " + repr(e)[:120]])
    out[key] = res
print(json.dumps(out))
'''


def _py():
    return "/venv/bin/python" if os.path.exists("/venv/bin/python") else "python3"


def _run(script, repo, payload, timeout=180):
    p = subprocess.run([_py(), "-c", script, repo], input=json.dumps(payload), capture_output=True, text=True, timeout=timeout)
    return json.loads(p.stdout.strip().splitlines()[-1])


@custom("c04-inline-helpers", props=["C04"])
def inline_helpers(ctx):
    rng = random.Random(ctx.get("seed", 0))
    codes = ["x = compute(3600)  ", "    return 42  ", "for item in items:  ", "class Holder:  ", "    def get_name(self):  "]
    cases = {}
    for key, (prefix, own) in HELPERS.items():
        lines = []
        for _ in range(6):
            other, other2 = rng.sample(OTHER_RULES, 2)
            for label, text in foreign_forms(own, other, other2):
                code = rng.choice(codes)
                lines.append((label, f"{code}{prefix} {text}"))
                lines.append((label, f"{code}{prefix} {text} - reason given here"))
        cases[key] = lines
    try:
        res = _run(_HELPER_RUNNER, ctx["repo"], cases)
    except BaseException as e:  # noqa
        return [{"name": f"custom:c04-inline-helpers/{k}", "kind": "bounded", "verdict": "unknown", "tool": "native run",
                 "note": f"runner failed: {e!r}"[:300]} for k in HELPERS]
    obs = []
    for key in sorted(HELPERS):
        rows = res.get(key, [])
        errs = [r for r in rows if not isinstance(r[2], bool)]
        dev = sorted({r[0] for r in rows if r[2] is True})
        wit = next((r[1] for r in rows if r[2] is True), None)
        base = {"kind": "bounded", "tool": "native run over generated directive lines", "budget": len(rows), "cases": len(rows),
                "solver": "native-run", "ms": 0.0, "carries": True}
        if errs:
            obs.append(dict(base, name=f"custom:c04-inline-helpers/{key}", verdict="unknown", note=f"helper raised: {errs[0]}"))
            continue
        obs.append(dict(base, name=f"custom:c04-inline-helpers/{key}", verdict="passed" if not dev else "refuted",
                        note=("bounded: no foreign directive form is accepted" if not dev else
                              f"bounded: same-line helper accepts directive forms that name another rule / another scope: {dev}"),
                        witness=None if not dev else {"line": wit, "helper_says": True, "forms": dev}, witness_confirmed=bool(dev)))
        if key in RECORDED:
            ok = set(dev) <= RECORDED[key]
            obs.append(dict(base, name=f"custom:c04-inline-helpers-adjusted/{key}", verdict="passed" if ok else "refuted",
                            note=f"bounded: recorded deviating forms {sorted(RECORDED[key])}; now {dev}",
                            witness=None if ok else {"line": next(r[1] for r in rows if r[2] is True and r[0] not in RECORDED[key]),
                                                     "new_forms": sorted(set(dev) - RECORDED[key])},
                            witness_confirmed=not ok))
    return obs


# ------------------------------------------------------------------ header window
_HEADER_RUNNER = r'''
import json, os, sys, tempfile, shutil
from pathlib import Path
sys.path.insert(0, sys.argv[1])
spec = json.loads(sys.stdin.read())
from src.linter_config.ignore import IgnoreDirectiveParser, _read_file_first_lines, _has_file_ignore_in_content
d = tempfile.mkdtemp(prefix="c04h_")
out = {"disk": [], "content": [], "first_lines": []}
try:
    parser = IgnoreDirectiveParser(Path(d))
    for k in spec["positions"]:
        lines = ["x = %d" % i for i in range(1, spec["total"] + 1)]
        lines[k - 1] = spec["directive"]
        text = "\n".join(lines) + "\n"
        p = Path(d) / ("f%d.py" % k)
        p.write_text(text, encoding="utf-8")
        out["disk"].append([k, bool(parser.has_file_ignore(p, spec["rule"]))])
        out["content"].append([k, bool(_has_file_ignore_in_content(text, spec["rule"]))])
        out["first_lines"].append([k, len(_read_file_first_lines(p))])
finally:
    shutil.rmtree(d, ignore_errors=True)
print(json.dumps(out))
'''


@custom("c04-header-window", props=["C04"])
def header_window(ctx):
    spec = {"positions": list(range(1, 13)), "total": 14, "directive": "# thailint: ignore-file[magic-numbers]",
            "rule": "magic-numbers.numeric-literal"}
    base = {"kind": "bounded", "tool": "native run, directive on line k = 1..12 of a 14-line file", "budget": 12, "cases": 12,
            "solver": "native-run", "ms": 0.0, "carries": True}
    try:
        res = _run(_HEADER_RUNNER, ctx["repo"], spec)
    except BaseException as e:  # noqa
        return [dict(base, name="custom:c04-header-window/disk", verdict="unknown", note=f"runner failed: {e!r}"[:300])]
    obs = []
    for side in ("disk", "content"):
        bad = [(k, got) for k, got in res[side] if got != (k <= 10)]
        obs.append(dict(base, name=f"custom:c04-header-window/{side}", verdict="passed" if not bad else "refuted",
                        note="bounded: an ignore-file directive counts exactly on lines 1..10" if not bad else
                             f"bounded: ignore-file on line k gives (k, honoured) = {bad}; property text: first ten lines only",
                        witness=None if not bad else {"line_of_directive": bad[0][0], "honoured": bad[0][1]},
                        witness_confirmed=bool(bad)))
    badn = [(k, n) for k, n in res["first_lines"] if n != 10]
    obs.append(dict(base, name="custom:c04-header-window/first-lines", verdict="passed" if not badn else "refuted",
                    note="bounded: _read_file_first_lines yields the first ten lines of a longer file" if not badn else
                         f"bounded: _read_file_first_lines of a 14-line file returns {badn[0][1]} lines",
                    witness=None if not badn else {"lines_returned": badn[0][1]}, witness_confirmed=bool(badn)))
    return obs


# ------------------------------------------------------------------ observation-point differential
_DIFF_RUNNER = r'''
import json, os, sys, tempfile, shutil
sys.path.insert(0, sys.argv[1])
cases = json.loads(sys.stdin.read())
from src.api import Linter
out = []
for c in cases:
    d = tempfile.mkdtemp(prefix="c04d_")
    try:
        p = os.path.join(d, c["file"])
        open(p, "w").write(c["text"])
        vs = Linter(project_root=d).lint(p)
        out.append(sorted(v.line for v in vs if v.rule_id.startswith(c["prefix"])))
    except BaseException as e:
        out.append("error: " + repr(e)[:150])
    finally:
        shutil.rmtree(d, ignore_errors=True)
print(json.dumps(out))
'''

SUBJECTS = [  # (file, comment prefix, rule-id prefix, rule spellings naming it, statement template with one violation on its LAST line)
    ("w.py", "#", "magic-numbers", ["magic-numbers", "magic-numbers.numeric-literal", "magic-numbers.*", "MAGIC-NUMBERS"],
     ["def f{n}():", "    return {v}"]),
    ("w.ts", "//", "magic-numbers", ["magic-numbers", "magic-numbers.*", "Magic-Numbers.numeric-literal"],
     ["function f{n}() {{", "    return {v};", "}}"]),
    ("w.py", "#", "improper-logging", ["improper-logging", "print-statements", "improper-logging.*", "print-statements.*"],
     ["def g{n}():", "    print('value {v}')"]),
]
FORMS = ["same-line", "next-line", "block", "file", "same-line-bare", "next-line-bare"]


def _build_case(rng, subject):
    fname, cp, prefix, spellings, tmpl = subject
    values = [3601, 4702, 5803, 6904]
    target = rng.randrange(4)
    form = rng.choice(FORMS)
    names_own = rng.random() < 0.5
    spelling = rng.choice(spellings) if names_own else rng.choice(OTHER_RULES)
    if form.endswith("-bare"):
        names_own = True
    lines, viol_lines, silenced = [], [], set()
    if form == "file":
        lines.append(f"{cp} thailint: ignore-file[{spelling}]")
    for n in range(4):
        stmt = [t.format(n=n, v=values[n]) for t in tmpl]
        vi = 1 if fname.endswith(".ts") else len(stmt) - 1  # index of the violating line inside the statement
        if n == target and form == "block":
            lines.append(f"{cp} thailint: ignore-start {spelling}")
        for i, s in enumerate(stmt):
            if n == target and i == vi:
                if form == "next-line":
                    lines.append(f"    {cp} thailint: ignore-next-line[{spelling}]")
                elif form == "next-line-bare":
                    lines.append(f"    {cp} thailint: ignore-next-line")
                elif form == "same-line":
                    s = f"{s}  {cp} thailint: ignore[{spelling}]"
                elif form == "same-line-bare":
                    s = f"{s}  {cp} thailint: ignore"
            lines.append(s)
            if i == vi:
                viol_lines.append(len(lines))
                if names_own and (form == "file" or n == target):
                    silenced.add(len(lines))
        if n == target and form == "block":
            lines.append(f"{cp} thailint: ignore-end")
        lines.append("")
    expected = sorted(set(viol_lines) - silenced)
    return {"file": fname, "prefix": prefix, "text": "\n".join(lines) + "\n", "expected": expected, "form": form,
            "spelling": spelling, "names_own": names_own, "all": viol_lines}


@custom("c04-differential", props=["C04"])
def differential(ctx):
    rng = random.Random(1000003 * ctx.get("seed", 0) + 4)
    n = 36 if ctx.get("tier") == "thorough" else 18
    cases = [_build_case(rng, SUBJECTS[i % len(SUBJECTS)]) for i in range(n)]
    base = {"kind": "bounded", "tool": "Linter API on generated files (one directive each)", "budget": n, "cases": n,
            "solver": "native-run", "ms": 0.0, "carries": True, "name": "custom:c04-differential/exactly-the-named-violations-in-scope"}
    try:
        res = _run(_DIFF_RUNNER, ctx["repo"], [{k: c[k] for k in ("file", "prefix", "text")} for c in cases], timeout=300)
    except BaseException as e:  # noqa
        return [dict(base, verdict="unknown", note=f"runner failed: {e!r}"[:300])]
    for c, got in zip(cases, res):
        if not isinstance(got, list):
            return [dict(base, verdict="unknown", note=f"linter raised on a generated file: {got}")]
        if sorted(c["all"]) != sorted(set(c["all"])) or got != c["expected"]:
            return [dict(base, verdict="refuted", witness_confirmed=True,
                         note=f"bounded: {c['form']} directive spelled {c['spelling']!r} ({'names' if c['names_own'] else 'does not name'} "
                              f"{c['prefix']}): reported lines {got}, expected {c['expected']} (violations at {c['all']})",
                         witness={"file": c["file"], "text": c["text"], "reported": got, "expected": c["expected"]})]
    return [dict(base, verdict="passed", note=f"bounded: {n} generated files, every directive removed exactly the named violations in its scope")]


# ------------------------------------------------------------------ two parser generations in one process
_GEN_RUNNER = r'''
import json, os, sys, tempfile, shutil
sys.path.insert(0, sys.argv[1])
spec = json.loads(sys.stdin.read())
from src.api import Linter
d = tempfile.mkdtemp(prefix="c04g_")
neutral = tempfile.mkdtemp(prefix="c04gcwd_")
out = []
try:
    os.makedirs(os.path.join(d, "sub"))
    open(os.path.join(d, ".thailintignore"), "w").write("sub/\n")
    f = os.path.join(d, "sub", "x.py")
    open(f, "w").write("def f():\n    return 3601\n")
    os.chdir(neutral)  # the rules' own parsers are rooted at the working directory: keep it free of ignore files
    roots = {"A": d, "B": os.path.join(d, "sub")}
    for g in spec["order"]:
        vs = Linter(project_root=roots[g]).lint(f)
        out.append([g, sorted(v.line for v in vs if v.rule_id.startswith("magic-numbers"))])
finally:
    os.chdir("/")
    shutil.rmtree(d, ignore_errors=True)
    shutil.rmtree(neutral, ignore_errors=True)
print(json.dumps(out))
'''


@custom("c04-parser-generations", props=["C04"])
def parser_generations(ctx):
    """Reuse scenario (one process, same file path, two parser generations with different roots / pattern sets): under
    root A the repository pattern `sub/` ignores sub/x.py, under root B = A/sub nothing does. The verdict must follow the
    CURRENT parser's patterns in both orders -- nothing decided by an earlier parser may be served to a later one."""
    base = {"kind": "bounded", "tool": "Linter API, two generations in one process", "budget": 2, "cases": 2, "solver": "native-run",
            "ms": 0.0, "carries": True}
    obs = []
    for order in ("AB", "BA", "ABA"):
        name = f"custom:c04-parser-generations/{order}"
        try:
            res = _run(_GEN_RUNNER, ctx["repo"], {"order": order})
        except BaseException as e:  # noqa
            obs.append(dict(base, name=name, verdict="unknown", note=f"runner failed: {e!r}"[:300]))
            continue
        bad = [(g, got) for g, got in res if got != ([] if g == "A" else [2])]
        obs.append(dict(base, name=name, verdict="passed" if not bad else "refuted", witness_confirmed=bool(bad),
                        note=f"bounded: generations {order}: reported lines {res}" + ("" if not bad else
                             " -- expected [] under root A (pattern `sub/`) and [2] under root B (no pattern), whatever came before"),
                        witness=None if not bad else {"order": order, "reported": res}))
    return obs


# ------------------------------------------------------------------ structural: no shared mutable class-level state
import ast as _ast  # noqa: E402

_MUTATORS = {"append", "extend", "add", "update", "clear", "setdefault", "pop", "insert", "remove", "discard", "sort", "reverse",
             "popitem", "appendleft", "extendleft"}


def _is_mutable_value(v):
    if isinstance(v, (_ast.Dict, _ast.List, _ast.Set, _ast.DictComp, _ast.ListComp, _ast.SetComp)):
        return True
    if isinstance(v, _ast.Call):
        f = v.func
        nm = f.id if isinstance(f, _ast.Name) else (f.attr if isinstance(f, _ast.Attribute) else "")
        return nm in ("dict", "list", "set", "defaultdict", "OrderedDict", "deque", "Counter")
    return False


def class_level_mutables(cls):
    """{name: lineno} of class-body assignments whose value is a mutable container, excluding dataclass `field(...)`."""
    out = {}
    for st in cls.body:
        tgt, val = None, None
        if isinstance(st, _ast.Assign) and len(st.targets) == 1 and isinstance(st.targets[0], _ast.Name):
            tgt, val = st.targets[0].id, st.value
        elif isinstance(st, _ast.AnnAssign) and isinstance(st.target, _ast.Name) and st.value is not None:
            tgt, val = st.target.id, st.value
        if tgt and _is_mutable_value(val):
            out[tgt] = st.lineno
    return out


def mutated_through_instances(cls, names):
    """Names among `names` that some method writes through self / cls / the class name WITHOUT having rebound them on the
    instance in __init__ (self.X[...] = v, self.X.append(...), del self.X[k] ...)."""
    rebound = set()
    for st in cls.body:
        if isinstance(st, _ast.FunctionDef) and st.name in ("__init__", "__post_init__"):
            for n in _ast.walk(st):
                if isinstance(n, _ast.Attribute) and isinstance(n.ctx, _ast.Store) and isinstance(n.value, _ast.Name) \
                        and n.value.id == "self":
                    rebound.add(n.attr)
    hit = {}
    for n in _ast.walk(cls):
        recv = None
        if isinstance(n, _ast.Subscript) and isinstance(n.ctx, (_ast.Store, _ast.Del)):
            recv = n.value
        elif isinstance(n, _ast.Call) and isinstance(n.func, _ast.Attribute) and n.func.attr in _MUTATORS:
            recv = n.func.value
        if isinstance(recv, _ast.Attribute) and isinstance(recv.value, _ast.Name) and recv.value.id in ("self", "cls", cls.name) \
                and recv.attr in names and recv.attr not in rebound:
            hit.setdefault(recv.attr, n.lineno)
    return hit


@custom("c04-class-level-state", props=["C04"])
def class_level_state(ctx):
    """Structural: an object that holds per-run state (decision memos, caches, collected evidence) must hold it in
    INSTANCE attributes. A mutable container bound in a class body and written through self/cls (never rebound in
    __init__) is one object shared by every instance -- and by every run in the process. Scans all of src/."""
    root = os.path.join(ctx["repo"], "src")
    obs, scanned = [], 0
    for dp, _dn, files in os.walk(root):
        for f in sorted(files):
            if not f.endswith(".py"):
                continue
            p = os.path.join(dp, f)
            try:
                tree = _ast.parse(open(p, encoding="utf-8").read())
            except (SyntaxError, OSError, UnicodeDecodeError):
                continue
            rel = os.path.relpath(p, ctx["repo"])
            for cls in [n for n in _ast.walk(tree) if isinstance(n, _ast.ClassDef)]:
                scanned += 1
                cands = class_level_mutables(cls)
                for name, line in sorted(mutated_through_instances(cls, set(cands)).items()):
                    obs.append({"name": f"custom:c04-class-level-state/{rel}::{cls.name}.{name}", "kind": "frame", "verdict": "refuted",
                                "carries": True, "solver": "ast-scan", "ms": 0.0, "witness_confirmed": False,
                                "note": f"class-level mutable attribute {cls.name}.{name} (bound at line {cands[name]} of the class "
                                        f"body, never rebound in __init__) is written through an instance at line {line}: one "
                                        f"container shared by all instances and all runs"})
    obs.append({"name": "custom:c04-class-level-state/scan", "kind": "frame", "verdict": "discharged", "carries": False,
                "solver": "ast-scan", "ms": 0.0, "note": f"{scanned} classes under src/ scanned; findings: {len(obs)}"})
    return obs


# ------------------------------------------------------------------ repository patterns in parallel mode, foreign cwd
_PAR_RUNNER = r'''
import json, os, sys, tempfile, shutil, logging
sys.path.insert(0, sys.argv[1])
logging.disable(logging.CRITICAL)
spec = json.loads(sys.stdin.read())
from pathlib import Path
from src.orchestrator.core import Orchestrator
d = tempfile.mkdtemp(prefix="c04p_")
neutral = tempfile.mkdtemp(prefix="c04pcwd_")
out = {}
try:
    root = Path(d)
    (root / "legacy").mkdir(); (root / "app").mkdir()
    (root / ".thailintignore").write_text("legacy/\n", encoding="utf-8")
    files = []
    for i in range(spec["files"]):
        sub = "legacy" if i % 2 else "app"
        p = root / sub / ("m%02d.py" % i)
        p.write_text("def f%d():\n    return %d\n" % (i, 3601 + 11 * i), encoding="utf-8")
        files.append(p)
    os.chdir(neutral)  # the command is run from somewhere else than the project root
    def lines(vs):
        return sorted((Path(v.file_path).parent.name + "/" + Path(v.file_path).name, v.line) for v in vs
                      if v.rule_id.startswith("magic-numbers"))
    out["sequential"] = lines(Orchestrator(project_root=root, config={}).lint_files(files))
    out["parallel"] = lines(Orchestrator(project_root=root, config={}).lint_files_parallel(files, max_workers=spec["workers"]))
    out["expected"] = sorted(("app/" + p.name, 2) for p in files if p.parent.name == "app")
finally:
    os.chdir("/")
    shutil.rmtree(d, ignore_errors=True); shutil.rmtree(neutral, ignore_errors=True)
print(json.dumps(out))
'''


@custom("c04-parallel-repo-patterns", props=["C04"])
def parallel_repo_patterns(ctx):
    """Repository-level ignore patterns hold "in every run": a project whose .thailintignore excludes `legacy/`, linted
    from a DIFFERENT working directory, sequentially and through the process pool (>= 2 x workers files so that the pool is
    really used). Files under legacy/ must yield nothing, files under app/ their violation, in both modes."""
    base = {"kind": "bounded", "tool": "Orchestrator.lint_files / lint_files_parallel on a generated project, foreign cwd",
            "budget": 2, "cases": 2, "solver": "native-run", "ms": 0.0, "carries": True}
    try:
        res = _run(_PAR_RUNNER, ctx["repo"], {"files": 8, "workers": 2}, timeout=300)
    except BaseException as e:  # noqa
        return [dict(base, name="custom:c04-parallel-repo-patterns/parallel", verdict="unknown", note=f"runner failed: {e!r}"[:300])]
    exp = [list(x) for x in res["expected"]]
    obs = []
    for mode in ("sequential", "parallel"):
        got = [list(x) for x in res[mode]]
        ok = got == exp
        obs.append(dict(base, name=f"custom:c04-parallel-repo-patterns/{mode}", verdict="passed" if ok else "refuted",
                        witness_confirmed=not ok,
                        note=f"bounded: {mode} run reports {got}" + ("" if ok else f"; expected {exp} (legacy/ is ignored by .thailintignore)"),
                        witness=None if ok else {"mode": mode, "reported": got, "expected": exp}))
    return obs
