"""C04 (part 7) -- the dry linter's content cache: producer/consumer coherence.

The dry rule reports at finalize() time, so DRYRule._process_file CACHES each file's text and the two filters
(_filter_ignored_violations for duplicate constants, ViolationGenerator._filter_shared_ignored for duplicate code) hand
the cached text to the shared suppression filter. Directives can only silence what they name if the text looked up for
a violation v is the text of v's file:
  producer  _process_file:   _file_contents[str(context.file_path)] == context.file_content
  carrier   violations are built with file_path = str(block.file_path)   (violation_builder.py / constant builder)
  consumer  both filters:    the content handed to the filter is file_contents.get(v.file_path, "")
so the key on both sides is the spelling str(file_path) the violations carry. Clause of the filters (independent of
the parser's memo): no violation they keep is silenced by a directive in its file's cached text."""
from pyvc.api import contract, lemma, Int, Bool, Str, SeqOf, Opt, Rec, Dict, Opaque, implies, call, mk, reveal, ih, use
from contracts._common import ViolationT, PathT, path_str
from contracts.c04_ignore import ParserT, header_ignores, content_ignores, IG
from contracts.c04_checkers import InlineParserT, CtxT
from contracts.c05_config import DRYConfigT
from contracts.c03_report import DRYRuleT as _C03RuleT  # storage / analyzer fields as C03's verified plumbing contracts need them
from contracts.c08_state import ConstEntryT

DRYRuleT = _C03RuleT.extend(_file_contents=Dict, _project_root=Opt(PathT), _constants=SeqOf(ConstEntryT),
                            _helpers=_C03RuleT.fields["_helpers"].extend(inline_ignore=InlineParserT))

DRY = "src/linters/dry/linter.py::"
VG = "src/linters/dry/violation_generator.py::"
DII = "src/linters/dry/inline_ignore.py::"
Viols = SeqOf(ViolationT)
GenT = Rec("ViolationGenerator", cls=VG + "ViolationGenerator")


# ------------------------------------------------------------------ specification
def cached_text(file_contents, path_spelling):
    """What the filters look up for a violation: the cached text of its file, '' when the file was never cached."""
    return file_contents.get(path_spelling, "")


def silenced_by_cached_text(file_contents, v):
    """A directive in the cached text of v's file names v (ignore-file header, block, previous line or same line)."""
    return header_ignores(cached_text(file_contents, v.file_path), v.rule_id) \
        or content_ignores(cached_text(file_contents, v.file_path), v.line, v.rule_id)


def none_silenced(vs: Viols, file_contents: Dict) -> Bool:
    """No violation of vs is silenced by its file's cached text (recursion from the END: the filters append)."""
    return len(vs) == 0 or ((not silenced_by_cached_text(file_contents, vs[-1])) and none_silenced(vs[:-1], file_contents))


# ------------------------------------------------------------------ producer
@contract(DRY + "DRYRule._get_project_root", props=["C04"], types=dict(self=DRYRuleT, context=CtxT), returns=Opt(PathT),
          assumed="derives the project root from context metadata / the file's parent directory (not on the suppression "
                  "path; stated only so that _process_file can be verified): no effect on the rule")
class DryGetProjectRoot:
    def ensures(result):
        return True


@contract(DII + "InlineIgnoreParser.parse_file", props=["C04"], types=dict(self=InlineParserT, file_path=PathT, content=Str),
          modifies=["self._ignore_ranges"],
          assumed="records the `# dry: ignore-block / ignore-next` ranges of the file (regex scan with enumerate inside a "
                  "comprehension: outside the verified subset); touches only its own range table")
class InlineParseFile:
    def ensures(self):
        return True


# DRYRule._ensure_storage_initialized / _analyze_and_store: verified contracts of property C03 (contracts/c03_report.py);
# their preconditions (a valid storage mode, a positive window) are part of _process_file's below


@contract(DRY + "DRYRule._extract_and_store_constants", props=["C04"], types=dict(self=DRYRuleT, context=CtxT),
          modifies=["self._constants"],
          assumed="appends the file's constants to the cross-file list (C03's business): frame only")
class DryExtractConstants:
    def ensures(self):
        return True


@contract(DRY + "DRYRule._process_file", props=["C04"], types=dict(self=DRYRuleT, context=CtxT, config=DRYConfigT, file_path=PathT),
          modifies=["self._file_contents", "self._project_root", "self._storage", "self._file_analyzer", "self._initialized",
                    "self._constants", "self._helpers.inline_ignore._ignore_ranges"])
class DryProcessFile:
    def requires(context, config):
        # established by should_process_file in DRYRule.check; the config is a validated DRYConfig (__post_init__)
        return context.file_path is not None and context.file_content is not None \
            and config.storage_mode in ("memory", "tempfile") and config.min_duplicate_lines >= 1

    def ensures_text_cached_under_the_spelling_violations_carry(self, context):
        return cached_text(self._file_contents, path_str(context.file_path)) == context.file_content \
            and path_str(context.file_path) in self._file_contents

    def ensures_other_files_keep_their_text(self, context, old):
        return self._file_contents == dict_put(old.self._file_contents, path_str(context.file_path), context.file_content)


from pyvc.api import dict_put  # noqa: E402


# ------------------------------------------------------------------ consumers (second views: the primary contracts belong
# to C08 (assumed) and C03 (only-removes clause))
def _witness_relative_spelling():
    """A violation on a same-line `ignore[dry]` directive, file cached under the (relative) spelling it carries."""
    import pathlib
    text = "x = compute()  # thailint: ignore[dry]\n"
    v = {"__rec__": "Violation", "rule_id": "dry.duplicate-code", "file_path": "pkg/module_a.py", "line": 1, "column": 0,
         "message": "duplicate", "severity": "error", "suggestion": None}
    parser = {"__rec__": "IgnoreDirectiveParser", "project_root": pathlib.Path("/nonexistent-c04-root"), "repo_patterns": [],
              "_ignore_cache": {}}
    return {"violations": [v], "ignore_parser": parser, "file_contents": {"pkg/module_a.py": text}}


FILTER_TYPES = dict(violations=Viols, ignore_parser=ParserT, file_contents=Dict, filtered=Viols, violation=ViolationT,
                    file_content=Str)


@contract(DRY + "_filter_ignored_violations~cached-text", props=["C04"], types=FILTER_TYPES, returns=Viols,
          modifies=["ignore_parser._ignore_cache"])
class FilterIgnoredViolationsView:
    def native_domain(file_contents):
        return all(isinstance(t, str) for t in file_contents.values())

    def ensures_kept_are_not_silenced_by_their_cached_text(violations, file_contents, result):
        return none_silenced(result, file_contents)

    def witness_kept_are_not_silenced_by_their_cached_text():
        return _witness_relative_spelling()

    def ensures_never_more_than_given(violations, result):
        return len(result) <= len(violations)

    def inv0(violations, file_contents, filtered, rest, old):
        return none_silenced(filtered, file_contents) and file_contents == old.file_contents \
            and violations == old.violations and len(rest) <= len(violations) and len(filtered) <= len(violations) - len(rest)


@contract(VG + "ViolationGenerator._filter_shared_ignored~cached-text", props=["C04"], types=dict(FILTER_TYPES, self=GenT),
          returns=Viols, modifies=["ignore_parser._ignore_cache"])
class FilterSharedIgnoredView:
    def native_domain(file_contents):
        return all(isinstance(t, str) for t in file_contents.values())

    def ensures_kept_are_not_silenced_by_their_cached_text(violations, file_contents, result):
        return none_silenced(result, file_contents)

    def witness_kept_are_not_silenced_by_their_cached_text():
        return dict(_witness_relative_spelling(), self={"__rec__": "ViolationGenerator"})

    def ensures_never_more_than_given(violations, result):
        return len(result) <= len(violations)

    def inv0(violations, file_contents, filtered, rest, old):
        return none_silenced(filtered, file_contents) and file_contents == old.file_contents \
            and violations == old.violations and len(rest) <= len(violations) and len(filtered) <= len(violations) - len(rest)


# ------------------------------------------------------------------ coherence of producer and consumers
@lemma(props=["C04"], types=dict(rule=DRYRuleT, ctx=CtxT, cfg=DRYConfigT, v=ViolationT, parser=ParserT),
       name="dry-cached-text-reaches-the-filter")
def dry_key_coherence(rule, ctx, cfg, v, parser):
    """After _process_file(ctx), a violation carrying the spelling str(ctx.file_path) that is silenced by a directive in
    ctx.file_content is kept by neither filter (they look the text up under that very spelling)."""
    if ctx.file_path is None or ctx.file_content is None or v.file_path != path_str(ctx.file_path):
        return True
    if cfg.storage_mode not in ("memory", "tempfile") or cfg.min_duplicate_lines < 1:
        return True
    if not (header_ignores(ctx.file_content, v.rule_id) or content_ignores(ctx.file_content, v.line, v.rule_id)):
        return True
    call(DRY + "DRYRule._process_file", rule, ctx, cfg)
    kept1 = call(DRY + "_filter_ignored_violations~cached-text", [v], parser, rule._file_contents)
    kept2 = call(VG + "ViolationGenerator._filter_shared_ignored~cached-text", mk(GenT), [v], parser, rule._file_contents)
    # at most one element is kept, and the last (= only) kept element is not silenced, hence is not v
    return len(kept1) <= 1 and implies(len(kept1) > 0, kept1[-1] != v) \
        and len(kept2) <= 1 and implies(len(kept2) > 0, kept2[-1] != v)
