"""C04 (part 5) -- "every linter applies the filter": mechanical extraction over src/linters/*.

For every linter package the property covers (all except lazy-ignores, whose subject is the suppression comments
themselves) the REAL source is parsed on every run and, for every rule class of the package (a class one of whose
bases is named `...Rule`), a name-based over-approximation of the call graph inside the package is searched for a call
of the shared five-level filter `IgnoreDirectiveParser.should_ignore_violation` (verified in c04_ignore.py).
Over-approximation = a linter is only refuted when NO path can exist; `is_ignored` alone (repository patterns only)
does not count. One obligation per linter."""
import ast
import json
import os
import subprocess

from pyvc.api import custom

EXEMPT = {"lazy_ignores": "subject of the linter is the suppression comments themselves (property text)"}
FILTER_CALLS = {"should_ignore_violation"}

# native witnesses (same-line directive naming the rule, in the linter's own language): run through the real package
WITNESS = {
    "unwrap_abuse": ("w.rs", "unwrap-abuse", 2,
                     'fn f() -> String {\n    let a = std::fs::read_to_string("a").unwrap(); // thailint: ignore[unwrap-abuse]\n    a\n}\n'),
    "clone_abuse": ("w.rs", "clone-abuse", 3,
                    "fn f(v: Vec<String>) {\n    for x in v.iter() {\n        let y = x.clone(); // thailint: ignore[clone-abuse]\n"
                    "        println!(\"{}\", y);\n    }\n}\n"),
    "blocking_async": ("w.rs", "blocking-async", 2,
                       'async fn f() {\n    let s = std::fs::read_to_string("c"); // thailint: ignore[blocking-async]\n}\n'),
    "lbyl": ("w.py", "lbyl", 2, "def f(d, k):\n    if k in d:  # thailint: ignore[lbyl]\n        return d[k]\n    return None\n"),
    "cqs": ("w.py", "cqs", 1, "def f(data):  # thailint: ignore[cqs]\n    value = g(data)\n    h(value)\n    return value\n\n\n"
            "def g(d):\n    return d\n\n\ndef h(v):\n    pass\n"),
    "method_property": ("w.py", "method-property", 6,
                        "class P:\n    def __init__(self):\n        self._n = 1\n\n    # thailint: ignore-next-line[method-property]\n"
                        "    def get_n(self):\n        return self._n\n"),
    "file_placement": ("secret_w.py", "file-placement", 1, "# thailint: ignore-file[file-placement]\nx = 1\n",
                       'file-placement:\n  global_deny:\n    - pattern: "secret"\n      reason: "no secrets"\n'),
}

_RUNNER = r'''
import json, os, sys, tempfile
sys.path.insert(0, sys.argv[1])
spec = json.loads(sys.stdin.read())
out = {}
from src.api import Linter
for name, item in spec.items():
    fname, prefix, line, text = item[:4]
    d = tempfile.mkdtemp(prefix="c04w_")
    p = os.path.join(d, fname)
    open(p, "w").write(text)
    if len(item) > 4:
        open(os.path.join(d, ".thailint.yaml"), "w").write(item[4])
    try:
        vs = Linter(project_root=d).lint(p)
        hits = sorted((v.line, v.rule_id) for v in vs if v.rule_id.startswith(prefix))
        out[name] = {"reported": hits, "still_reported_on_directive_line": any(l == line for l, _ in hits)}
    except BaseException as e:
        out[name] = {"error": repr(e)[:200]}
    finally:
        import shutil
        shutil.rmtree(d, ignore_errors=True)
print(json.dumps(out))
'''


def _functions(tree):
    for n in ast.walk(tree):
        if isinstance(n, (ast.FunctionDef, ast.AsyncFunctionDef)):
            yield n


def _called_names(fn):
    out = set()
    for n in ast.walk(fn):
        if isinstance(n, ast.Call):
            f = n.func
            if isinstance(f, ast.Attribute):
                out.add(f.attr)
            elif isinstance(f, ast.Name):
                out.add(f.id)
    return out


def _is_rule_class(cls):
    for b in cls.bases:
        if isinstance(b, ast.Subscript):  # generic base: PythonOnlyLintRule[Config]
            b = b.value
        nm = b.id if isinstance(b, ast.Name) else (b.attr if isinstance(b, ast.Attribute) else "")
        if nm.endswith("Rule"):
            return True
    return False


def scan_package(pkg_dir):
    """-> {rule class name: (reaches_filter, via)}"""
    defs = {}      # function name -> [FunctionDef] anywhere in the package
    classes = {}   # class name -> ClassDef
    rule_classes = []
    for root, _, files in os.walk(pkg_dir):
        for f in sorted(files):
            if not f.endswith(".py"):
                continue
            tree = ast.parse(open(os.path.join(root, f), encoding="utf-8").read())
            for fn in _functions(tree):
                defs.setdefault(fn.name, []).append(fn)
            for n in ast.walk(tree):
                if isinstance(n, ast.ClassDef):
                    classes[n.name] = n
                    if _is_rule_class(n):
                        rule_classes.append(n)
    result = {}
    for rc in rule_classes:
        seen, todo, via = set(), [m for m in rc.body if isinstance(m, (ast.FunctionDef, ast.AsyncFunctionDef))], None
        while todo and via is None:
            fn = todo.pop()
            if id(fn) in seen:
                continue
            seen.add(id(fn))
            names = _called_names(fn)
            hit = names & FILTER_CALLS
            if hit:
                via = f"{fn.name} calls {sorted(hit)[0]}"
                break
            for nm in names:
                todo.extend(defs.get(nm, []))
                if nm in classes:  # constructor call: the methods of that class become reachable
                    todo.extend(m for m in classes[nm].body if isinstance(m, (ast.FunctionDef, ast.AsyncFunctionDef)))
        result[rc.name] = (via is not None, via)
    return result


def _native_witnesses(repo, names):
    spec = {n: WITNESS[n] for n in names if n in WITNESS}
    if not spec:
        return {}
    py = "/venv/bin/python" if os.path.exists("/venv/bin/python") else "python3"
    try:
        p = subprocess.run([py, "-c", _RUNNER, repo], input=json.dumps(spec), capture_output=True, text=True, timeout=120)
        return json.loads(p.stdout.strip().splitlines()[-1])
    except BaseException as e:  # noqa
        return {n: {"error": repr(e)[:200]} for n in spec}


@custom("c04-filter-applied", props=["C04"])
def filter_applied(ctx):
    repo = ctx["repo"]
    base = os.path.join(repo, "src", "linters")
    obs, refuted = [], []
    for pkg in sorted(os.listdir(base)):
        d = os.path.join(base, pkg)
        if not os.path.isdir(d) or pkg.startswith("_"):
            continue
        name = f"custom:c04-filter-applied/{pkg}"
        if pkg in EXEMPT:
            obs.append({"name": name, "kind": "custom", "verdict": "discharged", "solver": "ast-scan", "ms": 0.0,
                        "note": f"exempt: {EXEMPT[pkg]}"})
            continue
        try:
            res = scan_package(d)
        except SyntaxError as e:
            obs.append({"name": name, "kind": "custom", "verdict": "unknown", "solver": "ast-scan", "ms": 0.0,
                        "note": f"cannot parse the package: {e}"})
            continue
        if not res:
            obs.append({"name": name, "kind": "custom", "verdict": "unknown", "solver": "ast-scan", "ms": 0.0,
                        "note": "no rule class (a class with a base named *Rule) found in the package"})
            continue
        missing = sorted(c for c, (ok, _) in res.items() if not ok)
        if not missing:
            obs.append({"name": name, "kind": "custom", "verdict": "discharged", "solver": "ast-scan", "ms": 0.0,
                        "note": "; ".join(f"{c}: {via}" for c, (_, via) in sorted(res.items()))})
        else:
            obs.append({"name": name, "kind": "custom", "verdict": "refuted", "solver": "ast-scan", "ms": 0.0, "carries": True,
                        "note": f"no call of the shared filter (should_ignore_violation) is reachable from rule class(es) {missing}",
                        "witness": None})
            refuted.append(pkg)
    nat = _native_witnesses(repo, refuted)
    for o in obs:
        pkg = o["name"].split("/")[-1]
        if o["verdict"] == "refuted" and pkg in nat:
            o["witness"] = {"input": {"file": WITNESS[pkg][0], "text": WITNESS[pkg][3], "directive_line": WITNESS[pkg][2]},
                            "native": nat[pkg]}
            o["witness_confirmed"] = bool(nat[pkg].get("still_reported_on_directive_line"))
    return obs


# ------------------------------------------------------------------ finding-adjusted obligations
# What the linters recorded as known findings do INSTEAD of applying the shared filter (so that any other deviation --
# e.g. a new half-way directive handling -- is still reported): the set of suppression-related facilities the package
# refers to. "parser calls" = calls of the shared parser's API; "own markers" = string literals mentioning a directive.
PARSER_API = {"should_ignore_violation", "has_line_ignore", "has_file_ignore", "is_ignored", "get_ignore_parser"}
RECORDED_PROFILE = {
    "unwrap_abuse": (set(), False),
    "clone_abuse": (set(), False),
    "blocking_async": (set(), False),
    "lbyl": (set(), False),
    "cqs": (set(), False),
    "method_property": (set(), True),                       # own same-line check: "thailint:" + "ignore" / "# noqa"
    "file_placement": ({"get_ignore_parser", "is_ignored"}, False),  # repository patterns only
}


def package_profile(pkg_dir):
    calls, own = set(), False
    for root, _, files in os.walk(pkg_dir):
        for f in sorted(files):
            if not f.endswith(".py"):
                continue
            tree = ast.parse(open(os.path.join(root, f), encoding="utf-8").read())
            doc_ids = set()
            for n in ast.walk(tree):  # docstrings are not code
                if isinstance(n, (ast.Module, ast.ClassDef, ast.FunctionDef, ast.AsyncFunctionDef)) and n.body \
                        and isinstance(n.body[0], ast.Expr) and isinstance(n.body[0].value, ast.Constant):
                    doc_ids.add(id(n.body[0].value))
            for n in ast.walk(tree):
                if isinstance(n, ast.Call):
                    f2 = n.func
                    nm = f2.attr if isinstance(f2, ast.Attribute) else (f2.id if isinstance(f2, ast.Name) else "")
                    if nm in PARSER_API:
                        calls.add(nm)
                elif isinstance(n, ast.Constant) and isinstance(n.value, str) and id(n) not in doc_ids:
                    if "thailint:" in n.value.lower() or "noqa" in n.value.lower():
                        own = True
    return calls, own


@custom("c04-filter-adjusted", props=["C04"])
def filter_adjusted(ctx):
    base = os.path.join(ctx["repo"], "src", "linters")
    obs = []
    for pkg, (exp_calls, exp_own) in sorted(RECORDED_PROFILE.items()):
        d = os.path.join(base, pkg)
        name = f"custom:c04-filter-adjusted/{pkg}"
        if not os.path.isdir(d):
            obs.append({"name": name, "kind": "custom", "verdict": "unknown", "solver": "ast-scan", "ms": 0.0,
                        "note": "linter package not found"})
            continue
        res = scan_package(d)
        if res and all(ok for ok, _ in res.values()):
            obs.append({"name": name, "kind": "custom", "verdict": "discharged", "solver": "ast-scan", "ms": 0.0,
                        "note": "the linter now applies the shared filter (finding no longer applies)"})
            continue
        calls, own = package_profile(d)
        ok = calls == exp_calls and own == exp_own
        obs.append({"name": name, "kind": "custom", "verdict": "discharged" if ok else "refuted", "solver": "ast-scan",
                    "ms": 0.0, "carries": True,
                    "note": f"suppression facilities referenced: parser calls {sorted(calls)}, own directive markers {own}"
                            + ("" if ok else f" -- recorded: {sorted(exp_calls)}, {exp_own}")})
    return obs


# ------------------------------------------------------------------ the ignore-start rule parser (assumed in c04_ignore.py)
# _parse_ignore_start_rules is a regex parser and therefore a TRUSTED contract (its result is the uninterpreted
# ignore_start_rules(line)). Its documented spellings are cross-checked natively here, one obligation per spelling:
# expected = the set of rule spellings the directive names ({"*"} for a bare ignore-start).
START_SPELLINGS = {
    "bare": ("# thailint: ignore-start", {"*"}),
    "one-rule": ("# thailint: ignore-start dry", {"dry"}),
    "slash-style": ("// thailint: ignore-start nesting", {"nesting"}),
    "two-rules-blank": ("# thailint: ignore-start nesting srp", {"nesting", "srp"}),
    "two-rules-comma": ("# thailint: ignore-start nesting,srp", {"nesting", "srp"}),
    "wildcard": ("# thailint: ignore-start nesting.*", {"nesting.*"}),
    # docs/stateless-class-linter.md "Level 3: Block-Level Ignore": bracket form
    "bracket-form": ("# thailint: ignore-start[stateless-class]", {"stateless-class"}),
    "bracket-two-rules": ("// thailint: ignore-start[magic-numbers, nesting]", {"magic-numbers", "nesting"}),
}
START_RECORDED = {}  # recorded deviations (none: C04-ignore-start-bracket-means-all is repaired)


@custom("c04-start-rules", props=["C04"])
def start_rules_table(ctx):
    from pyvc.native import call_target
    obs = []
    for key, (line, expected) in sorted(START_SPELLINGS.items()):
        try:
            got = set(call_target("src/linter_config/ignore.py::_parse_ignore_start_rules", line))
            err = None
        except BaseException as e:  # noqa
            got, err = None, repr(e)[:200]
        ok = got == expected
        obs.append({"name": f"custom:c04-start-rules/{key}", "kind": "custom", "solver": "native-run", "ms": 0.0, "carries": True,
                    "verdict": "discharged" if ok else ("unknown" if err else "refuted"),
                    "note": err or f"_parse_ignore_start_rules({line!r}) = {sorted(got)}; documented meaning {sorted(expected)}",
                    "witness": None if ok else {"input": line, "result": None if got is None else sorted(got), "expected": sorted(expected)},
                    "witness_confirmed": (not ok) and err is None})
        if key in START_RECORDED:
            ok2 = ok or got == START_RECORDED[key]
            obs.append({"name": f"custom:c04-start-rules-adjusted/{key}", "kind": "custom", "solver": "native-run", "ms": 0.0,
                        "carries": True, "verdict": "discharged" if ok2 else "refuted",
                        "note": f"recorded deviation: returns {sorted(START_RECORDED[key])} (every rule); now {None if got is None else sorted(got)}"})
    return obs
