"""C04 (part 3) -- the shared suppression filter (src/linter_config/ignore.py, pattern_utils.py).

Top-level spec (property text): a violation v is suppressed iff
  * a repository-level ignore pattern matches its file, or
  * an `ignore-file` directive naming v.rule_id stands in the first TEN lines, or
  * v.line lies inside an `ignore-start` ... `ignore-end` block whose rule set names v.rule_id, or
  * line v.line-1 carries `ignore-next-line` naming it, or
  * line v.line itself carries `ignore` naming it;
a directive naming a different rule, or placed outside that scope, changes nothing.
Regular expressions and fnmatch are uninterpreted (match / captured group are functions of (pattern, subject));
a set[str] is modelled as the sequence of its elements (only `in` and any() are applied to it)."""
import z3

from pyvc.api import (contract, lemma, Int, Bool, Str, SeqOf, Opt, Rec, Dict, implies, call, mk, opaque, reveal, ih, uf, use)
from pyvc.ex_call import EXTERNALS
from pyvc.ty import VBool, Unsupported
from contracts._common import ViolationT, PathT, re_search, re_search_i, re_group, re_group_i, path_str
from contracts.c09_paths import path_of_str, path_parts
from contracts.c04_rule_matcher import spec_matches, rmv, bracket_rules_match, space_rules_match
from contracts.c04_markers import block_marker

IG = "src/linter_config/ignore.py::"
PU = "src/linter_config/pattern_utils.py::"
HEADER_LINES = 10  # property text: "an ignore-file[rule] in the first ten lines"

# regular expressions of ignore.py (the uninterpreted match/group functions are indexed by the pattern text)
P_FILE_BR = r"ignore-file\[([^\]]+)\]"
P_FILE_SP = r"ignore-file\s+([^\s#]+(?:\s+[^\s#]+)*)"
P_LINE_BR = r"ignore\[([^\]]+)\]"
P_LINE_SP = r"ignore\s+([^\s#]+(?:\s+[^\s#]+)*)"
P_NEXT_BR = r"ignore-next-line\[([^\]]+)\]"

BlockStateT = Rec("_BlockState", cls=IG + "_BlockState", in_block=Bool, rules=SeqOf(Str), covers_violation=Bool)
ParserT = Rec("IgnoreDirectiveParser", cls=IG + "IgnoreDirectiveParser", project_root=PathT, repo_patterns=SeqOf(Str),
              _ignore_cache=Dict)


# ------------------------------------------------------------------ trusted externals: fnmatch, the ignore-start parser
def _native_fnmatch(path, pattern):
    import fnmatch
    return fnmatch.fnmatch(path, pattern)


fnmatch_uf = uf("fnmatch", [Str, Str], Bool, concrete=_native_fnmatch)


def _x_fnmatch(ex, args, kwargs, lineno):
    """fnmatch.fnmatch(name, pattern): uninterpreted predicate (the glob engine is trusted)."""
    if len(args) != 2 or kwargs:
        raise Unsupported("fnmatch.fnmatch with other than two arguments")
    return ex.call_uf("fnmatch", list(args))


EXTERNALS.setdefault("fnmatch.fnmatch", _x_fnmatch)


def _native_start_rules(line):
    # natively the real SET (the symbolic model is the sequence of its elements; only `in`, any() and == between
    # rule sets are applied to it, which mean the same on the set)
    from pyvc.native import call_target
    return call_target(IG + "_parse_ignore_start_rules", line)


start_rules = uf("ignore_start_rules", [Str], SeqOf(Str), concrete=_native_start_rules)
path_rel = uf("path_relative_to", [PathT, PathT], PathT, concrete=lambda p, r: p.relative_to(r))


# ------------------------------------------------------------------ line-level specification
@opaque
def names_rule_in_line(code: Str, rule_id: Str) -> Bool:
    """Same-line directive text `code` names rule_id: `ignore[a,b]`, `ignore a b`, or `ignore-all`."""
    if re_search_i(P_LINE_BR, code):
        return bracket_rules_match(re_group_i(P_LINE_BR, code, 1), rule_id)
    if re_search_i(P_LINE_SP, code):
        return space_rules_match(re_group_i(P_LINE_SP, code, 1), rule_id)
    return "ignore-all" in code.lower()


@opaque
def names_rule_in_file_directive(line: Str, rule_id: Str) -> Bool:
    """`ignore-file[a,b]` or `ignore-file a b` names rule_id."""
    if re_search_i(P_FILE_BR, line):
        return bracket_rules_match(re_group_i(P_FILE_BR, line, 1), rule_id)
    if re_search_i(P_FILE_SP, line):
        return space_rules_match(re_group_i(P_FILE_SP, line, 1), rule_id)
    return False


@opaque
def next_line_names_rule(prev_line: Str, rule_id: Str) -> Bool:
    """`ignore-next-line[a,b]` names rule_id; a bare `ignore-next-line` names every rule."""
    if re_search(P_NEXT_BR, prev_line):
        return bracket_rules_match(re_group(P_NEXT_BR, prev_line, 1), rule_id)
    return True


def line_marker(code):
    return ("# thailint: ignore" in code.lower() or "# design-lint: ignore" in code.lower()
            or "// thailint: ignore" in code.lower() or "// design-lint: ignore" in code.lower())


def next_line_marker(line):
    return ("# thailint: ignore-next-line" in line or "# design-lint: ignore-next-line" in line
            or "// thailint: ignore-next-line" in line or "// design-lint: ignore-next-line" in line)


def file_marker(line):
    return ("# thailint: ignore-file" in line.lower() or "# design-lint: ignore-file" in line.lower()
            or "// thailint: ignore-file" in line.lower() or "// design-lint: ignore-file" in line.lower())


@opaque
def header_line_ignores(line: Str, rule_id: Opt(Str)) -> Bool:
    """One header line suppresses rule_id (rule_id None/"" = any rule: only a bare `ignore-file` counts)."""
    return file_marker(line) and (names_rule_in_file_directive(line, rule_id) if rule_id else "ignore-file[" not in line)


@opaque
def header_ignores(file_content: Str, rule_id: Opt(Str)) -> Bool:
    return any(header_line_ignores(line, rule_id) for line in file_content.splitlines()[:HEADER_LINES])


@opaque
def same_line_ignores(lines: SeqOf(Str), vline: Int, rule_id: Str) -> Bool:
    """Exactly line vline (1-based), safe for any integer."""
    return 1 <= vline <= len(lines) and line_marker(lines[vline - 1]) \
        and (names_rule_in_line(lines[vline - 1], rule_id) if rule_id else True)


@opaque
def prev_line_ignores(lines: SeqOf(Str), vline: Int, rule_id: Str) -> Bool:
    """Exactly line vline-1."""
    return 2 <= vline <= len(lines) + 1 and next_line_marker(lines[vline - 2]) \
        and next_line_names_rule(lines[vline - 2], rule_id)


# ------------------------------------------------------------------ block scan
@opaque
def is_start(line: Str) -> Bool:
    return block_marker(line, "ignore-start")


@opaque
def is_end(line: Str) -> Bool:
    return block_marker(line, "ignore-end")


def block_scan(rest: SeqOf(Str), i: Int, in_block: Bool, rules: SeqOf(Str), covers: Bool, vline: Int, rule_id: Str) -> Bool:
    """What _check_block_ignore computes on the remaining lines `rest` (first of them is line i) from the scanner
    state (in_block, rules, covers_violation). Code-derived helper spec (after the fix: a block end only decides when
    the block was opened at or before the violation line)."""
    if len(rest) == 0:
        return False
    if is_start(rest[0]):
        return block_scan(rest[1:], i + 1, True, start_rules(rest[0]), i <= vline, vline, rule_id)
    if is_end(rest[0]):
        if in_block and covers and i > vline and rmv(rules, rule_id):
            return True
        return block_scan(rest[1:], i + 1, False, [], covers, vline, rule_id)
    if i == vline and in_block:
        return rmv(rules, rule_id)
    return block_scan(rest[1:], i + 1, in_block, rules, covers, vline, rule_id)


def enclosed(rest: SeqOf(Str), i: Int, in_block: Bool, rules: SeqOf(Str), vline: Int, rule_id: Str) -> Bool:
    """Property text: line vline lies inside an ignore-start/ignore-end block whose rule set names rule_id, i.e. when the
    scan reaches line vline a block is open (opened by the last ignore-start not yet closed) and its rules cover the
    rule. Lines after vline are irrelevant."""
    if len(rest) == 0 or i > vline:
        return False
    if i == vline:
        return in_block and rmv(rules, rule_id)
    if is_start(rest[0]):
        return enclosed(rest[1:], i + 1, True, start_rules(rest[0]), vline, rule_id)
    if is_end(rest[0]):
        return enclosed(rest[1:], i + 1, False, [], vline, rule_id)
    return enclosed(rest[1:], i + 1, in_block, rules, vline, rule_id)


@opaque
def block_ignores(lines: SeqOf(Str), vline: Int, rule_id: Str) -> Bool:
    return 0 < vline <= len(lines) and block_scan(lines, 1, False, [], False, vline, rule_id)


@opaque
def content_ignores(file_content: Str, vline: Int, rule_id: Str) -> Bool:
    return (block_ignores(file_content.splitlines(), vline, rule_id)
            or prev_line_ignores(file_content.splitlines(), vline, rule_id)
            or same_line_ignores(file_content.splitlines(), vline, rule_id))


# ------------------------------------------------------------------ contracts: block level
@contract(IG + "_is_valid_line_range", props=["C04", "C13"], types=dict(line=Int, max_lines=Int), returns=Bool)
class IsValidLineRange:
    def value(line, max_lines):
        return 0 < line <= max_lines


@contract(IG + "_BlockState.__init__", props=["C04"], types=dict(self=BlockStateT),
          modifies=["self.in_block", "self.rules", "self.covers_violation"])
class BlockStateInit:
    def ensures(self):
        return (not self.in_block) and not self.rules and not self.covers_violation


@contract(IG + "_parse_ignore_start_rules", props=["C04"], types=dict(line=Str), returns=SeqOf(Str),
          assumed="regex capture + re.split + set(): the rule set of an ignore-start line is the uninterpreted "
                  "ignore_start_rules(line) (set modelled as the sequence of its elements); bare ignore-start = {'*'} "
                  "is cross-checked natively by the lemma replay and the selftest")
class ParseIgnoreStartRules:
    def value(line):
        return start_rules(line)


@contract(IG + "_handle_block_end", props=["C04"], types=dict(line_num=Int, violation=ViolationT, state=BlockStateT),
          returns=Opt(Bool), modifies=["state.in_block", "state.rules"])
class HandleBlockEnd:
    def value(line_num, violation, old):
        # a block end decides only for a violation line inside the block (opened at or before it, closed after it)
        return True if (old.state.in_block and old.state.covers_violation and line_num > violation.line
                        and rmv(old.state.rules, violation.rule_id)) else None

    def ensures_state(line_num, violation, state, old, result):
        return (implies(result is None, (not state.in_block) and not state.rules)
                and implies(result is not None, state.in_block == old.state.in_block and state.rules == old.state.rules))


@contract(IG + "_process_block_line", props=["C04"],
          types=dict(line=Str, line_num=Int, violation=ViolationT, state=BlockStateT), returns=Opt(Bool),
          modifies=["state.in_block", "state.rules", "state.covers_violation"])
class ProcessBlockLine:
    def reveals(line):
        return reveal(is_start, line) and reveal(is_end, line)

    def ensures_start(line, line_num, violation, state, old, result):
        return implies(is_start(line), result is None and state.in_block and state.rules == start_rules(line)
                       and state.covers_violation == (line_num <= violation.line))

    def ensures_end(line, line_num, violation, state, old, result):
        return implies((not is_start(line)) and is_end(line),
                       (result == (True if (old.state.in_block and old.state.covers_violation
                                            and line_num > violation.line
                                            and rmv(old.state.rules, violation.rule_id)) else None))
                       and implies(result is None, (not state.in_block) and not state.rules)
                       and state.covers_violation == old.state.covers_violation)

    def ensures_plain(line, line_num, violation, state, old, result):
        return implies((not is_start(line)) and (not is_end(line)),
                       result == (rmv(old.state.rules, violation.rule_id)
                                  if (line_num == violation.line and old.state.in_block) else None))

    def ensures_state_kept(line, line_num, violation, state, old, result):
        # the scanner state only changes on marker lines that do not decide
        return implies(result is not None or ((not is_start(line)) and (not is_end(line))),
                       state.in_block == old.state.in_block and state.rules == old.state.rules
                       and state.covers_violation == old.state.covers_violation)


@contract(IG + "_check_block_ignore", props=["C04"],
          types=dict(lines=SeqOf(Str), violation=ViolationT, state=BlockStateT, result=Opt(Bool), i=Int, line=Str),
          returns=Bool)
class CheckBlockIgnore:
    def reveals(lines, violation):
        return reveal(block_ignores, lines, violation.line, violation.rule_id)

    def value(lines, violation):
        return block_ignores(lines, violation.line, violation.rule_id)

    def inv0(lines, violation, state, rest):
        # outside a block the rule set is irrelevant (the scanner resets it to the empty set; the spec passes [])
        return len(rest) <= len(lines) and \
            block_scan(lines, 1, False, [], False, violation.line, violation.rule_id) == \
            block_scan(rest, len(lines) - len(rest) + 1, state.in_block, state.rules if state.in_block else [],
                       state.covers_violation,
                       violation.line, violation.rule_id)


# ------------------------------------------------------------------ contracts: previous line / same line
@contract(IG + "_get_prev_line", props=["C04", "C13"], types=dict(lines=SeqOf(Str), violation_line=Int), returns=Opt(Str))
class GetPrevLine:
    def value(lines, violation_line):
        return lines[violation_line - 2] if 2 <= violation_line <= len(lines) + 1 else None


@contract(IG + "_matches_ignore_next_line_rules", props=["C04"], types=dict(prev_line=Str, rule_id=Str), returns=Bool)
class MatchesIgnoreNextLineRules:
    def reveals(prev_line, rule_id):
        return reveal(next_line_names_rule, prev_line, rule_id)

    def value(prev_line, rule_id):
        return next_line_names_rule(prev_line, rule_id)


@contract(IG + "_check_prev_line_ignore", props=["C04", "C13"], types=dict(lines=SeqOf(Str), violation=ViolationT),
          returns=Bool)
class CheckPrevLineIgnore:
    def reveals(lines, violation):
        return reveal(prev_line_ignores, lines, violation.line, violation.rule_id)

    def value(lines, violation):
        return prev_line_ignores(lines, violation.line, violation.rule_id)


@contract(IG + "_check_specific_rule_in_line", props=["C04"], types=dict(code=Str, rule_id=Str), returns=Bool)
class CheckSpecificRuleInLine:
    def reveals(code, rule_id):
        return reveal(names_rule_in_line, code, rule_id)

    def value(code, rule_id):
        return names_rule_in_line(code, rule_id)


@contract(IG + "_check_current_line_ignore", props=["C04", "C13"], types=dict(lines=SeqOf(Str), violation=ViolationT),
          returns=Bool)
class CheckCurrentLineIgnore:
    def reveals(lines, violation):
        return reveal(same_line_ignores, lines, violation.line, violation.rule_id)

    def value(lines, violation):
        return same_line_ignores(lines, violation.line, violation.rule_id)


@contract(IG + "IgnoreDirectiveParser.has_line_ignore", props=["C04"],
          types=dict(self=ParserT, code=Str, line_num=Int, rule_id=Opt(Str)), returns=Bool)
class HasLineIgnore:
    def value(code, rule_id):
        return line_marker(code) and (names_rule_in_line(code, rule_id) if rule_id else True)


# ------------------------------------------------------------------ contracts: file level
@contract(IG + "_check_specific_rule_ignore", props=["C04"], types=dict(line=Str, rule_id=Str), returns=Bool)
class CheckSpecificRuleIgnore:
    def reveals(line, rule_id):
        return reveal(names_rule_in_file_directive, line, rule_id)

    def value(line, rule_id):
        return names_rule_in_file_directive(line, rule_id)


@contract(IG + "_check_line_for_ignore", props=["C04"], types=dict(line=Str, rule_id=Opt(Str)), returns=Bool)
class CheckLineForIgnore:
    def reveals(line, rule_id):
        return reveal(header_line_ignores, line, rule_id)

    def value(line, rule_id):
        return header_line_ignores(line, rule_id)


@contract(IG + "_has_file_ignore_in_content", props=["C04"], types=dict(file_content=Str, rule_id=Opt(Str), lines=SeqOf(Str)),
          returns=Bool)
class HasFileIgnoreInContent:
    def reveals(file_content, rule_id):
        return reveal(header_ignores, file_content, rule_id)

    def value(file_content, rule_id):
        return header_ignores(file_content, rule_id)

    def ensures_first_sixth_and_tenth_line_count(file_content, rule_id, result):
        # property text: "in the first ten lines" -- stated per position (files of exactly k+1 lines whose last line
        # carries a matching directive), so that a shorter scan window has a finite counterexample
        return all(implies(len(file_content.splitlines()) == k + 1
                           and header_line_ignores(file_content.splitlines()[k], rule_id), result) for k in (0, 5, 9))


@contract(IG + "_is_ignored_in_content", props=["C04"], types=dict(file_content=Str, violation=ViolationT, lines=SeqOf(Str)),
          returns=Bool)
class IsIgnoredInContent:
    def reveals(file_content, violation):
        return reveal(content_ignores, file_content, violation.line, violation.rule_id)

    def value(file_content, violation):
        return content_ignores(file_content, violation.line, violation.rule_id)


# ------------------------------------------------------------------ contracts: the parser's entry points
from contracts.c14_collect import ign_now, ign_fresh, cache_coherent, cache_after  # noqa: E402  (is_ignored is contracted there)


from contracts.c15_language import fs_text, fs_io_ok, fs_utf8_ok  # noqa: E402  (one file-system snapshot per unit)
from contracts.c09_paths import fs_exists  # noqa: E402


def disk_header_lines(p):
    """The file on disk as a line sequence, cut to its header: the first TEN lines (property text); nothing when the
    file is missing or unreadable."""
    return fs_text(p).splitlines()[:HEADER_LINES] if (fs_exists(p) and fs_io_ok(p) and fs_utf8_ok(p)) else []


@opaque
def disk_header_ignore(p: PathT, rule_id: Opt(Str)) -> Bool:
    """An ignore-file directive naming rule_id stands in the header of the file on disk."""
    return any(header_line_ignores(line, rule_id) for line in disk_header_lines(p))


@contract(IG + "IgnoreDirectiveParser.has_file_ignore", props=["C04"],
          types=dict(self=ParserT, file_path=PathT, rule_id=Opt(Str), first_lines=SeqOf(Str), content=Str), returns=Bool,
          inline=["_read_file_first_lines"])
class HasFileIgnore:
    """Verified up to the read: _read_file_first_lines is executed inline over the file-system model (exists / read_text
    are functions of the path, read errors are contained), so "only the first ten lines" is part of the proof."""
    def reveals(file_path, rule_id):
        return reveal(disk_header_ignore, file_path, rule_id)

    def value(file_path, rule_id):
        return disk_header_ignore(file_path, rule_id)


def file_level(cache, root, pats, p, content, rule_id):
    """Repository pattern (memoised), or ignore-file header in the content, or in the file on disk."""
    return ign_now(cache, root, pats, p) or header_ignores(content, rule_id) or disk_header_ignore(p, rule_id)


@contract(IG + "IgnoreDirectiveParser._is_ignored_at_file_level", props=["C04"],
          types=dict(self=ParserT, file_path=PathT, rule_id=Str, file_content=Str), returns=Bool,
          modifies=["self._ignore_cache"])
class IsIgnoredAtFileLevel:
    def value(self, file_path, rule_id, file_content, old):
        return file_level(old.self._ignore_cache, self.project_root, self.repo_patterns, file_path, file_content, rule_id)

    def ensures_cache(self, file_path, old):
        return self._ignore_cache == cache_after(old.self._ignore_cache, self.project_root, self.repo_patterns, file_path)


def suppressed(cache, root, pats, file_path, rule_id, line, content):
    """Property text: the verdict of the shared filter for a violation -- a function of
    (rule_id, line, content, path) and of the repository patterns only."""
    return file_level(cache, root, pats, path_of_str(file_path), content, rule_id) or content_ignores(content, line, rule_id)


@contract(IG + "IgnoreDirectiveParser.should_ignore_violation", props=["C04"],
          types=dict(self=ParserT, violation=ViolationT, file_content=Str, file_path=PathT), returns=Bool,
          modifies=["self._ignore_cache"])
class ShouldIgnoreViolation:
    def value(self, violation, file_content, old):
        return suppressed(old.self._ignore_cache, self.project_root, self.repo_patterns, violation.file_path,
                          violation.rule_id, violation.line, file_content)

    def ensures_repo_pattern_or_directive(self, violation, file_content, old, result):
        # with a coherent memo entry: repository pattern, or header, or block / previous line / same line
        return implies(cache_coherent(old.self._ignore_cache, self.project_root, self.repo_patterns, path_of_str(violation.file_path)),
                       result == (ign_fresh(self.project_root, self.repo_patterns, path_of_str(violation.file_path))
                                  or header_ignores(file_content, violation.rule_id)
                                  or disk_header_ignore(path_of_str(violation.file_path), violation.rule_id)
                                  or content_ignores(file_content, violation.line, violation.rule_id)))


# ------------------------------------------------------------------ lemmas: scope of each directive form
@lemma(props=["C04"], types=dict(lines=SeqOf(Str), v=ViolationT), name="same-line-directive-scope")
def same_line_scope(lines, v):
    """A same-line directive acts on exactly its own line: the verdict reads lines[v.line-1] only, is False for
    line numbers outside the file, and needs the marker AND a spelling naming the rule (or no rule id at all)."""
    r = call(IG + "_check_current_line_ignore", lines, v)
    reveal(same_line_ignores, lines, v.line, v.rule_id)
    if v.line < 1 or v.line > len(lines):
        return not r
    return r == (line_marker(lines[v.line - 1]) and (names_rule_in_line(lines[v.line - 1], v.rule_id) if v.rule_id else True))


@lemma(props=["C04"], types=dict(lines=SeqOf(Str), v=ViolationT), name="next-line-directive-scope")
def next_line_scope(lines, v):
    """ignore-next-line acts on exactly the following line: the verdict reads lines[v.line-2] only."""
    r = call(IG + "_check_prev_line_ignore", lines, v)
    reveal(prev_line_ignores, lines, v.line, v.rule_id)
    if v.line < 2 or v.line > len(lines) + 1:
        return not r
    return r == (next_line_marker(lines[v.line - 2]) and next_line_names_rule(lines[v.line - 2], v.rule_id))


@lemma(props=["C04"], types=dict(lines=SeqOf(Str), other=SeqOf(Str), v=ViolationT), name="line-directives-ignore-other-lines")
def line_isolation(lines, other, v):
    """Changing any line other than v.line (resp. v.line-1) does not change the same-line (resp. next-line) verdict."""
    if len(lines) != len(other):
        return True
    reveal(same_line_ignores, lines, v.line, v.rule_id)
    reveal(same_line_ignores, other, v.line, v.rule_id)
    reveal(prev_line_ignores, lines, v.line, v.rule_id)
    reveal(prev_line_ignores, other, v.line, v.rule_id)
    same = implies(1 <= v.line <= len(lines) and lines[v.line - 1] == other[v.line - 1],
                   call(IG + "_check_current_line_ignore", lines, v) == call(IG + "_check_current_line_ignore", other, v))
    prev = implies(2 <= v.line <= len(lines) + 1 and lines[v.line - 2] == other[v.line - 2],
                   call(IG + "_check_prev_line_ignore", lines, v) == call(IG + "_check_prev_line_ignore", other, v))
    return same and prev


@lemma(props=["C04"], types=dict(line=Str, rule_id=Str), name="directive-naming-another-rule-changes-nothing")
def other_rule_same_line(line, rule_id):
    """A bracketed same-line / next-line / ignore-file directive none of whose spellings names the rule does not
    suppress it."""
    reveal(names_rule_in_line, line, rule_id)
    reveal(next_line_names_rule, line, rule_id)
    reveal(names_rule_in_file_directive, line, rule_id)
    a = implies(re_search_i(P_LINE_BR, line) and not bracket_rules_match(re_group_i(P_LINE_BR, line, 1), rule_id),
                not call(IG + "_check_specific_rule_in_line", line, rule_id))
    b = implies(re_search(P_NEXT_BR, line) and not bracket_rules_match(re_group(P_NEXT_BR, line, 1), rule_id),
                not call(IG + "_matches_ignore_next_line_rules", line, rule_id))
    c = implies(re_search_i(P_FILE_BR, line) and not bracket_rules_match(re_group_i(P_FILE_BR, line, 1), rule_id),
                not call(IG + "_check_specific_rule_ignore", line, rule_id))
    return a and b and c


@lemma(props=["C04"], types=dict(c1=Str, c2=Str, rule_id=Str), name="ignore-file-only-in-first-ten-lines")
def header_only(c1, c2, rule_id):
    """Two contents with the same first ten lines have the same ignore-file verdict (a directive further down is
    not a file directive)."""
    if c1.splitlines()[:10] != c2.splitlines()[:10]:
        return True
    reveal(header_ignores, c1, rule_id)
    reveal(header_ignores, c2, rule_id)
    return call(IG + "_has_file_ignore_in_content", c1, rule_id) == call(IG + "_has_file_ignore_in_content", c2, rule_id)


# ------------------------------------------------------------------ lemmas: block scope
def not_a_marker_at(rest, i, vline):
    """The violation's own line (if it is among `rest`, whose first line is line i) is not a block marker comment."""
    return implies(i <= vline and vline - i < len(rest), (not is_start(rest[vline - i])) and (not is_end(rest[vline - i])))


@lemma(props=["C04"], types=dict(rest=SeqOf(Str), i=Int, in_block=Bool, rules=SeqOf(Str), covers=Bool, vline=Int, rule_id=Str),
       name="scan-past-the-violation-line-decides-nothing")
def scan_after_false(rest, i, in_block, rules, covers, vline, rule_id):
    """By induction: once the scan is past the violation line with no block open (or only a block opened after that
    line), nothing further can silence the violation -- directives below the violation's scope change nothing."""
    if i <= vline or (in_block and covers):
        return True
    if len(rest) == 0:
        return not block_scan(rest, i, in_block, rules, covers, vline, rule_id)
    if is_start(rest[0]):
        ih(scan_after_false, rest[1:], i + 1, True, start_rules(rest[0]), False, vline, rule_id)
    elif is_end(rest[0]):
        ih(scan_after_false, rest[1:], i + 1, False, [], covers, vline, rule_id)
    else:
        ih(scan_after_false, rest[1:], i + 1, in_block, rules, covers, vline, rule_id)
    return not block_scan(rest, i, in_block, rules, covers, vline, rule_id)


@lemma(props=["C04"], types=dict(rest=SeqOf(Str), i=Int, in_block=Bool, rules=SeqOf(Str), covers=Bool, vline=Int, rule_id=Str),
       name="block-scan-is-enclosure")
def scan_is_enclosed(rest, i, in_block, rules, covers, vline, rule_id):
    """By induction on the remaining lines: the scanner of _check_block_ignore says `ignored` exactly when the
    violation line is enclosed by a block naming its rule (property text)."""
    if i > vline or not not_a_marker_at(rest, i, vline):
        return True
    if len(rest) == 0:
        return block_scan(rest, i, in_block, rules, covers, vline, rule_id) == enclosed(rest, i, in_block, rules, vline, rule_id)
    if i == vline:
        use(scan_after_false, rest[1:], i + 1, in_block, rules, covers, vline, rule_id)
    elif is_start(rest[0]):
        ih(scan_is_enclosed, rest[1:], i + 1, True, start_rules(rest[0]), True, vline, rule_id)
    elif is_end(rest[0]):
        ih(scan_is_enclosed, rest[1:], i + 1, False, [], covers, vline, rule_id)
    else:
        ih(scan_is_enclosed, rest[1:], i + 1, in_block, rules, covers, vline, rule_id)
    return block_scan(rest, i, in_block, rules, covers, vline, rule_id) == enclosed(rest, i, in_block, rules, vline, rule_id)


@lemma(props=["C04"], types=dict(lines=SeqOf(Str), v=ViolationT), name="block-encloses-violation")
def block_top(lines, v):
    """Top-level statement for _check_block_ignore: ignored <=> the violation line lies inside a block whose rule set
    names the rule; in particular a block that starts after the violation line, or was closed before it, changes nothing."""
    if v.line < 1 or v.line > len(lines) or is_start(lines[v.line - 1]) or is_end(lines[v.line - 1]):
        return True
    reveal(block_ignores, lines, v.line, v.rule_id)
    use(scan_is_enclosed, lines, 1, False, [], False, v.line, v.rule_id)
    return call(IG + "_check_block_ignore", lines, v) == enclosed(lines, 1, False, [], v.line, v.rule_id)


@lemma(props=["C04"], types=dict(lines=SeqOf(Str), v=ViolationT), name="lines-outside-the-file-are-never-in-a-block")
def block_range(lines, v):
    reveal(block_ignores, lines, v.line, v.rule_id)
    return implies(v.line < 1 or v.line > len(lines), not call(IG + "_check_block_ignore", lines, v))


@lemma(props=["C04"], types=dict(l1=Str, l2=Str, l3=Str, v=ViolationT), name="block-after-violation-changes-nothing")
def block_after_violation(l1, l2, l3, v):
    """Property text: a directive placed outside the scope changes nothing -- a block that starts AFTER the violation
    line does not silence it. Smallest shape (violation on line 1 of a three-line file), as the three scanner steps
    _check_block_ignore performs. (Was refuted before fix C04-block-silences-earlier-lines.)"""
    if v.line != 1 or is_start(l1) or is_end(l1):
        return True
    st = mk(BlockStateT, in_block=False, rules=[], covers_violation=False)
    r1 = call(IG + "_process_block_line", l1, 1, v, st)
    if r1 is not None:
        return not r1
    r2 = call(IG + "_process_block_line", l2, 2, v, st)
    if r2 is not None:
        return not r2
    r3 = call(IG + "_process_block_line", l3, 3, v, st)
    if r3 is not None:
        return not r3
    return True


# ------------------------------------------------------------------ lemma: isolation
@lemma(props=["C04"], types=dict(s1=ParserT, s2=ParserT, v1=ViolationT, v2=ViolationT, content=Str), name="filter-isolation")
def isolation(s1, s2, v1, v2, content):
    """The verdict of the shared filter depends only on (rule_id, line, file content, path) and on the parser's
    repository patterns -- not on message, column, severity or suggestion, nor on any other violation."""
    if not (v1.rule_id == v2.rule_id and v1.line == v2.line and v1.file_path == v2.file_path):
        return True
    if not (s1.project_root == s2.project_root and s1.repo_patterns == s2.repo_patterns and s1._ignore_cache == s2._ignore_cache):
        return True
    return call(IG + "IgnoreDirectiveParser.should_ignore_violation", s1, v1, content) == \
        call(IG + "IgnoreDirectiveParser.should_ignore_violation", s2, v2, content)


# ------------------------------------------------------------------ a new parser starts with a decision cache of its own
# (the primary contract of __init__ is C08's, assumed for the file I/O; this view verifies the initialisation part: the
# pattern loader is applied by its own contract, everything else is executed)
@contract(IG + "IgnoreDirectiveParser.__init__~c04", props=["C04"], types=dict(self=ParserT, project_root=Opt(PathT)),
          modifies=["self.project_root", "self.repo_patterns", "self._ignore_cache"])
class ParserInitView:
    def ensures_starts_with_an_empty_decision_cache(self):
        # set as an INSTANCE attribute by __init__: whatever an earlier parser decided is not visible to this one
        return self._ignore_cache == {}

    def ensures_root_as_given(self, project_root):
        return implies(project_root is not None, self.project_root == project_root)


@lemma(props=["C04"], types=dict(old_parser=ParserT, new_parser=ParserT, root=PathT, p=PathT), name="a-new-parser-decides-afresh")
def new_parser_decides_afresh(old_parser, new_parser, root, p):
    """Two parser generations: whatever verdict an earlier parser memoised for a path, a parser constructed afterwards
    answers from ITS OWN patterns (its memo starts empty, so ign_now is ign_fresh)."""
    call(IG + "IgnoreDirectiveParser.__init__~c04", new_parser, root)
    return ign_now(new_parser._ignore_cache, new_parser.project_root, new_parser.repo_patterns, p) == \
        ign_fresh(new_parser.project_root, new_parser.repo_patterns, p)
