"""C04 (part 3) -- the shared suppression filter (src/linter_config/ignore.py, pattern_utils.py).

Top-level spec (property text): a violation v is suppressed iff
  * a repository-level ignore pattern matches its file, or
  * an `ignore-file` directive naming v.rule_id stands in the first TEN lines, or
  * v.line lies inside an `ignore-start` ... `ignore-end` block whose rule set names v.rule_id, or
  * line v.line-1 carries `ignore-next-line` naming it, or
  * line v.line itself carries `ignore` naming it;
a directive naming a different rule, or placed outside that scope, changes nothing.
Regular expressions and fnmatch are uninterpreted (match / captured group are functions of (pattern, subject));
a set[str] is modelled as the sequence of its elements (only `in` and any() are applied to it)."""
import z3

from pyvc.api import (contract, lemma, Int, Bool, Str, SeqOf, Opt, Rec, Dict, implies, call, mk, opaque, reveal, ih, uf)
from pyvc.ex_call import EXTERNALS
from pyvc.ty import VBool, Unsupported
from contracts._common import ViolationT, PathT, re_search, re_search_i, re_group, re_group_i, path_str
from contracts.c09_paths import path_of_str, path_parts
from contracts.c04_rule_matcher import spec_matches, rmv, bracket_rules_match, space_rules_match
from contracts.c04_markers import block_marker

IG = "src/linter_config/ignore.py::"
PU = "src/linter_config/pattern_utils.py::"
HEADER_LINES = 10  # property text: "an ignore-file[rule] in the first ten lines"

# regular expressions of ignore.py (the uninterpreted match/group functions are indexed by the pattern text)
P_FILE_BR = r"ignore-file\[([^\]]+)\]"
P_FILE_SP = r"ignore-file\s+([^\s#]+(?:\s+[^\s#]+)*)"
P_LINE_BR = r"ignore\[([^\]]+)\]"
P_LINE_SP = r"ignore\s+([^\s#]+(?:\s+[^\s#]+)*)"
P_NEXT_BR = r"ignore-next-line\[([^\]]+)\]"

BlockStateT = Rec("_BlockState", cls=IG + "_BlockState", in_block=Bool, rules=SeqOf(Str))
ParserT = Rec("IgnoreDirectiveParser", cls=IG + "IgnoreDirectiveParser", project_root=PathT, repo_patterns=SeqOf(Str),
              _ignore_cache=Dict)


# ------------------------------------------------------------------ trusted externals: fnmatch, the ignore-start parser
def _native_fnmatch(path, pattern):
    import fnmatch
    return fnmatch.fnmatch(path, pattern)


fnmatch_uf = uf("fnmatch", [Str, Str], Bool, concrete=_native_fnmatch)


def _x_fnmatch(ex, args, kwargs, lineno):
    """fnmatch.fnmatch(name, pattern): uninterpreted predicate (the glob engine is trusted)."""
    if len(args) != 2 or kwargs:
        raise Unsupported("fnmatch.fnmatch with other than two arguments")
    return ex.call_uf("fnmatch", list(args))


EXTERNALS.setdefault("fnmatch.fnmatch", _x_fnmatch)


def _native_start_rules(line):
    from pyvc.native import call_target
    return sorted(call_target(IG + "_parse_ignore_start_rules", line))


start_rules = uf("ignore_start_rules", [Str], SeqOf(Str), concrete=_native_start_rules)
path_rel = uf("path_relative_to", [PathT, PathT], PathT, concrete=lambda p, r: p.relative_to(r))


def _native_disk_header(file_path, rule_id):
    from pyvc.native import call_target, resolve_target
    _, _, cls = resolve_target(IG + "IgnoreDirectiveParser")
    return cls.has_file_ignore(object.__new__(cls), file_path, rule_id or None)


disk_header_ignore = uf("disk_header_ignore", [PathT, Str], Bool, concrete=_native_disk_header)


# ------------------------------------------------------------------ line-level specification
def names_rule_in_line(code, rule_id):
    """Same-line directive text `code` names rule_id: `ignore[a,b]`, `ignore a b`, or `ignore-all`."""
    if re_search_i(P_LINE_BR, code):
        return bracket_rules_match(re_group_i(P_LINE_BR, code, 1), rule_id)
    if re_search_i(P_LINE_SP, code):
        return space_rules_match(re_group_i(P_LINE_SP, code, 1), rule_id)
    return "ignore-all" in code.lower()


def names_rule_in_file_directive(line, rule_id):
    """`ignore-file[a,b]` or `ignore-file a b` names rule_id."""
    if re_search_i(P_FILE_BR, line):
        return bracket_rules_match(re_group_i(P_FILE_BR, line, 1), rule_id)
    if re_search_i(P_FILE_SP, line):
        return space_rules_match(re_group_i(P_FILE_SP, line, 1), rule_id)
    return False


def next_line_names_rule(prev_line, rule_id):
    """`ignore-next-line[a,b]` names rule_id; a bare `ignore-next-line` names every rule."""
    if re_search(P_NEXT_BR, prev_line):
        return bracket_rules_match(re_group(P_NEXT_BR, prev_line, 1), rule_id)
    return True


def line_marker(code):
    return ("# thailint: ignore" in code.lower() or "# design-lint: ignore" in code.lower()
            or "// thailint: ignore" in code.lower() or "// design-lint: ignore" in code.lower())


def next_line_marker(line):
    return "# thailint: ignore-next-line" in line or "# design-lint: ignore-next-line" in line


def file_marker(line):
    return "# thailint: ignore-file" in line.lower() or "# design-lint: ignore-file" in line.lower()


def header_line_ignores(line, rule_id):
    """One header line suppresses rule_id (rule_id None/"" = any rule: only a bare `ignore-file` counts)."""
    return file_marker(line) and (names_rule_in_file_directive(line, rule_id) if rule_id else "ignore-file[" not in line)


def header_ignores(file_content, rule_id):
    return any(header_line_ignores(line, rule_id) for line in file_content.splitlines()[:HEADER_LINES])


def same_line_ignores(lines, vline, rule_id):
    """Exactly line vline (1-based), safe for any integer."""
    return 1 <= vline <= len(lines) and line_marker(lines[vline - 1]) \
        and (names_rule_in_line(lines[vline - 1], rule_id) if rule_id else True)


def prev_line_ignores(lines, vline, rule_id):
    """Exactly line vline-1."""
    return 2 <= vline <= len(lines) + 1 and next_line_marker(lines[vline - 2]) \
        and next_line_names_rule(lines[vline - 2], rule_id)


# ------------------------------------------------------------------ block scan
@opaque
def is_start(line: Str) -> Bool:
    return block_marker(line, "ignore-start")


@opaque
def is_end(line: Str) -> Bool:
    return block_marker(line, "ignore-end")


def block_scan(rest: SeqOf(Str), i: Int, in_block: Bool, rules: SeqOf(Str), vline: Int, rule_id: Str) -> Bool:
    """What _check_block_ignore computes on the remaining lines `rest` (first of them is line i) from the scanner
    state (in_block, rules). Code-derived helper spec."""
    if len(rest) == 0:
        return False
    if is_start(rest[0]):
        return block_scan(rest[1:], i + 1, True, start_rules(rest[0]), vline, rule_id)
    if is_end(rest[0]):
        if in_block and i > vline and rmv(rules, rule_id):
            return True
        return block_scan(rest[1:], i + 1, False, [], vline, rule_id)
    if i == vline and in_block:
        return rmv(rules, rule_id)
    return block_scan(rest[1:], i + 1, in_block, rules, vline, rule_id)


def enclosed(rest: SeqOf(Str), i: Int, in_block: Bool, rules: SeqOf(Str), vline: Int, rule_id: Str) -> Bool:
    """Property text: line vline lies inside an ignore-start/ignore-end block whose rule set names rule_id, i.e. when the
    scan reaches line vline a block is open (opened by the last ignore-start not yet closed) and its rules cover the
    rule. Lines after vline are irrelevant."""
    if len(rest) == 0 or i > vline:
        return False
    if i == vline:
        return in_block and rmv(rules, rule_id)
    if is_start(rest[0]):
        return enclosed(rest[1:], i + 1, True, start_rules(rest[0]), vline, rule_id)
    if is_end(rest[0]):
        return enclosed(rest[1:], i + 1, False, [], vline, rule_id)
    return enclosed(rest[1:], i + 1, in_block, rules, vline, rule_id)


def block_ignores(lines, vline, rule_id):
    return 0 < vline <= len(lines) and block_scan(lines, 1, False, [], vline, rule_id)


def content_ignores(file_content, vline, rule_id):
    return (block_ignores(file_content.splitlines(), vline, rule_id)
            or prev_line_ignores(file_content.splitlines(), vline, rule_id)
            or same_line_ignores(file_content.splitlines(), vline, rule_id))


# ------------------------------------------------------------------ contracts: block level
@contract(IG + "_is_valid_line_range", props=["C04", "C13"], types=dict(line=Int, max_lines=Int), returns=Bool)
class IsValidLineRange:
    def value(line, max_lines):
        return 0 < line <= max_lines


@contract(IG + "_BlockState.__init__", props=["C04"], types=dict(self=BlockStateT), modifies=["self.in_block", "self.rules"])
class BlockStateInit:
    def ensures(self):
        return (not self.in_block) and len(self.rules) == 0


@contract(IG + "_parse_ignore_start_rules", props=["C04"], types=dict(line=Str), returns=SeqOf(Str),
          assumed="regex capture + re.split + set(): the rule set of an ignore-start line is the uninterpreted "
                  "ignore_start_rules(line) (set modelled as the sequence of its elements); bare ignore-start = {'*'} "
                  "is cross-checked natively by the lemma replay and the selftest")
class ParseIgnoreStartRules:
    def value(line):
        return start_rules(line)


@contract(IG + "_handle_block_end", props=["C04"], types=dict(line_num=Int, violation=ViolationT, state=BlockStateT),
          returns=Opt(Bool), modifies=["state.in_block", "state.rules"])
class HandleBlockEnd:
    def value(line_num, violation, old):
        return True if (old.state.in_block and line_num > violation.line and rmv(old.state.rules, violation.rule_id)) else None

    def ensures_state(line_num, violation, state, old, result):
        return (implies(result is None, (not state.in_block) and len(state.rules) == 0)
                and implies(result is not None, state.in_block == old.state.in_block and state.rules == old.state.rules))


@contract(IG + "_process_block_line", props=["C04"],
          types=dict(line=Str, line_num=Int, violation=ViolationT, state=BlockStateT), returns=Opt(Bool),
          modifies=["state.in_block", "state.rules"])
class ProcessBlockLine:
    def reveals(line):
        return reveal(is_start, line) and reveal(is_end, line)

    def ensures_start(line, line_num, violation, state, old, result):
        return implies(is_start(line), result is None and state.in_block and state.rules == start_rules(line))

    def ensures_end(line, line_num, violation, state, old, result):
        return implies((not is_start(line)) and is_end(line),
                       (result == (True if (old.state.in_block and line_num > violation.line
                                            and rmv(old.state.rules, violation.rule_id)) else None))
                       and implies(result is None, (not state.in_block) and len(state.rules) == 0))

    def ensures_plain(line, line_num, violation, state, old, result):
        return implies((not is_start(line)) and (not is_end(line)),
                       result == (rmv(old.state.rules, violation.rule_id)
                                  if (line_num == violation.line and old.state.in_block) else None))

    def ensures_state_kept(line, line_num, violation, state, old, result):
        # the scanner state only changes on marker lines that do not decide
        return implies(result is not None or ((not is_start(line)) and (not is_end(line))),
                       state.in_block == old.state.in_block and state.rules == old.state.rules)


@contract(IG + "_check_block_ignore", props=["C04"],
          types=dict(lines=SeqOf(Str), violation=ViolationT, state=BlockStateT, result=Opt(Bool), i=Int, line=Str),
          returns=Bool)
class CheckBlockIgnore:
    def value(lines, violation):
        return block_ignores(lines, violation.line, violation.rule_id)

    def inv0(lines, violation, state, rest):
        return len(rest) <= len(lines) and \
            block_scan(lines, 1, False, [], violation.line, violation.rule_id) == \
            block_scan(rest, len(lines) - len(rest) + 1, state.in_block, state.rules, violation.line, violation.rule_id)


# ------------------------------------------------------------------ contracts: previous line / same line
@contract(IG + "_get_prev_line", props=["C04", "C13"], types=dict(lines=SeqOf(Str), violation_line=Int), returns=Opt(Str))
class GetPrevLine:
    def value(lines, violation_line):
        return lines[violation_line - 2] if 2 <= violation_line <= len(lines) + 1 else None


@contract(IG + "_matches_ignore_next_line_rules", props=["C04"], types=dict(prev_line=Str, rule_id=Str), returns=Bool)
class MatchesIgnoreNextLineRules:
    def value(prev_line, rule_id):
        return next_line_names_rule(prev_line, rule_id)


@contract(IG + "_check_prev_line_ignore", props=["C04", "C13"], types=dict(lines=SeqOf(Str), violation=ViolationT),
          returns=Bool)
class CheckPrevLineIgnore:
    def value(lines, violation):
        return prev_line_ignores(lines, violation.line, violation.rule_id)


@contract(IG + "_check_specific_rule_in_line", props=["C04"], types=dict(code=Str, rule_id=Str), returns=Bool)
class CheckSpecificRuleInLine:
    def value(code, rule_id):
        return names_rule_in_line(code, rule_id)


@contract(IG + "_check_current_line_ignore", props=["C04", "C13"], types=dict(lines=SeqOf(Str), violation=ViolationT),
          returns=Bool)
class CheckCurrentLineIgnore:
    def value(lines, violation):
        return same_line_ignores(lines, violation.line, violation.rule_id)


@contract(IG + "IgnoreDirectiveParser.has_line_ignore", props=["C04"],
          types=dict(self=ParserT, code=Str, line_num=Int, rule_id=Opt(Str)), returns=Bool)
class HasLineIgnore:
    def value(code, rule_id):
        return line_marker(code) and (names_rule_in_line(code, rule_id) if rule_id else True)


# ------------------------------------------------------------------ contracts: file level
@contract(IG + "_check_specific_rule_ignore", props=["C04"], types=dict(line=Str, rule_id=Str), returns=Bool)
class CheckSpecificRuleIgnore:
    def value(line, rule_id):
        return names_rule_in_file_directive(line, rule_id)


@contract(IG + "_check_line_for_ignore", props=["C04"], types=dict(line=Str, rule_id=Opt(Str)), returns=Bool)
class CheckLineForIgnore:
    def value(line, rule_id):
        return header_line_ignores(line, rule_id)


@contract(IG + "_has_file_ignore_in_content", props=["C04"], types=dict(file_content=Str, rule_id=Opt(Str), lines=SeqOf(Str)),
          returns=Bool)
class HasFileIgnoreInContent:
    def value(file_content, rule_id):
        return header_ignores(file_content, rule_id)


@contract(IG + "_is_ignored_in_content", props=["C04"], types=dict(file_content=Str, violation=ViolationT, lines=SeqOf(Str)),
          returns=Bool)
class IsIgnoredInContent:
    def value(file_content, violation):
        return content_ignores(file_content, violation.line, violation.rule_id)
