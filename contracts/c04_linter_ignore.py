"""C04 (part 6) -- linter-level ignore patterns ("... or a repository- or LINTER-level ignore pattern matching the file").

Two halves:
  * the pattern list reaches the rule: every `<Linter>Config.from_dict` must hand the section's `ignore` list to the
    config object it builds. Those functions are contracted (with an `ignore` clause) by the configuration property's
    files; C04 DEPENDS on them, so this module adds "C04" to the `props` of every such contract (one contract per
    function, several properties) and a mechanical coverage check reports, per config class that has an ignore field
    in the REAL source, whether a verified contract with an `ignore` clause carries C04 (else UNDECIDED, never silent).
  * the rule consults the list: the `_is_file_ignored` / `_matches_pattern` pairs of the rule classes (six textually
    identical copies) are put under contract here (glob matching itself = uninterpreted predicate)."""
import ast
import os

import z3

from pyvc import api as _api
from pyvc.api import contract, custom, lemma, Bool, Int, Str, SeqOf, Opt, Rec, implies, call, uf, ih, use
from pyvc.ex_call import EXTERNALS
from pyvc.ty import VBool, Unsupported
from contracts._common import PathT, path_str

# ------------------------------------------------------------------ C04 depends on contracts owned by other properties
DEPENDS = []  # (target, why)
_IMPORT_ERRORS = {}
for _m in ("contracts.c05_config", "contracts.c16_srp", "contracts.c02_magic_numbers", "contracts.c09_path_predicates",
           "contracts.c11_containment", "contracts.c15_language"):
    try:
        __import__(_m)
    except BaseException as _e:  # noqa  (reported by the coverage check below, never silently)
        _IMPORT_ERRORS[_m] = repr(_e)[:200]


def config_classes_with_ignore(repo):
    """(relpath, class name, field) for every dataclass in src/linters/*/config.py that has an ignore-pattern field and
    a from_dict -- read from the real source on every run."""
    out = []
    base = os.path.join(repo, "src", "linters")
    for pkg in sorted(os.listdir(base)):
        f = os.path.join(base, pkg, "config.py")
        if not os.path.isfile(f):
            continue
        for n in ast.parse(open(f, encoding="utf-8").read()).body:
            if not isinstance(n, ast.ClassDef):
                continue
            fields = [s.target.id for s in n.body if isinstance(s, ast.AnnAssign) and isinstance(s.target, ast.Name)]
            fld = next((x for x in fields if x in ("ignore", "ignore_patterns")), None)
            if fld and any(isinstance(s, ast.FunctionDef) and s.name == "from_dict" for s in n.body):
                out.append((f"src/linters/{pkg}/config.py", n.name, fld))
    return out


_REPO = os.environ.get("VERIF_REPO", "/repo")
PREDICATES = [  # consumers of config.ignore contracted under other properties
    "src/linters/srp/linter.py::SRPRule._is_file_ignored", "src/linters/srp/linter.py::SRPRule._should_process_file",
    "src/linters/magic_numbers/linter.py::MagicNumberRule._is_file_ignored", "src/core/linter_utils.py::is_ignored_path",
    # file-header's own file-level forms and the shared helpers the Rust linters' ignore test goes through
    "src/linters/file_header/linter.py::FileHeaderRule._has_file_ignore",
    "src/linters/file_header/linter.py::FileHeaderRule._should_ignore_file",
    "src/core/linter_utils.py::resolve_file_path", "src/core/linter_utils.py::should_process_file",
]
for _rel, _cls, _fld in config_classes_with_ignore(_REPO):
    DEPENDS.append((f"{_rel}::{_cls}.from_dict", f"hands the section's `{_fld}` list to the rule"))
for _t in PREDICATES:
    DEPENDS.append((_t, "decides whether a file matches a linter-level ignore pattern"))
# state hygiene C04 relies on (a suppression verdict must follow the CURRENT files / patterns "in every run"): the shared
# parser's constructor and accessor, and C08's scans for state kept outside the rule objects
for _m in ("contracts.c08_state", "contracts.c08_frames"):
    try:
        __import__(_m)
    except BaseException as _e:  # noqa
        _IMPORT_ERRORS[_m] = repr(_e)[:200]
for _t in ("src/linter_config/ignore.py::IgnoreDirectiveParser.__init__", "src/linter_config/ignore.py::get_ignore_parser",
           "src/linter_config/ignore.py::clear_ignore_parser_cache"):
    DEPENDS.append((_t, "life cycle of the shared parser and of its decision memo"))
# repository-level patterns are applied by Orchestrator.lint_file through the parser of ITS project root: in parallel mode
# every worker builds its own Orchestrator, so the parent's root must reach it (work item -> _lint_file_worker -> __init__)
for _m in ("contracts.c10_orchestrator", "contracts.c07_parallel"):
    try:
        __import__(_m)
    except BaseException as _e:  # noqa
        _IMPORT_ERRORS[_m] = repr(_e)[:200]
for _t in ("src/orchestrator/core.py::_lint_file_worker", "src/orchestrator/core.py::Orchestrator._execute_parallel_linting",
           "src/orchestrator/core.py::Orchestrator.__init__", "src/orchestrator/core.py::Orchestrator.lint_file"):
    DEPENDS.append((_t, "the orchestrator that applies the repository patterns is built for the linted project's root"))
for _t, _why in DEPENDS:
    _c = _api.REGISTRY.get(_t)
    if _c is not None and "C04" not in _c.props:
        _c.props.append("C04")
for _name in ("c08-module-state",):
    _cu = getattr(_api, "CUSTOM", {}).get(_name)
    if _cu is not None and "C04" not in _cu[0]:
        _cu[0].append("C04")


def _mentions_ignore(c, fld):
    for name, fn in c.methods.items():
        if name.startswith("ensures") or name == "value":
            for n in ast.walk(fn):
                if isinstance(n, ast.Attribute) and n.attr == fld and isinstance(n.value, ast.Name) and n.value.id == "result":
                    return True
                if isinstance(n, ast.Call) and isinstance(n.func, ast.Name):
                    # clause delegated to a spec function of the same module: look one level down
                    mod = _api.SPEC_MODULES.get(c.module)
                    f2 = getattr(mod, n.func.id, None) if mod else None
                    if f2 is not None and getattr(f2, "__code__", None) is not None and fld in f2.__code__.co_names:
                        return True
    return False


@custom("c04-linter-ignore-covered", props=["C04"])
def linter_ignore_covered(ctx):
    obs = []
    for rel, cls, fld in config_classes_with_ignore(ctx["repo"]):
        t = f"{rel}::{cls}.from_dict"
        name = f"custom:c04-linter-ignore-covered/{cls}"
        c = _api.REGISTRY.get(t)
        if c is None:
            v, note = "unknown", f"{t} is not under contract (import errors: {_IMPORT_ERRORS or 'none'})"
        elif c.assumed:
            v, note = "unknown", f"{t} is only an assumed contract"
        elif "C04" not in c.props:
            v, note = "unknown", f"{t} does not carry C04"
        else:
            # the clause may sit on from_dict itself, on a second view of it, or on the class's builder helpers it dispatches to
            holders = [k for k, c2 in _api.REGISTRY.items()
                       if (k == t or k.startswith(t + "~") or k.startswith(f"{rel}::{cls}._")) and not c2.assumed
                       and "C04" in c2.props and _mentions_ignore(c2, fld)]
            if holders:
                v, note = "discharged", f"clause on result.{fld} verified under C04 in: {', '.join(h.split('::')[1] for h in holders)}"
            else:
                v, note = "unknown", f"no verified C04 contract of {cls}.from_dict (or its builders) has a clause about result.{fld}"
        obs.append({"name": name, "kind": "custom", "verdict": v, "solver": "registry-scan", "ms": 0.0, "note": note})
    return obs


# ------------------------------------------------------------------ the rule consults the list: six identical copies
# glob matching (pathlib.PurePath.match) is modelled once, in contracts/c02_magic_numbers.py (uninterpreted TOTAL predicate;
# the ValueError pathlib raises for an EMPTY pattern is excluded by `requires`/`native_domain`); same spec for every copy
from contracts.c02_magic_numbers import pattern_matches, file_ignored, no_empty_pattern  # noqa: E402

CtxT = Rec("LintContext", file_path=Opt(PathT), file_content=Opt(Str), language=Str)
IgnoreCfgT = Rec("ConfigWithIgnore", ignore=SeqOf(Str))


def file_is_ignored(file_path, patterns):
    """Property text: some linter-level ignore pattern matches the file (no file / no patterns: nothing is ignored)."""
    return file_ignored(file_path, patterns)


MP = "src/linters/method_property/linter.py::MethodPropertyRule."
PS = "src/linters/print_statements/linter.py::PrintStatementRule."
CV = "src/linters/print_statements/conditional_verbose_rule.py::ConditionalVerboseRule."
CP = "src/linters/collection_pipeline/linter.py::CollectionPipelineRule."
SL = "src/linters/stateless_class/linter.py::StatelessClassRule."
MN = "src/linters/magic_numbers/linter.py::MagicNumberRule."
MATCH_TYPES = dict(file_path=PathT, pattern=Str)
IGN_TYPES = dict(context=CtxT, config=IgnoreCfgT, file_path=PathT)


@contract(MP + "_matches_pattern", props=["C04"], types=MATCH_TYPES, returns=Bool)
class MpMatchesPattern:
    def native_domain(pattern):
        # an EMPTY pattern makes pathlib raise ValueError("empty pattern"): not modelled (see Path.match in c02_magic_numbers.py)
        return len(pattern) > 0

    def value(file_path, pattern):
        return pattern_matches(file_path, pattern)


@contract(MP + "_is_file_ignored", props=["C04"], types=IGN_TYPES, returns=Bool)
class MpIsFileIgnored:
    def requires(config):
        return no_empty_pattern(config.ignore)

    def value(context, config):
        return file_is_ignored(context.file_path, config.ignore)


@contract(PS + "_matches_pattern", props=["C04"], types=MATCH_TYPES, returns=Bool)
class PsMatchesPattern:
    def native_domain(pattern):
        # an EMPTY pattern makes pathlib raise ValueError("empty pattern"): not modelled (see Path.match in c02_magic_numbers.py)
        return len(pattern) > 0

    def value(file_path, pattern):
        return pattern_matches(file_path, pattern)


@contract(PS + "_is_file_ignored", props=["C04"], types=IGN_TYPES, returns=Bool)
class PsIsFileIgnored:
    def requires(config):
        return no_empty_pattern(config.ignore)

    def value(context, config):
        return file_is_ignored(context.file_path, config.ignore)


@contract(CV + "_matches_pattern", props=["C04"], types=MATCH_TYPES, returns=Bool)
class CvMatchesPattern:
    def native_domain(pattern):
        # an EMPTY pattern makes pathlib raise ValueError("empty pattern"): not modelled (see Path.match in c02_magic_numbers.py)
        return len(pattern) > 0

    def value(file_path, pattern):
        return pattern_matches(file_path, pattern)


@contract(CV + "_is_file_ignored", props=["C04"], types=IGN_TYPES, returns=Bool)
class CvIsFileIgnored:
    def requires(config):
        return no_empty_pattern(config.ignore)

    def value(context, config):
        return file_is_ignored(context.file_path, config.ignore)


@contract(CP + "_matches_pattern", props=["C04"], types=MATCH_TYPES, returns=Bool)
class CpMatchesPattern:
    def native_domain(pattern):
        # an EMPTY pattern makes pathlib raise ValueError("empty pattern"): not modelled (see Path.match in c02_magic_numbers.py)
        return len(pattern) > 0

    def value(file_path, pattern):
        return pattern_matches(file_path, pattern)


@contract(CP + "_is_file_ignored", props=["C04"], types=IGN_TYPES, returns=Bool)
class CpIsFileIgnored:
    def requires(config):
        return no_empty_pattern(config.ignore)

    def value(context, config):
        return file_is_ignored(context.file_path, config.ignore)


@contract(SL + "_matches_pattern", props=["C04"], types=MATCH_TYPES, returns=Bool)
class SlMatchesPattern:
    def native_domain(pattern):
        # an EMPTY pattern makes pathlib raise ValueError("empty pattern"): not modelled (see Path.match in c02_magic_numbers.py)
        return len(pattern) > 0

    def value(file_path, pattern):
        return pattern_matches(file_path, pattern)


@contract(SL + "_is_file_ignored", props=["C04"], types=IGN_TYPES, returns=Bool)
class SlIsFileIgnored:
    def requires(config):
        return no_empty_pattern(config.ignore)

    def value(context, config):
        return file_is_ignored(context.file_path, config.ignore)


@lemma(props=["C04"], types=dict(ps=SeqOf(Str), fp=PathT, k=Int), name="a-matching-member-makes-any-true")
def member_any(ps, fp, k):
    """By induction on the pattern list: a matching k-th pattern makes the any() over the list true."""
    if len(ps) == 0 or k < 0 or k >= len(ps):
        return True
    if k > 0:
        ih(member_any, ps[1:], fp, k - 1)
    return implies(pattern_matches(fp, ps[k]), any(pattern_matches(fp, q) for q in ps))


@lemma(props=["C04"], types=dict(ctx=CtxT, cfg=IgnoreCfgT, k=Int), name="linter-ignore-pattern-in-path-ignores-the-file")
def substring_pattern_ignores(ctx, cfg, k):
    """A pattern of the rule's ignore list that occurs in the file's path suppresses the file (every copy)."""
    if ctx.file_path is None or not no_empty_pattern(cfg.ignore) or k < 0 or k >= len(cfg.ignore) \
            or cfg.ignore[k] not in path_str(ctx.file_path):
        return True
    use(member_any, cfg.ignore, ctx.file_path, k)
    return call(MP + "_is_file_ignored", None, ctx, cfg) and call(PS + "_is_file_ignored", None, ctx, cfg) \
        and call(CV + "_is_file_ignored", None, ctx, cfg) and call(CP + "_is_file_ignored", None, ctx, cfg) \
        and call(SL + "_is_file_ignored", None, ctx, cfg)


@lemma(props=["C04"], types=dict(ctx=CtxT, cfg=IgnoreCfgT), name="no-linter-ignore-pattern-ignores-nothing")
def empty_list_ignores_nothing(ctx, cfg):
    if len(cfg.ignore) != 0:
        return True
    return not call(MP + "_is_file_ignored", None, ctx, cfg) and not call(PS + "_is_file_ignored", None, ctx, cfg) \
        and not call(CV + "_is_file_ignored", None, ctx, cfg) and not call(CP + "_is_file_ignored", None, ctx, cfg) \
        and not call(SL + "_is_file_ignored", None, ctx, cfg)


# ------------------------------------------------------------------ MagicNumberConfig.from_dict: the `ignore` clause
# (the primary contract, property C02's, states the thresholds only: second view with the same domain)
from contracts.c02_magic_numbers import ConfigT as MnConfigT, wf_config as mn_wf, chosen_max_small as mn_max_small  # noqa: E402
from pyvc.api import Dict, Any, is_str_list, as_str_list  # noqa: E402


@contract("src/linters/magic_numbers/config.py::MagicNumberConfig.from_dict~linter-ignore", props=["C04"],
          types=dict(config=Dict, language=Opt(Str), ignore_patterns=Any), returns=MnConfigT, raises=["ValueError"])
class MnFromDictIgnoreView:
    def requires(config, language):
        return mn_wf(config, language) and implies("ignore" in config, is_str_list(config["ignore"]))

    def raises_when(config, language):
        return mn_max_small(config, language) <= 0

    def ensures_ignore_list_reaches_the_rule(config, language, result):
        # top-level `ignore:` of the section, whatever language block exists
        return result.ignore == (as_str_list(config["ignore"]) if "ignore" in config else [])
