"""C04 (part 2) -- recognition of directive comments (src/linter_config/directive_markers.py).

Helper contracts are the exact string predicates of the code. The property-level statement is the comment-style
lemma: for every directive d the `#` and the `//` spelling are recognised alike.

`str.lower` / `str.strip` are uninterpreted (idempotent). The lemmas need one more fact about them, stated as an
explicit hypothesis `keeps_prefix` (it holds for every real string: an ASCII lower-case prefix that starts with a
non-blank character survives strip() and lower() unchanged -- CPython lower-cases code point by code point except for
the final-sigma rule, which never touches ASCII); natively the hypothesis is evaluated and always true."""
from pyvc.api import contract, lemma, Bool, Str, implies, call

DM = "src/linter_config/directive_markers.py::"


# ------------------------------------------------------------------ contracts (code-level, exact)
@contract(DM + "has_ignore_directive_marker", props=["C04"], types=dict(line=Str), returns=Bool)
class HasIgnoreDirectiveMarker:
    def value(line):
        return ("# thailint: ignore-file" in line.lower() or "# design-lint: ignore-file" in line.lower()
                or "// thailint: ignore-file" in line.lower() or "// design-lint: ignore-file" in line.lower())


@contract(DM + "has_line_ignore_marker", props=["C04"], types=dict(code=Str), returns=Bool)
class HasLineIgnoreMarker:
    def value(code):
        return ("# thailint: ignore" in code.lower() or "# design-lint: ignore" in code.lower()
                or "// thailint: ignore" in code.lower() or "// design-lint: ignore" in code.lower())


@contract(DM + "has_ignore_next_line_marker", props=["C04"], types=dict(line=Str), returns=Bool)
class HasIgnoreNextLineMarker:
    def value(line):
        return ("# thailint: ignore-next-line" in line or "# design-lint: ignore-next-line" in line
                or "// thailint: ignore-next-line" in line or "// design-lint: ignore-next-line" in line)


def block_marker(line, word):
    """A comment line (`#` or `//` first) that mentions `word` and the tool prefix."""
    return ((line.strip().lower().startswith("#") or line.strip().lower().startswith("//"))
            and word in line.strip().lower()
            and ("thailint:" in line.strip().lower() or "design-lint:" in line.strip().lower()))


@contract(DM + "has_ignore_start_marker", props=["C04"], types=dict(line=Str), returns=Bool)
class HasIgnoreStartMarker:
    def value(line):
        return block_marker(line, "ignore-start")


@contract(DM + "has_ignore_end_marker", props=["C04"], types=dict(line=Str), returns=Bool)
class HasIgnoreEndMarker:
    def value(line):
        return block_marker(line, "ignore-end")


@contract(DM + "check_general_ignore", props=["C04"], types=dict(line=Str), returns=Bool)
class CheckGeneralIgnore:
    def value(line):
        return "ignore-file[" not in line


# ------------------------------------------------------------------ comment-style lemmas (property text)
def keeps_prefix(c, r):
    """Trusted fact about str.lower for the ASCII lower-case constant c."""
    return (c + r).lower().startswith(c)


def strip_keeps_prefix(c, r):
    """Trusted fact about str.strip + str.lower for the ASCII lower-case constant c (first character not blank)."""
    return (c + r).strip().lower().startswith(c)


@lemma(props=["C04"], types=dict(r=Str), name="comment-style/ignore")
def style_ignore(r):
    if not (keeps_prefix("# thailint: ignore", r) and keeps_prefix("// thailint: ignore", r)):
        return True
    return call(DM + "has_line_ignore_marker", "# thailint: ignore" + r) and call(DM + "has_line_ignore_marker", "// thailint: ignore" + r)


@lemma(props=["C04"], types=dict(r=Str), name="comment-style/ignore-next-line")
def style_ignore_next_line(r):
    """Both comment styles are recognised (repaired: fix for C04-next-line-hash-only)."""
    return call(DM + "has_ignore_next_line_marker", "# thailint: ignore-next-line" + r) \
        and call(DM + "has_ignore_next_line_marker", "// thailint: ignore-next-line" + r)


@lemma(props=["C04"], types=dict(r=Str), name="comment-style/ignore-file")
def style_ignore_file(r):
    """Both comment styles are recognised (repaired: fix for C04-ignore-file-hash-only)."""
    if not (keeps_prefix("# thailint: ignore-file", r) and keeps_prefix("// thailint: ignore-file", r)):
        return True
    return call(DM + "has_ignore_directive_marker", "# thailint: ignore-file" + r) \
        and call(DM + "has_ignore_directive_marker", "// thailint: ignore-file" + r)


@lemma(props=["C04"], types=dict(r=Str), name="comment-style/ignore-start")
def style_ignore_start(r):
    if not (strip_keeps_prefix("# thailint: ignore-start", r) and strip_keeps_prefix("// thailint: ignore-start", r)):
        return True
    return call(DM + "has_ignore_start_marker", "# thailint: ignore-start" + r) \
        and call(DM + "has_ignore_start_marker", "// thailint: ignore-start" + r)


@lemma(props=["C04"], types=dict(r=Str), name="comment-style/ignore-end")
def style_ignore_end(r):
    if not (strip_keeps_prefix("# thailint: ignore-end", r) and strip_keeps_prefix("// thailint: ignore-end", r)):
        return True
    return call(DM + "has_ignore_end_marker", "# thailint: ignore-end" + r) \
        and call(DM + "has_ignore_end_marker", "// thailint: ignore-end" + r)


@lemma(props=["C04"], types=dict(line=Str), name="block-markers-only-on-comment-lines")
def marker_needs_comment(line):
    """A line that is not a comment (does not start with `#` or `//` after stripping) never opens or closes a block."""
    if line.strip().lower().startswith("#") or line.strip().lower().startswith("//"):
        return True
    return not call(DM + "has_ignore_start_marker", line) and not call(DM + "has_ignore_end_marker", line)
