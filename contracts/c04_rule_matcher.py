"""C04 (part 1) -- rule-name matching of suppression directives (src/linter_config/rule_matcher.py, src/core/rule_aliases.py).

Top-level spec (property text): a directive names a rule by its full id, its linter prefix, a `prefix.*` wildcard or a
deprecated alias, in any letter case; a bare `*` means all rules. `str.lower` is an uninterpreted function (idempotent);
the alias table is re-read from the real source on every run and enumerated."""
import ast as _ast
import os as _os

from pyvc.api import contract, lemma, Bool, Str, SeqOf, implies, call, opaque, reveal
from contracts._common import re_split

RM = "src/linter_config/rule_matcher.py::"


def _read_alias_table():
    """RULE_ID_ALIASES of the tree under verification (literal dict, parsed -- never imported)."""
    root = _os.environ.get("VERIF_REPO", "/repo")
    tree = _ast.parse(open(_os.path.join(root, "src/core/rule_aliases.py"), encoding="utf-8").read())
    for st in tree.body:
        tgt = st.target if isinstance(st, _ast.AnnAssign) else (st.targets[0] if isinstance(st, _ast.Assign) else None)
        if isinstance(tgt, _ast.Name) and tgt.id == "RULE_ID_ALIASES":
            return dict(_ast.literal_eval(st.value))
    raise RuntimeError("RULE_ID_ALIASES not found in src/core/rule_aliases.py")


ALIASES = tuple(sorted(_read_alias_table().items()))  # ((deprecated_id, canonical_id), ...)


# ------------------------------------------------------------------ specification (property text)
def category(rule_id):
    """Linter prefix of a rule id: the part before the first dot."""
    return rule_id.split(".", 1)[0]


def direct_match(r, p):
    """r, p lower-cased: full id, linter prefix (`p` followed by a dot), or trailing-`*` wildcard."""
    return r.startswith(p[:-1]) if p.endswith("*") else (r == p or r.startswith(p + "."))


def names_deprecated(p, dep):
    """p lower-cased names the deprecated id `dep`: the id itself, its linter prefix, or `prefix.*`."""
    return p == dep.lower() or p == category(dep).lower() or p == category(dep).lower() + ".*"


def alias_match(r, p):
    """Some deprecated id whose canonical replacement is r is named by p (r, p lower-cased)."""
    return any(canon.lower() == r and names_deprecated(p, dep) for dep, canon in ALIASES)


@opaque
def spec_matches(rule_id: Str, pattern: Str) -> Bool:
    """Property text: does the spelling `pattern` name the rule `rule_id`? (opaque: revealed where needed)"""
    return direct_match(rule_id.lower(), pattern.lower()) or alias_match(rule_id.lower(), pattern.lower())


def bracket_rules_match(text, rule_id):
    """`[a, b.c, d.*]` syntax: comma-separated spellings, surrounding blanks ignored; some spelling names the rule."""
    return any(spec_matches(rule_id, r) for r in [r.strip() for r in text.split(",")])


def space_rules_match(text, rule_id):
    """`ignore-file a b,c` syntax: spellings separated by blanks and/or commas."""
    return any(spec_matches(rule_id, r) for r in [r.strip() for r in re_split(r"[,\s]+", text) if r.strip()])


@opaque
def rmv(rules: SeqOf(Str), rule_id: Str) -> Bool:
    """A rule set (modelled as the sequence of its elements) covers the rule: bare `*`, or some spelling names it."""
    return "*" in rules or any(spec_matches(rule_id, p) for p in rules)


# ------------------------------------------------------------------ contracts
@contract(RM + "_matches_pattern_directly", props=["C04"], types=dict(rule_id=Str, pattern=Str), returns=Bool)
class MatchesPatternDirectly:
    def value(rule_id, pattern):
        return direct_match(rule_id.lower(), pattern.lower())

    def ensures_full_id(rule_id, pattern, result):
        return implies(rule_id.lower() == pattern.lower(), result)

    def ensures_linter_prefix(rule_id, pattern, result):
        return implies(rule_id.lower().startswith(pattern.lower() + "."), result)

    def ensures_wildcard(rule_id, pattern, result):
        # `prefix.*` names every rule of the linter `prefix`, and only rules whose id starts with `prefix.`
        return implies(pattern.lower().endswith(".*"), result == rule_id.lower().startswith(pattern.lower()[:-1]))


@contract(RM + "_pattern_matches_deprecated_id", props=["C04"], types=dict(pattern_lower=Str, deprecated_id=Str), returns=Bool)
class PatternMatchesDeprecatedId:
    def value(pattern_lower, deprecated_id):
        return names_deprecated(pattern_lower, deprecated_id)


@contract(RM + "_matches_via_alias", props=["C04"], types=dict(rule_id=Str, pattern=Str), returns=Bool)
class MatchesViaAlias:
    def value(rule_id, pattern):
        return alias_match(rule_id.lower(), pattern.lower())


@contract(RM + "rule_matches", props=["C04"], types=dict(rule_id=Str, pattern=Str), returns=Bool)
class RuleMatches:
    def reveals(rule_id, pattern):
        return reveal(spec_matches, rule_id, pattern)

    def value(rule_id, pattern):
        return spec_matches(rule_id, pattern)


@contract(RM + "check_bracket_rules", props=["C04"], types=dict(rules_text=Str, rule_id=Str, ignored_rules=SeqOf(Str)),
          returns=Bool)
class CheckBracketRules:
    def value(rules_text, rule_id):
        return bracket_rules_match(rules_text, rule_id)


@contract(RM + "check_space_separated_rules", props=["C04"], types=dict(rules_text=Str, rule_id=Str, ignored_rules=SeqOf(Str)),
          returns=Bool)
class CheckSpaceSeparatedRules:
    def value(rules_text, rule_id):
        return space_rules_match(rules_text, rule_id)


@contract(RM + "rules_match_violation", props=["C04"], types=dict(ignored_rules=SeqOf(Str), rule_id=Str), returns=Bool)
class RulesMatchViolation:
    """`ignored_rules` is a set[str]; it is modelled as the sequence of its elements (membership and any() do not
    depend on order or multiplicity)."""

    def reveals(ignored_rules, rule_id):
        return reveal(rmv, ignored_rules, rule_id)

    def value(ignored_rules, rule_id):
        return rmv(ignored_rules, rule_id)


# ------------------------------------------------------------------ lemmas
@lemma(props=["C04"], types=dict(r=Str, p=Str, q=Str), name="rule-name-case-insensitive")
def case_lemma(r, p, q):
    """Two spellings that differ only in letter case name the same rules; so do two rule ids."""
    if p.lower() != q.lower():
        return True
    reveal(spec_matches, r, p)
    reveal(spec_matches, r, q)
    reveal(spec_matches, p, r)
    reveal(spec_matches, q, r)
    return call(RM + "rule_matches", r, p) == call(RM + "rule_matches", r, q) \
        and call(RM + "rule_matches", p, r) == call(RM + "rule_matches", q, r)


@lemma(props=["C04"], types=dict(r=Str, p=Str), name="every-deprecated-alias-names-its-rule")
def alias_lemma(r, p):
    """For every entry (deprecated -> canonical) of RULE_ID_ALIASES: the deprecated id, its linter prefix and
    `prefix.*`, in any letter case, name the canonical rule (in any letter case)."""
    reveal(spec_matches, r, p)
    return all(implies(r.lower() == canon.lower() and (p.lower() == dep.lower() or p.lower() == category(dep).lower()
                                                        or p.lower() == category(dep).lower() + ".*"),
                       call(RM + "rule_matches", r, p))
               for dep, canon in ALIASES)


@lemma(props=["C04"], types=dict(r=Str, p=Str), name="canonical-spellings-name-the-rule")
def canonical_lemma(r, p):
    """Full id, linter prefix and `prefix.*` (any case) name the rule; the bare wildcard `*` names every rule."""
    reveal(spec_matches, r, p)
    m = call(RM + "rule_matches", r, p)
    return implies(p.lower() == r.lower(), m) \
        and implies(r.lower().startswith(p.lower() + "."), m) \
        and implies(p.lower().endswith(".*") and r.lower().startswith(p.lower()[:-1]), m) \
        and implies(p.lower() == "*", m)


@lemma(props=["C04"], types=dict(r=Str, p=Str), name="a-different-rule-is-not-named")
def other_rule_lemma(r, p):
    """A spelling without wildcard that is neither the id, nor a dot-terminated prefix of it, nor an alias spelling of
    it, does not name the rule (a directive naming a different rule changes nothing)."""
    reveal(spec_matches, r, p)
    m = call(RM + "rule_matches", r, p)
    return implies(not p.lower().endswith("*") and p.lower() != r.lower() and not r.lower().startswith(p.lower() + ".")
                   and not alias_match(r.lower(), p.lower()), not m)


@lemma(props=["C04"], types=dict(rules=SeqOf(Str), r=Str), name="bare-star-means-all-rules")
def star_lemma(rules, r):
    reveal(rmv, rules, r)
    return implies("*" in rules, call(RM + "rules_match_violation", rules, r))
