"""C04 (part 8) -- the linters' PRIVATE suppression helpers (every `_should_ignore*`, `_check_generic_ignore`,
`_has_*ignore*`, `_is_ignore_directive` ... under src/linters/*): they decide, per violation, whether a directive
silences it, so they are C04's subject even where other properties hold (assumed) contracts on them for their own
purposes -- those get a verified VIEW (`target~c04`) here.

Shape of every wrapper (property text): suppressed <=> the shared five-level filter suppresses (c04_ignore.suppressed)
OR a linter-specific SAME-LINE form does. The same-line forms are exact mirrors of the code (str.split / regex are
uninterpreted); the property-level statement about them -- "a directive naming a different rule, or one whose scope is
another line, changes nothing" -- is checked over a generated family of directive lines by the bounded native check
`c04-inline-helpers` (contracts/c04_differential.py), one obligation per helper."""
from pyvc.api import contract, lemma, Int, Bool, Str, SeqOf, Opt, Rec, Dict, implies, call
from contracts._common import ViolationT, PathT, re_search, re_group
from contracts.c04_ignore import ParserT, suppressed
from contracts.c04_rule_matcher import spec_matches
from contracts.c04_checkers import CtxT, TSCheckerT, violation_line_text, content_or_empty, ts_line_ignores, TS

MN = "src/linters/magic_numbers/linter.py::MagicNumberRule."
PS = "src/linters/print_statements/linter.py::PrintStatementRule."
CV = "src/linters/print_statements/conditional_verbose_rule.py::ConditionalVerboseRule."
CP = "src/linters/collection_pipeline/linter.py::CollectionPipelineRule."
SL = "src/linters/stateless_class/linter.py::StatelessClassRule."
MP = "src/linters/method_property/linter.py::MethodPropertyRule."
NE = "src/linters/nesting/linter.py::NestingDepthRule."
SR = "src/linters/srp/linter.py::SRPRule."
PF = "src/linters/performance/linter.py::"
PR = "src/linters/performance/regex_linter.py::"

WithParserT = Rec("RuleWithIgnoreParser", _ignore_parser=ParserT)  # every rule that holds the shared parser
MnRuleT = Rec("MagicNumberRule", cls=MN[:-1], _ignore_parser=ParserT, _typescript_ignore_checker=TSCheckerT)
PsRuleT = Rec("PrintStatementRule", cls=PS[:-1], _ignore_parser=ParserT)
CvRuleT = Rec("ConditionalVerboseRule", cls=CV[:-1], _ignore_parser=ParserT)
CpRuleT = Rec("CollectionPipelineRule", cls=CP[:-1], _ignore_parser=ParserT)
SlRuleT = Rec("StatelessClassRule", cls=SL[:-1], _ignore_parser=ParserT)
NeRuleT = Rec("NestingDepthRule", cls=NE[:-1], _ignore_parser=ParserT)
SrRuleT = Rec("SRPRule", cls=SR[:-1], _ignore_parser=ParserT)
ClassInfoT = Rec("ClassInfo", line=Int)
W_TYPES = dict(violation=ViolationT, context=CtxT)
W_MOD = ["self._ignore_parser._ignore_cache"]


# ------------------------------------------------------------------ specification
def shared(self, violation, content, old):
    """Verdict of the shared filter for this violation on this content (parser state before the call)."""
    return suppressed(old.self._ignore_parser._ignore_cache, self._ignore_parser.project_root,
                      self._ignore_parser.repo_patterns, violation.file_path, violation.rule_id, violation.line, content)


def bare_hash_ignore(line_text):
    """`# thailint: ignore` with no `[` between it and the next `#` (bare = every rule). Code-derived."""
    return "# thailint: ignore" in line_text and "[" not in line_text.split("# thailint: ignore")[1].split("#")[0]


def generic_hash_directive(line_text):
    return bare_hash_ignore(line_text) or "# noqa" in line_text


def generic_line_ignores(vline, content):
    return violation_line_text(vline, content) is not None and generic_hash_directive(violation_line_text(vline, content))


def ps_ts_directive(line_text):
    return ("// thailint: ignore[print-statements]" in line_text
            or ("// thailint: ignore" in line_text and "[" not in line_text.split("// thailint: ignore")[1].split("//")[0])
            or "// noqa" in line_text)


def ps_ts_line_ignores(vline, content):
    return violation_line_text(vline, content) is not None and ps_ts_directive(violation_line_text(vline, content))


def line_text_raw(line_num, content):
    """Text of line line_num (1-based), None when there is no content / no such line."""
    return content.splitlines()[line_num - 1] if (content and 1 <= line_num <= len(content.splitlines())) else None


def rule_list_names(rule_id, line, directive):
    """`<directive>[a, b]` on the (lower-cased) line names rule_id (regex capture uninterpreted)."""
    return re_search(rf"{directive}\[([^\]]+)\]", line) and any(
        spec_matches(rule_id, r) for r in [r.strip().lower() for r in re_group(rf"{directive}\[([^\]]+)\]", line, 1).split(",")])


def own_inline_directive(rule_id, line):
    """collection-pipeline / stateless-class same-line form on the lower-cased line. Code-derived."""
    return "thailint:" in line and "ignore" in line and ("ignore[" not in line or rule_list_names(rule_id, line, "ignore"))


def own_file_directive(rule_id, line):
    return "thailint: ignore-file" in line.lower() and ("ignore-file[" not in line.lower()
                                                       or rule_list_names(rule_id, line.lower(), "ignore-file"))


def own_inline_ignores(rule_id, line_num, content):
    return line_text_raw(line_num, content) is not None and len(line_text_raw(line_num, content)) > 0 \
        and own_inline_directive(rule_id, line_text_raw(line_num, content).lower())


# ------------------------------------------------------------------ thin wrappers: exactly the shared filter
@contract(NE + "_should_ignore~c04", props=["C04"], types=dict(W_TYPES, self=NeRuleT), returns=Bool, modifies=W_MOD)
class NestingShouldIgnore:
    def value(self, violation, context, old):
        return shared(self, violation, content_or_empty(context.file_content), old)


@contract(SR + "_should_ignore~c04", props=["C04"], types=dict(W_TYPES, self=SrRuleT), returns=Bool, modifies=W_MOD)
class SrpShouldIgnore:
    def value(self, violation, context, old):
        return context.file_content is not None and shared(self, violation, context.file_content, old)


@contract(PF + "StringConcatLoopRule._should_ignore", props=["C04"], types=dict(W_TYPES, self=WithParserT), returns=Bool, modifies=W_MOD)
class PerfShouldIgnore:
    def value(self, violation, context, old):
        return shared(self, violation, content_or_empty(context.file_content), old)


@contract(PR + "RegexInLoopRule._should_ignore", props=["C04"], types=dict(W_TYPES, self=WithParserT), returns=Bool, modifies=W_MOD)
class RegexShouldIgnore:
    def value(self, violation, context, old):
        return shared(self, violation, content_or_empty(context.file_content), old)


# ------------------------------------------------------------------ magic-numbers
@contract(MN + "_has_generic_thailint_ignore", props=["C04", "C02"], types=dict(self=MnRuleT, line_text=Str, after_ignore=Str), returns=Bool)
class MnHasGenericThailintIgnore:
    def value(line_text):
        return bare_hash_ignore(line_text)

    def ensures_needs_the_marker(line_text, result):
        return implies("# thailint: ignore" not in line_text, not result)


@contract(MN + "_has_generic_ignore_directive", props=["C04", "C02"], types=dict(self=MnRuleT, line_text=Str), returns=Bool)
class MnHasGenericIgnoreDirective:
    def value(line_text):
        return generic_hash_directive(line_text)


@contract(MN + "_check_generic_ignore", props=["C04", "C02"], types=dict(W_TYPES, self=MnRuleT), returns=Bool)
class MnCheckGenericIgnore:
    def value(violation, context):
        return generic_line_ignores(violation.line, context.file_content)


@contract(MN + "_should_ignore~c04", props=["C04"], types=dict(W_TYPES, self=MnRuleT), returns=Bool, modifies=W_MOD)
class MnShouldIgnore:
    def value(self, violation, context, old):
        return shared(self, violation, content_or_empty(context.file_content), old) \
            or generic_line_ignores(violation.line, context.file_content)


@contract(MN + "_should_ignore_typescript~c04", props=["C04"], types=dict(W_TYPES, self=MnRuleT), returns=Bool,
          modifies=["self._typescript_ignore_checker._ignore_parser._ignore_cache"])
class MnShouldIgnoreTypescript:
    def value(self, violation, context, old):
        c = self._typescript_ignore_checker._ignore_parser
        return suppressed(old.self._typescript_ignore_checker._ignore_parser._ignore_cache, c.project_root, c.repo_patterns,
                          violation.file_path, violation.rule_id, violation.line, content_or_empty(context.file_content)) \
            or ts_line_ignores(violation.line, context.file_content)


# ------------------------------------------------------------------ print-statements (improper-logging)
@contract(PS + "_has_generic_thailint_ignore", props=["C04"], types=dict(self=PsRuleT, line_text=Str, after_ignore=Str), returns=Bool)
class PsHasGenericThailintIgnore:
    def value(line_text):
        return bare_hash_ignore(line_text)


@contract(PS + "_has_generic_ignore_directive", props=["C04"], types=dict(self=PsRuleT, line_text=Str), returns=Bool)
class PsHasGenericIgnoreDirective:
    def value(line_text):
        return generic_hash_directive(line_text)


@contract(PS + "_check_generic_ignore", props=["C04"], types=dict(W_TYPES, self=PsRuleT), returns=Bool)
class PsCheckGenericIgnore:
    def value(violation, context):
        return generic_line_ignores(violation.line, context.file_content)


@contract(PS + "_should_ignore~c04", props=["C04"], types=dict(W_TYPES, self=PsRuleT), returns=Bool, modifies=W_MOD)
class PsShouldIgnore:
    def value(self, violation, context, old):
        return shared(self, violation, content_or_empty(context.file_content), old) \
            or generic_line_ignores(violation.line, context.file_content)


@contract(PS + "_has_typescript_ignore_directive", props=["C04"], types=dict(self=PsRuleT, line_text=Str, after_ignore=Str), returns=Bool)
class PsHasTypescriptIgnoreDirective:
    def value(line_text):
        return ps_ts_directive(line_text)


@contract(PS + "_check_typescript_ignore", props=["C04"], types=dict(W_TYPES, self=PsRuleT), returns=Bool)
class PsCheckTypescriptIgnore:
    def value(violation, context):
        return ps_ts_line_ignores(violation.line, context.file_content)


@contract(PS + "_should_ignore_typescript~c04", props=["C04"], types=dict(W_TYPES, self=PsRuleT), returns=Bool, modifies=W_MOD)
class PsShouldIgnoreTypescript:
    def value(self, violation, context, old):
        return shared(self, violation, content_or_empty(context.file_content), old) \
            or ps_ts_line_ignores(violation.line, context.file_content)


@contract(CV + "_has_generic_thailint_ignore", props=["C04"], types=dict(self=CvRuleT, line_text=Str, after_ignore=Str), returns=Bool)
class CvHasGenericThailintIgnore:
    def value(line_text):
        return bare_hash_ignore(line_text)


@contract(CV + "_has_generic_ignore_directive", props=["C04"], types=dict(self=CvRuleT, line_text=Str), returns=Bool)
class CvHasGenericIgnoreDirective:
    def value(line_text):
        return generic_hash_directive(line_text)


@contract(CV + "_check_generic_ignore", props=["C04"], types=dict(W_TYPES, self=CvRuleT), returns=Bool)
class CvCheckGenericIgnore:
    def value(violation, context):
        return generic_line_ignores(violation.line, context.file_content)


@contract(CV + "_should_ignore", props=["C04"], types=dict(W_TYPES, self=CvRuleT), returns=Bool, modifies=W_MOD)
class CvShouldIgnore:
    def value(self, violation, context, old):
        return shared(self, violation, content_or_empty(context.file_content), old) \
            or generic_line_ignores(violation.line, context.file_content)


# ------------------------------------------------------------------ collection-pipeline / stateless-class (same code twice)
CP_ID = "collection-pipeline.embedded-filter"
SL_ID = "stateless-class.violation"


def listed_rule_names(rule_id, line, directive):
    """`<directive>[a, b]` on the line names rule_id: regex capture uninterpreted; entries stripped and lower-cased."""
    return re_search(rf"{directive}\[([^\]]+)\]", line) and any(
        spec_matches(rule_id, r) for r in [r.strip().lower() for r in re_group(rf"{directive}\[([^\]]+)\]", line, 1).split(",")])


@contract(CP + "_rule_matches", props=["C04"], types=dict(self=CpRuleT, rule_pattern=Str), returns=Bool)
class CpRuleMatches:
    def value(rule_pattern):
        return spec_matches(CP_ID, rule_pattern)


@contract(SL + "_rule_matches", props=["C04"], types=dict(self=SlRuleT, rule_pattern=Str), returns=Bool)
class SlRuleMatches:
    def value(rule_pattern):
        return spec_matches(SL_ID, rule_pattern)


@contract(CP + "_matches_rule_ignore", props=["C04"], types=dict(self=CpRuleT, line=Str, directive=Str, pattern=Str, rules=SeqOf(Str)),
          returns=Bool)
class CpMatchesRuleIgnore:
    def native_domain(directive):
        # callers pass the directive NAME ("ignore-file" / IgnoreDirective.IGNORE): no regex metacharacters
        return all(ch.isalnum() or ch in "-." for ch in f"{directive}")

    def value(line, directive):
        return listed_rule_names(CP_ID, line, directive)


@contract(SL + "_matches_rule_ignore", props=["C04"], types=dict(self=SlRuleT, line=Str, directive=Str, pattern=Str, rules=SeqOf(Str)),
          returns=Bool)
class SlMatchesRuleIgnore:
    def native_domain(directive):
        # callers pass the directive NAME ("ignore-file" / IgnoreDirective.IGNORE): no regex metacharacters
        return all(ch.isalnum() or ch in "-." for ch in f"{directive}")

    def value(line, directive):
        return listed_rule_names(SL_ID, line, directive)


@contract(CP + "_get_line_text", props=["C04"], types=dict(self=CpRuleT, line_num=Int, context=CtxT, lines=SeqOf(Str)), returns=Opt(Str))
class CpGetLineText:
    def value(line_num, context):
        return line_text_raw(line_num, context.file_content)


@contract(SL + "_get_line_text", props=["C04"], types=dict(self=SlRuleT, line_num=Int, context=CtxT, lines=SeqOf(Str)), returns=Opt(Str))
class SlGetLineText:
    def value(line_num, context):
        return line_text_raw(line_num, context.file_content)


# the enum member IgnoreDirective.IGNORE is a (str, Enum): inside an f-string CPython >= 3.12 renders it as
# 'IgnoreDirective.IGNORE' (Enum.__format__ uses __str__), so the code's rule-specific regex is
# r"IgnoreDirective.IGNORE\[...\]" and never matches a real comment -- the spec mirrors that rendering; the property-
# level consequence (none: `ignore[<own rule>]` is caught by the shared filter first) is checked by c04-inline-helpers
ENUM_IGNORE_RENDERED = "IgnoreDirective.IGNORE"


def cp_like_inline(rule_id, line):
    return "thailint:" in line and "ignore" in line and ("ignore[" not in line or listed_rule_names(rule_id, line, ENUM_IGNORE_RENDERED))


def cp_like_file_line(rule_id, line):
    return "thailint: ignore-file" in line.lower() and ("ignore-file[" not in line.lower()
                                                       or listed_rule_names(rule_id, line.lower(), "ignore-file"))


def cp_like_inline_at(rule_id, line_num, content):
    return line_text_raw(line_num, content) is not None and len(line_text_raw(line_num, content)) > 0 \
        and cp_like_inline(rule_id, line_text_raw(line_num, content).lower())


def cp_like_header(rule_id, content):
    return len(content_or_empty(content)) > 0 and any(cp_like_file_line(rule_id, line) for line in content_or_empty(content).splitlines()[:10])


@contract(CP + "_is_ignore_directive", props=["C04"], types=dict(self=CpRuleT, line=Str), returns=Bool)
class CpIsIgnoreDirective:
    def value(line):
        return cp_like_inline(CP_ID, line)


@contract(SL + "_is_ignore_directive", props=["C04"], types=dict(self=SlRuleT, line=Str), returns=Bool)
class SlIsIgnoreDirective:
    def value(line):
        return cp_like_inline(SL_ID, line)


@contract(CP + "_is_file_ignore_directive", props=["C04"], types=dict(self=CpRuleT, line=Str, line_lower=Str), returns=Bool)
class CpIsFileIgnoreDirective:
    def value(line):
        return cp_like_file_line(CP_ID, line)


@contract(SL + "_is_file_ignore_directive", props=["C04"], types=dict(self=SlRuleT, line=Str, line_lower=Str), returns=Bool)
class SlIsFileIgnoreDirective:
    def value(line):
        return cp_like_file_line(SL_ID, line)


@contract(CP + "_has_inline_ignore", props=["C04"], types=dict(self=CpRuleT, line_num=Int, context=CtxT, line=Opt(Str)), returns=Bool)
class CpHasInlineIgnore:
    def value(line_num, context):
        return cp_like_inline_at(CP_ID, line_num, context.file_content)


@contract(SL + "_has_inline_ignore", props=["C04"], types=dict(self=SlRuleT, line_num=Int, context=CtxT, line=Opt(Str)), returns=Bool)
class SlHasInlineIgnore:
    def value(line_num, context):
        return cp_like_inline_at(SL_ID, line_num, context.file_content)


@contract(CP + "_has_file_level_ignore", props=["C04"], types=dict(self=CpRuleT, context=CtxT, lines=SeqOf(Str)), returns=Bool)
class CpHasFileLevelIgnore:
    def value(context):
        # property text: "in the first ten lines"
        return cp_like_header(CP_ID, context.file_content)


@contract(SL + "_has_file_level_ignore", props=["C04"], types=dict(self=SlRuleT, context=CtxT, lines=SeqOf(Str)), returns=Bool)
class SlHasFileLevelIgnore:
    def value(context):
        return cp_like_header(SL_ID, context.file_content)


@contract(CP + "_should_ignore_violation", props=["C04"], types=dict(self=CpRuleT, violation=ViolationT, line_num=Int, context=CtxT),
          returns=Bool, modifies=W_MOD)
class CpShouldIgnoreViolation:
    def value(self, violation, line_num, context, old):
        return len(content_or_empty(context.file_content)) > 0 and (
            shared(self, violation, content_or_empty(context.file_content), old)
            or cp_like_inline_at(CP_ID, line_num, context.file_content))


@contract(SL + "_should_ignore_violation", props=["C04"], types=dict(self=SlRuleT, violation=ViolationT, info=ClassInfoT, context=CtxT),
          returns=Bool, modifies=W_MOD)
class SlShouldIgnoreViolation:
    def value(self, violation, info, context, old):
        return len(content_or_empty(context.file_content)) > 0 and (
            shared(self, violation, content_or_empty(context.file_content), old)
            or cp_like_inline_at(SL_ID, info.line, context.file_content))


# ------------------------------------------------------------------ method-property (own same-line test only: known finding
# C04-no-filter-method-property; the helpers are put under contract so that any OTHER deviation is reported)
MpRuleT = Rec("MethodPropertyRule", cls=MP[:-1])
CandidateT = Rec("PropertyCandidate", line=Int, method_name=Str, class_name=Str)


def mp_inline(line_lower):
    return ("thailint:" in line_lower and "ignore" in line_lower) or "# noqa" in line_lower


@contract(MP + "_get_line_text", props=["C04"], types=dict(self=MpRuleT, line=Int, context=CtxT, lines=SeqOf(Str)), returns=Opt(Str))
class MpGetLineText:
    def value(line, context):
        return line_text_raw(line, context.file_content)


@contract(MP + "_has_inline_ignore", props=["C04"], types=dict(self=MpRuleT, violation=ViolationT, context=CtxT, line_text=Opt(Str),
                                                              line_lower=Str), returns=Bool)
class MpHasInlineIgnore:
    def value(violation, context):
        return line_text_raw(violation.line, context.file_content) is not None \
            and mp_inline(line_text_raw(violation.line, context.file_content).lower())


from pyvc.api import uf  # noqa: E402
mp_docstring_ignore = uf("mp_docstring_ignore", [Opt(Str), Int, Str], Bool)


@contract(MP + "_has_docstring_ignore", props=["C04"], types=dict(self=MpRuleT, candidate=CandidateT, context=CtxT), returns=Bool,
          assumed="parses the file (ast.parse) and searches the method's docstring for 'thailint: ignore': an uninterpreted "
                  "predicate of (content, method line, method name); a method-property-only form, not one of the property's "
                  "directive forms", no_selftest=True)
class MpHasDocstringIgnore:
    def value(candidate, context):
        return mp_docstring_ignore(context.file_content, candidate.line, candidate.method_name)


@contract(MP + "_should_ignore", props=["C04"], types=dict(self=MpRuleT, violation=ViolationT, candidate=CandidateT, context=CtxT),
          returns=Bool)
class MpShouldIgnore:
    def value(violation, candidate, context):
        # (no call of the shared filter: known finding C04-no-filter-method-property)
        return (line_text_raw(violation.line, context.file_content) is not None
                and mp_inline(line_text_raw(violation.line, context.file_content).lower())) \
            or mp_docstring_ignore(context.file_content, candidate.line, candidate.method_name)
