"""C05 -- command-line threshold options win over every file value, including per-language overrides
(src/cli/linters/shared.py, structure_quality.py, code_smells.py).

Property text: "precedence: threshold options on the command line such as --max-depth or --max-methods, then
.thailint.yaml ..." -- the option must decide the threshold the linter USES for every language it analyses, i.e. the
value NestingConfig/SRPConfig.from_dict picks for that language (`pick`, contracts/c05_config.py) after the override.

Aliasing: `ensure_config_section` returns the dict object stored in orchestrator.config[section]; the callers mutate it
in place. The engine follows that (references into dicts); the three _apply_* functions are proved with their helpers
inlined so that the final state of orchestrator.config is what the clauses talk about."""
from pyvc.api import contract, lemma, Any, Int, Bool, Str, Dict, Rec, Opt, implies, call, dict_put
from contracts.c05_config import pick, has_lang

SH = "src/cli/linters/shared.py::"
SQ = "src/cli/linters/structure_quality.py::"
CS = "src/cli/linters/code_smells.py::"
OrchT = Rec("Orchestrator", cls="src/orchestrator/core.py::Orchestrator", config=Dict)
LANGS = ("python", "typescript", "javascript", "rust")       # languages the nesting / srp linters analyse


# =================================================================== shared helpers
@contract(SH + "ensure_config_section", props=["C05", "C06"], types=dict(orchestrator=OrchT, section=Str, config_section=Any),
          returns=Any, modifies=["orchestrator.config"])
class EnsureConfigSection:
    """Returns (an alias of) orchestrator.config[section], creating an empty section when absent."""

    def ensures_existing_section_kept(orchestrator, section, old):
        return implies(section in old.orchestrator.config, orchestrator.config == old.orchestrator.config)

    def ensures_missing_section_created(orchestrator, section, old):
        return implies(section not in old.orchestrator.config,
                       orchestrator.config == dict_put(old.orchestrator.config, section, {}))

    def ensures_result_is_the_section(orchestrator, section, result):
        return section in orchestrator.config and result == orchestrator.config[section]


@contract(SH + "set_config_value", props=["C05", "C06"], types=dict(config=Dict, key=Str, value=Any, verbose=Bool),
          modifies=["config"])
class SetConfigValue:
    def ensures_none_is_skipped(config, key, value, old):
        return implies(value is None, config == old.config)

    def ensures_value_written(config, key, value, old):
        return implies(value is not None, config == dict_put(old.config, key, value))


# =================================================================== --max-depth
def lang_sections_are_dicts(section):
    return all(implies(lang in section, isinstance(section[lang], dict)) for lang in LANGS)


def put_lang(d, lang, key, value):
    """d with d[lang][key] = value when d has a `lang` sub-section, else d unchanged."""
    return dict_put(d, lang, dict_put(d[lang], key, value)) if lang in d else d


@contract(SQ + "_apply_nesting_to_languages", props=["C05"], types=dict(nesting_config=Dict, max_depth=Int),
          modifies=["nesting_config"])
class ApplyNestingToLanguages:
    def requires(nesting_config, max_depth):
        return lang_sections_are_dicts(nesting_config)

    def ensures_every_language_section_updated(nesting_config, max_depth, old):
        return nesting_config == put_lang(put_lang(put_lang(put_lang(old.nesting_config, "python", "max_nesting_depth", max_depth),
                                                            "typescript", "max_nesting_depth", max_depth),
                                                   "javascript", "max_nesting_depth", max_depth),
                                          "rust", "max_nesting_depth", max_depth)


def nesting_section_ok(config):
    return implies("nesting" in config, isinstance(config["nesting"], dict) and lang_sections_are_dicts(config["nesting"]))


def effective_depth(config, language):
    """The depth limit NestingConfig.from_dict derives for a file of `language` from the nesting section."""
    return pick(config["nesting"], language, "max_nesting_depth", 4)


@contract(SQ + "_apply_nesting_config_override", props=["C05"], types=dict(orchestrator=OrchT, max_depth=Opt(Int), verbose=Bool,
                                                                          nesting_config=Any),
          modifies=["orchestrator.config"], inline=["ensure_config_section", "_apply_nesting_to_languages"])
class ApplyNestingConfigOverride:
    def requires(orchestrator, max_depth, verbose):
        return nesting_section_ok(orchestrator.config)

    def ensures_no_option_no_change(orchestrator, max_depth, old):
        return implies(max_depth is None, orchestrator.config == old.orchestrator.config)

    def ensures_option_wins_for_every_language(orchestrator, max_depth, old):
        # property text: the option decides the limit for every language the linter analyses (and without a language)
        return implies(max_depth is not None,
                       all(effective_depth(orchestrator.config, lang) == max_depth for lang in LANGS)
                       and effective_depth(orchestrator.config, None) == max_depth)

    def ensures_other_sections_untouched(orchestrator, max_depth, old):
        return implies(max_depth is not None,
                       dict_put(orchestrator.config, "nesting", 0) == dict_put(old.orchestrator.config, "nesting", 0))


# =================================================================== --max-methods / --max-loc
def srp_section_ok(config):
    return implies("srp" in config, isinstance(config["srp"], dict) and lang_sections_are_dicts(config["srp"]))


def effective_srp(config, language, key, default):
    """The limit SRPConfig.from_dict derives for a file of `language` from the srp section."""
    return pick(config["srp"], language, key, default)


def old_srp_section(config):
    return config["srp"] if "srp" in config else {}


@contract(SQ + "_apply_srp_config_override", props=["C05"],
          types=dict(orchestrator=OrchT, max_methods=Opt(Int), max_loc=Opt(Int), verbose=Bool, srp_config=Any),
          modifies=["orchestrator.config"], inline=["ensure_config_section", "set_config_value"])
class ApplySrpConfigOverride:
    def requires(orchestrator, max_methods, max_loc, verbose):
        return srp_section_ok(orchestrator.config)

    def ensures_no_option_no_change(orchestrator, max_methods, max_loc, old):
        return implies(max_methods is None and max_loc is None, orchestrator.config == old.orchestrator.config)

    def ensures_options_win_for_every_language(orchestrator, max_methods, max_loc, old):
        # property text (expected to fail: known finding C05-srp-options-lose-to-language-overrides)
        return implies(max_methods is not None and max_loc is not None,
                       all(effective_srp(orchestrator.config, lang, "max_methods", 7) == max_methods
                           and effective_srp(orchestrator.config, lang, "max_loc", 200) == max_loc for lang in LANGS))

    def ensures_options_win_without_language(orchestrator, max_methods, max_loc, old):
        # finding-adjusted (1): the options decide the top-level keys, i.e. every language WITHOUT its own override
        return implies(max_methods is not None, effective_srp(orchestrator.config, None, "max_methods", 7) == max_methods) \
            and implies(max_loc is not None, effective_srp(orchestrator.config, None, "max_loc", 200) == max_loc)

    def ensures_only_top_level_keys_written(orchestrator, max_methods, max_loc, old):
        # finding-adjusted (2): nothing else changes -- in particular every per-language sub-section keeps its values
        return implies(max_methods is not None and max_loc is not None,
                       orchestrator.config == dict_put(old.orchestrator.config, "srp",
                                                       dict_put(dict_put(old_srp_section(old.orchestrator.config),
                                                                         "max_methods", max_methods), "max_loc", max_loc)))


# =================================================================== dry --min-lines / --no-cache
@contract(CS + "_apply_dry_config_override", props=["C05"],
          types=dict(orchestrator=OrchT, min_lines=Opt(Int), no_cache=Bool, verbose=Bool, dry_config=Any),
          modifies=["orchestrator.config"], inline=["ensure_config_section", "set_config_value"])
class ApplyDryConfigOverride:
    def requires(orchestrator, min_lines, no_cache, verbose):
        return implies("dry" in orchestrator.config, isinstance(orchestrator.config["dry"], dict))

    def ensures_min_lines_option_wins(orchestrator, min_lines, old):
        # DRYConfig.from_dict reads min_duplicate_lines from the top level of the section only (no language override)
        return implies(min_lines is not None, orchestrator.config["dry"].get("min_duplicate_lines", 3) == min_lines)

    def ensures_no_option_keeps_file_value(orchestrator, min_lines, no_cache, old):
        return implies(min_lines is None and "dry" in old.orchestrator.config,
                       orchestrator.config["dry"].get("min_duplicate_lines", 3)
                       == old.orchestrator.config["dry"].get("min_duplicate_lines", 3))

    def ensures_no_cache(orchestrator, no_cache, old):
        return implies(no_cache, orchestrator.config["dry"]["cache_enabled"] == False)  # noqa: E712

    def ensures_other_sections_untouched(orchestrator, old):
        return dict_put(orchestrator.config, "dry", 0) == dict_put(old.orchestrator.config, "dry", 0)
