"""C05 -- configuration is honoured identically in every carrier, for every linter (part 1: parsing, loading,
per-linter config classes, enabled switches, raise-set of the orchestrator)."""
from pyvc.api import (contract, lemma, Any, Assoc, Int, Bool, Str, Dict, SeqOf, Rec, Opt, TupleOf, implies, call, mk, ih,
                      opaque, reveal, dict_put, as_items, is_str_list, is_any_list, as_str_list, as_list)
from contracts._common import ViolationT, PathT

CP = "src/core/config_parser.py::"
LU = "src/core/linter_utils.py::"
LD = "src/linter_config/loader.py::"


# =================================================================== key normalisation (config_parser)
def norm_key(k):
    """Property text: a section name may be written with hyphens or underscores."""
    return k.replace("-", "_")


def norm_fold(items: Assoc(Any), acc: Dict) -> Dict:
    """Left fold of _normalize_config_keys: later keys win (dict assignment)."""
    if len(items) == 0:
        return acc
    return norm_fold(items[1:], dict_put(acc, norm_key(items[0][0]), items[0][1]))


@contract(CP + "_normalize_config_keys", props=["C05", "C20", "C18"], types=dict(config=Assoc(Any), normalized=Dict, key=Str, value=Any,
                                                                           normalized_key=Str), returns=Dict)
class NormalizeConfigKeys:
    def ensures_fold(config, result):
        return result == norm_fold(as_items(config), {})

    def inv0(config, normalized, rest):
        return norm_fold(config, {}) == norm_fold(rest, normalized)


# =================================================================== nesting config
NC = "src/linters/nesting/config.py::"
NestingConfigT = Rec("NestingConfig", cls=NC + "NestingConfig", pycls="src.linters.nesting.config:NestingConfig",
                     max_nesting_depth=Int, enabled=Bool)


@contract(NC + "NestingConfig.__post_init__", props=["C05", "C01"], types=dict(self=NestingConfigT), raises=["ValueError"])
class NestingPostInit:
    def raises_when(self):
        return self.max_nesting_depth <= 0


# =================================================================== language-override precedence (property text)
def has_lang(config, language):
    """A per-language override section applies: the file's language names a sub-section of the linter's section."""
    return language is not None and language != "" and language in config


def pick(config, language, key, default):
    """Documented precedence: <language>.<key>  over  <key>  over  the built-in default."""
    return (config[language][key] if has_lang(config, language) and key in config[language]
            else (config[key] if key in config else default))


def lang_is_dict(config, language):
    return implies(has_lang(config, language), isinstance(config[language], dict))


def int_if_set(d, key):
    return implies(key in d, isinstance(d[key], int))


def int_setting(config, language, key):
    """Well-typed threshold: an int wherever it is set (top level and in the applicable language section)."""
    return int_if_set(config, key) and implies(has_lang(config, language), int_if_set(config[language], key))


@contract(NC + "NestingConfig.from_dict", props=["C05", "C01", "C04", "C08", "C10"], types=dict(config=Dict, language=Opt(Str), lang_config=Any),
          returns=NestingConfigT, raises=["ValueError"])
class NestingFromDict:
    def requires(config, language):
        return lang_is_dict(config, language) and int_setting(config, language, "max_nesting_depth")

    def raises_when(config, language):
        return pick(config, language, "max_nesting_depth", 4) <= 0

    def ensures_precedence(config, language, result):
        return result.max_nesting_depth == pick(config, language, "max_nesting_depth", 4)

    def ensures_enabled(config, language, result):
        return result.enabled == config.get("enabled", True)


# =================================================================== SRP config
SC = "src/linters/srp/config.py::"
from contracts.c16_srp import SRPConfigT  # noqa: E402  (same record the C16 decision contract uses)
SRP_KEYWORDS = ["Manager", "Handler", "Processor", "Utility", "Helper"]


@contract(SC + "SRPConfig.__post_init__", props=["C05", "C16"], types=dict(self=SRPConfigT), raises=["ValueError"])
class SRPPostInit:
    def raises_when(self):
        return self.max_methods <= 0 or self.max_loc <= 0


@contract(SC + "SRPConfig.from_dict", props=["C05", "C16", "C04", "C08", "C10"], types=dict(config=Dict, language=Opt(Str), lang_config=Any),
          returns=SRPConfigT, raises=["ValueError"])
class SRPFromDict:
    def requires(config, language):
        return lang_is_dict(config, language) and int_setting(config, language, "max_methods") \
            and int_setting(config, language, "max_loc")

    def raises_when(config, language):
        return pick(config, language, "max_methods", 7) <= 0 or pick(config, language, "max_loc", 200) <= 0

    def ensures_precedence(config, language, result):
        return result.max_methods == pick(config, language, "max_methods", 7) \
            and result.max_loc == pick(config, language, "max_loc", 200)

    def ensures_switches(config, language, result):
        return result.enabled == config.get("enabled", True) and result.check_keywords == config.get("check_keywords", True) \
            and result.keywords == config.get("keywords", SRP_KEYWORDS) and result.ignore == config.get("ignore", [])


# =================================================================== simple switch-only configs (Rust linters, cqs, lbyl, ...)
RUST_IGNORE = ["examples/", "benches/", "tests/"]
UC = "src/linters/unwrap_abuse/config.py::"
CC = "src/linters/clone_abuse/config.py::"
BC = "src/linters/blocking_async/config.py::"
UnwrapConfigT = Rec("UnwrapAbuseConfig", cls=UC + "UnwrapAbuseConfig", pycls="src.linters.unwrap_abuse.config:UnwrapAbuseConfig",
                    enabled=Bool, allow_in_tests=Bool, allow_expect=Bool, ignore=SeqOf(Str))
BlockingConfigT = Rec("BlockingAsyncConfig", cls=BC + "BlockingAsyncConfig",
                      pycls="src.linters.blocking_async.config:BlockingAsyncConfig", enabled=Bool, allow_in_tests=Bool,
                      detect_fs_in_async=Bool, detect_sleep_in_async=Bool, detect_net_in_async=Bool, ignore=SeqOf(Str))
CloneConfigT = Rec("CloneAbuseConfig", cls=CC + "CloneAbuseConfig", pycls="src.linters.clone_abuse.config:CloneAbuseConfig",
                   enabled=Bool, allow_in_tests=Bool, detect_clone_in_loop=Bool, detect_clone_chain=Bool,
                   detect_unnecessary_clone=Bool, ignore=SeqOf(Str))


@contract(UC + "UnwrapAbuseConfig.from_dict", props=["C05", "C17", "C04", "C08", "C10"], types=dict(config=Dict, language=Opt(Str)),
          returns=UnwrapConfigT)
class UnwrapFromDict:
    def ensures_switches(config, language, result):
        return result.enabled == config.get("enabled", True) and result.allow_in_tests == config.get("allow_in_tests", True) \
            and result.allow_expect == config.get("allow_expect", True) and result.ignore == config.get("ignore", RUST_IGNORE)


@contract(CC + "CloneAbuseConfig.from_dict", props=["C05", "C17", "C04", "C08", "C10"], types=dict(config=Dict, language=Opt(Str)),
          returns=CloneConfigT)
class CloneFromDict:
    def ensures_switches(config, language, result):
        return result.enabled == config.get("enabled", True) and result.allow_in_tests == config.get("allow_in_tests", True) \
            and result.detect_clone_in_loop == config.get("detect_clone_in_loop", True) \
            and result.detect_clone_chain == config.get("detect_clone_chain", True) \
            and result.detect_unnecessary_clone == config.get("detect_unnecessary_clone", True) \
            and result.ignore == config.get("ignore", RUST_IGNORE)


@contract(BC + "BlockingAsyncConfig.from_dict", props=["C05", "C17", "C04", "C08", "C10"], types=dict(config=Dict, language=Opt(Str)),
          returns=BlockingConfigT)
class BlockingFromDict:
    def ensures_switches(config, language, result):
        return result.enabled == config.get("enabled", True) and result.allow_in_tests == config.get("allow_in_tests", True) \
            and result.detect_fs_in_async == config.get("detect_fs_in_async", True) \
            and result.detect_sleep_in_async == config.get("detect_sleep_in_async", True) \
            and result.detect_net_in_async == config.get("detect_net_in_async", True) \
            and result.ignore == config.get("ignore", RUST_IGNORE)


PC = "src/linters/performance/config.py::"
PerfConfigT = Rec("PerformanceConfig", cls=PC + "PerformanceConfig", pycls="src.linters.performance.config:PerformanceConfig",
                  enabled=Bool)


@contract(PC + "PerformanceConfig.from_dict", props=["C05", "C04", "C08", "C10"], types=dict(config=Dict, language=Opt(Str)), returns=PerfConfigT)
class PerfFromDict:
    def ensures_switches(config, language, result):
        return result.enabled == config.get("enabled", True)


QC = "src/linters/cqs/config.py::"
CQSConfigT = Rec("CQSConfig", cls=QC + "CQSConfig", pycls="src.linters.cqs.config:CQSConfig", enabled=Bool, min_operations=Int,
                 ignore_methods=SeqOf(Str), ignore_decorators=SeqOf(Str), ignore_patterns=SeqOf(Str),
                 detect_fluent_interface=Bool)


@contract(QC + "CQSConfig.from_dict", props=["C05", "C04", "C08", "C10"], types=dict(config=Dict, language=Opt(Str)), returns=CQSConfigT)
class CQSFromDict:
    def ensures_switches(config, language, result):
        return result.enabled == config.get("enabled", True) and result.min_operations == config.get("min_operations", 1) \
            and result.ignore_methods == config.get("ignore_methods", ["__init__", "__new__"]) \
            and result.ignore_decorators == config.get("ignore_decorators", ["property", "cached_property"]) \
            and result.ignore_patterns == config.get("ignore_patterns", []) \
            and result.detect_fluent_interface == config.get("detect_fluent_interface", True)


LC = "src/linters/lbyl/config.py::"
LBYLConfigT = Rec("LBYLConfig", cls=LC + "LBYLConfig", pycls="src.linters.lbyl.config:LBYLConfig", enabled=Bool,
                  detect_dict_key=Bool, detect_hasattr=Bool, detect_isinstance=Bool, detect_file_exists=Bool,
                  detect_len_check=Bool, detect_none_check=Bool, detect_string_validation=Bool, detect_division_check=Bool,
                  ignore=SeqOf(Str))


@contract(LC + "LBYLConfig.from_dict", props=["C05", "C04", "C08", "C10"], types=dict(config=Dict, language=Opt(Str)), returns=LBYLConfigT)
class LBYLFromDict:
    def ensures_switches(config, language, result):
        return result.enabled == config.get("enabled", True) and result.detect_dict_key == config.get("detect_dict_key", True) \
            and result.detect_hasattr == config.get("detect_hasattr", True) \
            and result.detect_isinstance == config.get("detect_isinstance", False) \
            and result.detect_file_exists == config.get("detect_file_exists", True) \
            and result.detect_len_check == config.get("detect_len_check", True) \
            and result.detect_none_check == config.get("detect_none_check", False) \
            and result.detect_string_validation == config.get("detect_string_validation", True) \
            and result.detect_division_check == config.get("detect_division_check", True) \
            and result.ignore == config.get("ignore", [])


# =================================================================== collection-pipeline
PLC = "src/linters/collection_pipeline/config.py::"
PipelineConfigT = Rec("CollectionPipelineConfig", cls=PLC + "CollectionPipelineConfig",
                      pycls="src.linters.collection_pipeline.config:CollectionPipelineConfig", enabled=Bool, min_continues=Int,
                      ignore=SeqOf(Str), detect_any_all=Bool, detect_filter_map=Bool, use_walrus_operator=Bool)


@contract(PLC + "CollectionPipelineConfig.__post_init__", props=["C05"], types=dict(self=PipelineConfigT), raises=["ValueError"])
class PipelinePostInit:
    def raises_when(self):
        return self.min_continues < 1


@contract(PLC + "CollectionPipelineConfig.from_dict", props=["C05", "C04", "C08", "C10"], types=dict(config=Dict, language=Opt(Str)),
          returns=PipelineConfigT, raises=["ValueError"])
class PipelineFromDict:
    def requires(config, language):
        return int_if_set(config, "min_continues")

    def raises_when(config, language):
        return config.get("min_continues", 1) < 1

    def ensures_switches(config, language, result):
        return result.enabled == config.get("enabled", True) and result.min_continues == config.get("min_continues", 1) \
            and result.ignore == config.get("ignore", []) and result.detect_any_all == config.get("detect_any_all", True) \
            and result.detect_filter_map == config.get("detect_filter_map", True) \
            and result.use_walrus_operator == config.get("use_walrus_operator", True)


# =================================================================== stateless-class
STC = "src/linters/stateless_class/config.py::"
StatelessConfigT = Rec("StatelessClassConfig", cls=STC + "StatelessClassConfig",
                       pycls="src.linters.stateless_class.config:StatelessClassConfig", enabled=Bool, min_methods=Int,
                       ignore=SeqOf(Str), exempt_test_classes=Bool, exempt_mixins=Bool)


def list_or_empty(d, key):
    """`ignore` is honoured only when it is a list (anything else counts as no patterns)."""
    return d[key] if key in d and isinstance(d[key], list) else []


@contract(STC + "StatelessClassConfig.from_dict", props=["C05", "C04", "C08", "C10"], types=dict(config=Opt(Dict), language=Opt(Str), ignore_patterns=Any),
          returns=StatelessConfigT)
class StatelessFromDict:
    def ensures_none_is_default(config, language, result):
        return implies(config is None, result.enabled and result.min_methods == 2 and result.ignore == []
                       and result.exempt_test_classes and result.exempt_mixins)

    def ensures_switches(config, language, result):
        return implies(config is not None,
                       result.enabled == config.get("enabled", True) and result.min_methods == config.get("min_methods", 2)
                       and result.ignore == list_or_empty(config, "ignore")
                       and result.exempt_test_classes == config.get("exempt_test_classes", True)
                       and result.exempt_mixins == config.get("exempt_mixins", True))


# =================================================================== lazy-ignores
LZC = "src/linters/lazy_ignores/config.py::"
LAZY_SWITCHES = ("check_noqa", "check_type_ignore", "check_pylint_disable", "check_nosec", "check_pyright_ignore",
                 "check_ts_ignore", "check_eslint_disable", "check_thailint_ignore", "check_test_skips", "check_orphaned",
                 "allow_inline_justifications")
LazyConfigT = Rec("LazyIgnoresConfig", cls=LZC + "LazyIgnoresConfig", pycls="src.linters.lazy_ignores.config:LazyIgnoresConfig",
                  check_noqa=Bool, check_type_ignore=Bool, check_pylint_disable=Bool, check_nosec=Bool,
                  check_pyright_ignore=Bool, check_ts_ignore=Bool, check_eslint_disable=Bool, check_thailint_ignore=Bool,
                  check_test_skips=Bool, check_orphaned=Bool, allow_inline_justifications=Bool,
                  min_justification_length=Int, ignore_patterns=SeqOf(Str))


@contract(LZC + "LazyIgnoresConfig.from_dict", props=["C05", "C04", "C08", "C10"], types=dict(config_dict=Dict), returns=LazyConfigT)
class LazyFromDict:
    def ensures_switches(config_dict, result):
        return result.check_noqa == config_dict.get("check_noqa", True) \
            and result.check_type_ignore == config_dict.get("check_type_ignore", True) \
            and result.check_pylint_disable == config_dict.get("check_pylint_disable", True) \
            and result.check_nosec == config_dict.get("check_nosec", True) \
            and result.check_pyright_ignore == config_dict.get("check_pyright_ignore", True) \
            and result.check_ts_ignore == config_dict.get("check_ts_ignore", True) \
            and result.check_eslint_disable == config_dict.get("check_eslint_disable", True) \
            and result.check_thailint_ignore == config_dict.get("check_thailint_ignore", True) \
            and result.check_test_skips == config_dict.get("check_test_skips", True) \
            and result.check_orphaned == config_dict.get("check_orphaned", True) \
            and result.allow_inline_justifications == config_dict.get("allow_inline_justifications", True) \
            and result.min_justification_length == config_dict.get("min_justification_length", 10) \
            and result.ignore_patterns == config_dict.get("ignore_patterns", [])


# =================================================================== print-statements
PRC = "src/linters/print_statements/config.py::"
PrintConfigT = Rec("PrintStatementConfig", cls=PRC + "PrintStatementConfig", enabled=Bool, ignore=SeqOf(Str), allow_in_scripts=Bool)
CONSOLE_METHODS = ["log", "warn", "error", "debug", "info"]


def str_list_if_set(d, key):
    return implies(key in d, is_str_list(d[key]))


@contract(PRC + "PrintStatementConfig.from_dict", props=["C05", "C04", "C08", "C10"],
          types=dict(config=Dict, language=Opt(Str), lang_config=Any, ignore_patterns=Any), returns=PrintConfigT)
class PrintFromDict:
    """console_methods becomes a set (membership only in the engine): no clause is stated about it here."""

    def requires(config, language):
        return lang_is_dict(config, language) and str_list_if_set(config, "console_methods") \
            and implies(has_lang(config, language), str_list_if_set(config[language], "console_methods"))

    def ensures_switches(config, language, result):
        return result.enabled == config.get("enabled", True) and result.ignore == list_or_empty(config, "ignore")

    def ensures_precedence(config, language, result):
        return result.allow_in_scripts == pick(config, language, "allow_in_scripts", True)


# =================================================================== DRY
DC = "src/linters/dry/config.py::"
DRYConfigT = Rec("DRYConfig", cls=DC + "DRYConfig", pycls="src.linters.dry.config:DRYConfig",
                 enabled=Bool, min_duplicate_lines=Int, min_duplicate_tokens=Int, min_occurrences=Int,
                 python_min_occurrences=Opt(Int), typescript_min_occurrences=Opt(Int), javascript_min_occurrences=Opt(Int),
                 storage_mode=Str, ignore_patterns=SeqOf(Str), detect_duplicate_constants=Bool, min_constant_occurrences=Int,
                 python_min_constant_occurrences=Opt(Int), typescript_min_constant_occurrences=Opt(Int))


def dry_invalid(c):
    """Documented as invalid: a non-positive limit, or a storage mode other than memory / tempfile."""
    return (c.min_duplicate_lines <= 0 or c.min_duplicate_tokens <= 0 or c.min_occurrences <= 0
            or c.min_constant_occurrences <= 0 or c.storage_mode not in ("memory", "tempfile"))


def min_occ(c, ll):
    """Occurrence threshold for a (lower-cased) language name: its override when set, else the global value."""
    return (c.python_min_occurrences if ll == "python" and c.python_min_occurrences is not None
            else (c.typescript_min_occurrences if ll == "typescript" and c.typescript_min_occurrences is not None
                  else (c.javascript_min_occurrences if ll == "javascript" and c.javascript_min_occurrences is not None
                        else c.min_occurrences)))


@contract(DC + "DRYConfig._validate_positive_fields", props=["C05"], types=dict(self=DRYConfigT), raises=["ValueError"])
class DRYValidatePositive:
    def raises_when(self):
        return (self.min_duplicate_lines <= 0 or self.min_duplicate_tokens <= 0 or self.min_occurrences <= 0
                or self.min_constant_occurrences <= 0)


@contract(DC + "DRYConfig.__post_init__", props=["C05"], types=dict(self=DRYConfigT), raises=["ValueError"])
class DRYPostInit:
    def raises_when(self):
        return dry_invalid(self)


@contract(DC + "DRYConfig.get_min_occurrences_for_language", props=["C05", "C03"], types=dict(self=DRYConfigT, language=Str),
          returns=Int)
class DRYMinOccurrencesForLanguage:
    """Language override over the global value; `language` is compared lower-cased (uninterpreted str.lower)."""

    def value(self, language):
        return min_occ(self, language.lower())

    def ensures_python(self, language, result):
        return implies(language.lower() == "python",
                       result == (self.python_min_occurrences if self.python_min_occurrences is not None else self.min_occurrences))

    def ensures_typescript(self, language, result):
        return implies(language.lower() == "typescript", result == (self.typescript_min_occurrences
                                                           if self.typescript_min_occurrences is not None else self.min_occurrences))

    def ensures_javascript(self, language, result):
        return implies(language.lower() == "javascript", result == (self.javascript_min_occurrences
                                                           if self.javascript_min_occurrences is not None else self.min_occurrences))

    def ensures_override_or_global(self, language, result):
        return result == self.min_occurrences or (self.python_min_occurrences is not None and result == self.python_min_occurrences) \
            or (self.typescript_min_occurrences is not None and result == self.typescript_min_occurrences) \
            or (self.javascript_min_occurrences is not None and result == self.javascript_min_occurrences)


def sub_dict(config, key):
    """A per-language sub-section is a dict when present."""
    return implies(key in config, isinstance(config[key], dict))


def sub_get(config, section, key):
    """config[section][key], None when either level is missing."""
    return config[section].get(key) if section in config else None


DRY_INT_KEYS = ("min_duplicate_lines", "min_duplicate_tokens", "min_occurrences", "min_constant_occurrences")


@contract(DC + "DRYConfig.from_dict", props=["C05", "C03", "C04", "C08", "C10"],
          types=dict(config=Dict, python_config=Any, typescript_config=Any, javascript_config=Any, custom_filters=Any, filters=Dict),
          returns=DRYConfigT, raises=["ValueError"])
class DRYFromDict:
    def requires(config):
        return sub_dict(config, "python") and sub_dict(config, "typescript") and sub_dict(config, "javascript") \
            and sub_dict(config, "filters") and all(int_if_set(config, k) for k in DRY_INT_KEYS) \
            and implies("storage_mode" in config, isinstance(config["storage_mode"], str))

    def raises_when(config):
        return (config.get("min_duplicate_lines", 3) <= 0 or config.get("min_duplicate_tokens", 30) <= 0
                or config.get("min_occurrences", 2) <= 0 or config.get("min_constant_occurrences", 2) <= 0
                or config.get("storage_mode", "memory") not in ("memory", "tempfile"))

    def ensures_thresholds(config, result):
        return result.enabled == config.get("enabled", False) \
            and result.min_duplicate_lines == config.get("min_duplicate_lines", 3) \
            and result.min_duplicate_tokens == config.get("min_duplicate_tokens", 30) \
            and result.min_occurrences == config.get("min_occurrences", 2) \
            and result.min_constant_occurrences == config.get("min_constant_occurrences", 2) \
            and result.storage_mode == config.get("storage_mode", "memory") \
            and result.ignore_patterns == config.get("ignore", []) \
            and result.detect_duplicate_constants == config.get("detect_duplicate_constants", True)

    def ensures_language_overrides(config, result):
        return result.python_min_occurrences == sub_get(config, "python", "min_occurrences") \
            and result.typescript_min_occurrences == sub_get(config, "typescript", "min_occurrences") \
            and result.javascript_min_occurrences == sub_get(config, "javascript", "min_occurrences") \
            and result.python_min_constant_occurrences == sub_get(config, "python", "min_constant_occurrences") \
            and result.typescript_min_constant_occurrences == sub_get(config, "typescript", "min_constant_occurrences")


# =================================================================== file-header
FHC = "src/linters/file_header/config.py::"
FileHeaderConfigT = Rec("FileHeaderConfig", cls=FHC + "FileHeaderConfig", pycls="src.linters.file_header.config:FileHeaderConfig",
                        required_fields_python=SeqOf(Str), required_fields_typescript=SeqOf(Str),
                        required_fields_bash=SeqOf(Str), required_fields_markdown=SeqOf(Str), required_fields_css=SeqOf(Str),
                        enforce_atemporal=Bool, ignore=SeqOf(Str))
FH_PY = ["Purpose", "Scope", "Overview", "Dependencies", "Exports", "Interfaces", "Implementation"]
FH_TS = ["Purpose", "Scope", "Overview", "Dependencies", "Exports", "Props/Interfaces", "State/Behavior"]
FH_SH = ["Purpose", "Scope", "Overview", "Dependencies", "Exports", "Usage", "Environment"]
FH_MD = ["purpose", "scope", "overview", "audience", "status"]
FH_CSS = ["Purpose", "Scope", "Overview", "Dependencies", "Exports", "Interfaces", "Environment"]
FH_IGNORE = ["test/**", "**/migrations/**", "**/__init__.py"]


def rf_for(config_dict, lang, default):
    """required_fields: one list for all languages, or a mapping language -> list; built-in default otherwise."""
    if "required_fields" not in config_dict:
        return default
    if isinstance(config_dict["required_fields"], list):
        return config_dict["required_fields"]
    return config_dict["required_fields"].get(lang, default)


@contract(FHC + "FileHeaderConfig.from_dict", props=["C05", "C04", "C08", "C10"],
          types=dict(config_dict=Dict, language=Opt(Str), required_fields=Any, defaults=FileHeaderConfigT), returns=FileHeaderConfigT)
class FileHeaderFromDict:
    def requires(config_dict, language):
        return implies("required_fields" in config_dict, isinstance(config_dict["required_fields"], (list, dict)))

    def ensures_required_fields(config_dict, language, result):
        return result.required_fields_python == rf_for(config_dict, "python", FH_PY) \
            and result.required_fields_typescript == rf_for(config_dict, "typescript", FH_TS) \
            and result.required_fields_bash == rf_for(config_dict, "bash", FH_SH) \
            and result.required_fields_markdown == rf_for(config_dict, "markdown", FH_MD) \
            and result.required_fields_css == rf_for(config_dict, "css", FH_CSS)

    def ensures_switches(config_dict, language, result):
        return result.enforce_atemporal == config_dict.get("enforce_atemporal", True) \
            and result.ignore == config_dict.get("ignore", FH_IGNORE)


# =================================================================== method-property
MPC = "src/linters/method_property/config.py::"
MethodPropertyConfigT = Rec("MethodPropertyConfig", cls=MPC + "MethodPropertyConfig", enabled=Bool, max_body_statements=Int,
                            ignore=SeqOf(Str), ignore_methods=SeqOf(Str))


@contract(MPC + "_load_list_config", props=["C05"], types=dict(config=Dict, key=Str, override_key=Str), returns=SeqOf(Str),
          assumed="tuple(<dynamic list>) / tuple concatenation: tuples of dynamic length are outside the verified subset; "
                  "only the exclusion-name tables depend on it, no enabled switch or threshold")
class LoadListConfig:
    def ensures(config, key, override_key, result):
        return True


@contract(MPC + "_load_set_config", props=["C05"], types=dict(config=Dict, key=Str, override_key=Str), returns=SeqOf(Str),
          assumed="frozenset(<dynamic list>) / set union: sets of strings are outside the verified subset; "
                  "only the exclusion-name tables depend on it, no enabled switch or threshold")
class LoadSetConfig:
    def ensures(config, key, override_key, result):
        return True


@contract(MPC + "MethodPropertyConfig.from_dict", props=["C05", "C04", "C08", "C10"],
          types=dict(config=Opt(Dict), language=Opt(Str), ignore_patterns=Any, ignore_methods=Any), returns=MethodPropertyConfigT)
class MethodPropertyFromDict:
    def ensures_none_is_default(config, language, result):
        return implies(config is None, result.enabled and result.max_body_statements == 3 and result.ignore == []
                       and result.ignore_methods == [])

    def ensures_switches(config, language, result):
        return implies(config is not None,
                       result.enabled == config.get("enabled", True)
                       and result.max_body_statements == config.get("max_body_statements", 3)
                       and result.ignore == list_or_empty(config, "ignore")
                       and result.ignore_methods == list_or_empty(config, "ignore_methods"))


# =================================================================== stringly-typed
SYC = "src/linters/stringly_typed/config.py::"
StringlyConfigT = Rec("StringlyTypedConfig", cls=SYC + "StringlyTypedConfig",
                      pycls="src.linters.stringly_typed.config:StringlyTypedConfig", enabled=Bool, min_occurrences=Int,
                      min_values_for_enum=Int, max_values_for_enum=Int, require_cross_file=Bool, ignore=SeqOf(Str),
                      allowed_string_sets=Any, exclude_variables=SeqOf(Str))
ST_IGNORE = ["**/tests/**", "**/test/**", "**/*_test.py", "**/*_test.ts", "**/*.test.ts", "**/*.test.tsx", "**/*.spec.ts",
             "**/*.spec.tsx", "**/*.stories.ts", "**/*.stories.tsx", "**/conftest.py", "**/fixtures/**"]


def stringly_invalid(min_occurrences, min_values, max_values):
    """Documented as invalid: min_occurrences < 1, min_values_for_enum < 2, max_values_for_enum < min_values_for_enum."""
    return min_occurrences < 1 or min_values < 2 or max_values < min_values


@contract(SYC + "StringlyTypedConfig.__post_init__", props=["C05"], types=dict(self=StringlyConfigT), raises=["ValueError"])
class StringlyPostInit:
    def raises_when(self):
        return stringly_invalid(self.min_occurrences, self.min_values_for_enum, self.max_values_for_enum)


ST_INT_KEYS = ("min_occurrences", "min_values_for_enum", "max_values_for_enum")


def stringly_wf(d):
    return all(int_if_set(d, k) for k in ST_INT_KEYS) and str_list_if_set(d, "ignore")


@contract(SYC + "StringlyTypedConfig._from_base_config", props=["C05", "C04", "C08", "C10"], types=dict(config=Dict, user_ignore=Any, merged_ignore=SeqOf(Str)),
          returns=StringlyConfigT, raises=["ValueError"])
class StringlyFromBase:
    def requires(config):
        return stringly_wf(config)

    def raises_when(config):
        return stringly_invalid(config.get("min_occurrences", 2), config.get("min_values_for_enum", 2),
                                config.get("max_values_for_enum", 6))

    def ensures_values(config, result):
        return result.enabled == config.get("enabled", True) and result.min_occurrences == config.get("min_occurrences", 2) \
            and result.min_values_for_enum == config.get("min_values_for_enum", 2) \
            and result.max_values_for_enum == config.get("max_values_for_enum", 6) \
            and result.require_cross_file == config.get("require_cross_file", True) \
            and result.ignore == ST_IGNORE + as_str_list(config.get("ignore", [])) \
            and result.allowed_string_sets == config.get("allowed_string_sets", []) \
            and result.exclude_variables == config.get("exclude_variables", [])


def over(base, lang, key, default):
    """lang[key] over base[key] over default."""
    return lang.get(key, base.get(key, default))


@contract(SYC + "StringlyTypedConfig._from_merged_config", props=["C05", "C04", "C08", "C10"],
          types=dict(base_config=Dict, lang_config=Dict, user_ignore=Any, merged_ignore=SeqOf(Str)),
          returns=StringlyConfigT, raises=["ValueError"])
class StringlyFromMerged:
    def requires(base_config, lang_config):
        return stringly_wf(base_config) and stringly_wf(lang_config)

    def raises_when(base_config, lang_config):
        return stringly_invalid(over(base_config, lang_config, "min_occurrences", 2),
                                over(base_config, lang_config, "min_values_for_enum", 2),
                                over(base_config, lang_config, "max_values_for_enum", 6))

    def ensures_values(base_config, lang_config, result):
        return result.enabled == over(base_config, lang_config, "enabled", True) \
            and result.min_occurrences == over(base_config, lang_config, "min_occurrences", 2) \
            and result.min_values_for_enum == over(base_config, lang_config, "min_values_for_enum", 2) \
            and result.max_values_for_enum == over(base_config, lang_config, "max_values_for_enum", 6) \
            and result.require_cross_file == over(base_config, lang_config, "require_cross_file", True) \
            and result.ignore == ST_IGNORE + as_str_list(over(base_config, lang_config, "ignore", [])) \
            and result.allowed_string_sets == over(base_config, lang_config, "allowed_string_sets", []) \
            and result.exclude_variables == over(base_config, lang_config, "exclude_variables", [])


@contract(SYC + "StringlyTypedConfig.from_dict", props=["C05", "C04", "C08", "C10"], types=dict(config=Dict, language=Opt(Str), lang_config=Any),
          returns=StringlyConfigT, raises=["ValueError"])
class StringlyFromDict:
    def requires(config, language):
        return lang_is_dict(config, language) and stringly_wf(config) and implies(has_lang(config, language), stringly_wf(config[language]))

    def raises_when(config, language):
        return stringly_invalid(pick(config, language, "min_occurrences", 2), pick(config, language, "min_values_for_enum", 2),
                                pick(config, language, "max_values_for_enum", 6))

    def ensures_precedence(config, language, result):
        return result.enabled == pick(config, language, "enabled", True) \
            and result.min_occurrences == pick(config, language, "min_occurrences", 2) \
            and result.min_values_for_enum == pick(config, language, "min_values_for_enum", 2) \
            and result.max_values_for_enum == pick(config, language, "max_values_for_enum", 6) \
            and result.require_cross_file == pick(config, language, "require_cross_file", True)


# =================================================================== linter_utils: metadata access and the generic loader
from pyvc.api import ClassOf, EnumOf, uf  # noqa: E402

LintCtxT = Rec("LintContext", file_path=Opt(PathT), file_content=Opt(Str),
               language=Str, metadata=Any)
GenericCfgT = Rec("LinterConfig", enabled=Bool, key=Int)  # `key`: ghost identity of the configuration object
ConfigClassT = ClassOf(LU + "ConfigProtocol")
cfg_from = uf("cfg_from", [Dict, Opt(Str)], GenericCfgT)         # config_class.from_dict(section, language=language)


def metadata_of(context):
    """The rule-visible configuration: context.metadata when it is a dict, else empty."""
    return dict(context.metadata) if isinstance(context.metadata, dict) else {}


@contract(LU + "get_metadata", props=["C05", "C08", "C10"], types=dict(context=LintCtxT, metadata=Any), returns=Dict)
class GetMetadata:
    def value(context):
        return metadata_of(context)


@contract(LU + "get_metadata_value", props=["C05", "C08", "C10"], types=dict(context=LintCtxT, key=Str, default=Any), returns=Any)
class GetMetadataValue:
    def value(context, key, default):
        return metadata_of(context).get(key, default)


LangCtxT = Rec("LintContext", file_path=Opt(PathT), file_content=Opt(Str),
               language=EnumOf("src/core/constants.py::Language"), metadata=Any)


@contract(LU + "get_language", props=["C05", "C08", "C10"], types=dict(context=LangCtxT), returns=Any)
class GetLanguage:
    """Returns the context's language OBJECT unchanged -- the value string the detector produced; it may be a plain str or
    a member of the str-mixin enum core.constants.Language (whose str() is 'Language.X', not the value), so no
    conversion may be applied on the way to `language in section` / section[language]."""

    def value(context):
        return context.language


@contract(LU + "ConfigProtocol.from_dict", props=["C05", "C08", "C10"], types=dict(config_dict=Dict, language=Opt(Str)), returns=GenericCfgT,
          raises=["ValueError", "TypeError"],
          assumed="protocol method: stands for the from_dict of ANY linter config class (each concrete one has its own "
                  "contract above); may raise ValueError (invalid value) or TypeError (no `language` parameter)")
class ProtocolFromDict:
    def value(config_dict, language):
        return cfg_from(config_dict, language)


def section_of(context, config_key):
    return metadata_of(context).get(config_key, {})


@contract(LU + "load_linter_config", props=["C05", "C08", "C10"],
          types=dict(context=LintCtxT, config_key=Str, config_class=ConfigClassT, config_dict=Any), returns=GenericCfgT,
          raises=["ValueError", "TypeError"])
class LoadLinterConfig:
    """The ONLY section consulted is metadata[config_key]; when it is a dict the result is the class's from_dict of that
    section and the file's language (ValueError propagates); any other value silently yields the default config."""

    def ensures_from_dict_of_the_section(context, config_key, config_class, result):
        return implies(isinstance(section_of(context, config_key), dict),
                       result == cfg_from(section_of(context, config_key), context.language)
                       or result == cfg_from(section_of(context, config_key), None))  # fallback: class without `language`


# =================================================================== monotonicity of thresholds (property text)
def opt_le(a, b):
    """Override a is at most override b (both unset, or both set and a <= b)."""
    return (a is None and b is None) or (a is not None and b is not None and a <= b)


@lemma(props=["C05", "C03"], types=dict(strict=DRYConfigT, lax=DRYConfigT, language=Str), name="dry-min-occurrences-monotone")
def dry_min_occurrences_monotone(strict, lax, language):
    """'Making a threshold more permissive never adds a violation': raising min_occurrences (globally and per language)
    never lowers the occurrence threshold used for any language, so a group reported under `lax` (len >= threshold) is
    reported under `strict`."""
    if not (strict.min_occurrences <= lax.min_occurrences
            and opt_le(strict.python_min_occurrences, lax.python_min_occurrences)
            and opt_le(strict.typescript_min_occurrences, lax.typescript_min_occurrences)
            and opt_le(strict.javascript_min_occurrences, lax.javascript_min_occurrences)):
        return True
    return call(DC + "DRYConfig.get_min_occurrences_for_language", strict, language) \
        <= call(DC + "DRYConfig.get_min_occurrences_for_language", lax, language)


from contracts.c16_srp import EVAL, Metrics  # noqa: E402


@lemma(props=["C05", "C16"], types=dict(metrics=Metrics, strict=SRPConfigT, lax=SRPConfigT), name="srp-thresholds-monotone")
def srp_thresholds_monotone(metrics, strict, lax):
    """A class reported under the more permissive limits is reported under the stricter ones (same keyword settings)."""
    if not (strict.max_methods <= lax.max_methods and strict.max_loc <= lax.max_loc
            and strict.check_keywords == lax.check_keywords):
        return True
    return implies(len(call(EVAL, metrics, lax)) > 0, len(call(EVAL, metrics, strict)) > 0)
