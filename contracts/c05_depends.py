"""C05 / C20 -- the dependency cone: contracts owned by other properties' files that C05 (and C20) DEPEND on.

C05's observation point is the CLI run under a config carrier. Walking down from there: the command executors
(_execute_*_lint: option / config-file ORDER, "option in force at exit"), the orchestrator set-up and config discovery
(Orchestrator.__init__, setup_base_orchestrator, load_config_file), the per-file context (FileLintContext: metadata is the
loaded config, language is what the detector produced), the language detector (the language decides WHICH per-language
override applies), the rule dispatch, the generic loader and the config classes (contracts/c05_*.py), the containment of
rule errors and their mapping to exit 2. One contract per function, several properties: this module adds "C05" (and
"C07" to the config classes' frames: a reader must not write the shared section it is given -- sequential == parallel) to
the `props` of the contracts of that cone which live in other files, at load time; a coverage unit reports every listed
target that has no contract (UNDECIDED, never silent)."""
import time

from pyvc import api as _api
from pyvc.api import custom

_IMPORT_ERRORS = {}
for _m in ("contracts.c05_config", "contracts.c05_cli", "contracts.c05_parse", "contracts.c06_cli", "contracts.c10_orchestrator",
           "contracts.c11_containment", "contracts.c15_language", "contracts.c02_magic_numbers"):
    try:
        __import__(_m)
    except BaseException as _e:  # noqa  (reported by the coverage unit below)
        _IMPORT_ERRORS[_m] = repr(_e)[:200]

CLI = "src/cli/linters/"
C05_CONE = [
    # command executors: where CLI threshold options and the --config carrier meet
    # (the executors that take threshold options or load configuration themselves; the other commands only go through
    #  setup_base_orchestrator below)
    CLI + "code_smells.py::_execute_dry_lint", CLI + "structure_quality.py::_execute_nesting_lint",
    CLI + "structure_quality.py::_execute_srp_lint", CLI + "structure.py::_execute_pipeline_lint",
    CLI + "structure.py::_execute_file_placement_lint", CLI + "structure.py::_setup_orchestrator",
    CLI + "code_smells.py::_load_dry_config_file", CLI + "code_smells.py::_clear_dry_cache",
    "src/cli/utils.py::setup_base_orchestrator", "src/cli/utils.py::load_config_file", "src/cli/utils.py::handle_linting_error",
    # orchestrator: config discovery, the context handed to rules
    "src/orchestrator/core.py::Orchestrator.__init__", "src/orchestrator/core.py::Orchestrator.lint_file",
    "src/orchestrator/core.py::FileLintContext.__init__", "src/orchestrator/core.py::Orchestrator._execute_rules",
    "src/orchestrator/core.py::Orchestrator._safe_check_rule~containment",
    # language detection: decides which per-language override applies
    "src/orchestrator/language_detector.py::detect_language", "src/orchestrator/language_detector.py::_detect_from_shebang",
    "src/orchestrator/language_detector.py::_parse_shebang_language", "src/orchestrator/language_detector.py::_read_first_line",
    # rule dispatch
    "src/core/base.py::MultiLanguageLintRule.check", "src/core/base.py::MultiLanguageLintRule._dispatch_by_language",
    "src/core/python_lint_rule.py::PythonOnlyLintRule.check", "src/core/python_lint_rule.py::PythonOnlyLintRule._get_config",
    # config classes owned by other files
    "src/linters/magic_numbers/config.py::MagicNumberConfig.from_dict", "src/linters/magic_numbers/config.py::MagicNumberConfig.__post_init__",
    "src/api.py::Linter.__init__", "src/api.py::Linter._resolve_config_path",
]
MISSING = []
for _t in C05_CONE:
    _c = _api.REGISTRY.get(_t)
    if _c is None:
        MISSING.append(_t)
    elif "C05" not in _c.props:
        _c.props.append("C05")

# C07 (sequential == parallel): every config-class constructor and the generic loader must leave the shared section alone
for _t, _c in list(_api.REGISTRY.items()):
    if (_t.startswith("src/linters/") and "/config.py::" in _t) or _t.startswith("src/core/linter_utils.py::"):
        for _p in ("C07",):
            if _p not in _c.props:
                _c.props.append(_p)


@custom("c05-cone-covered", props=["C05"])
def cone_covered(ctx):
    t0 = time.time()
    obs = []
    for t in C05_CONE:
        c = _api.REGISTRY.get(t)
        ok = c is not None and "C05" in c.props
        obs.append({"name": f"custom:c05-cone-covered/{t}", "kind": "custom", "verdict": "discharged" if ok else "unknown",
                    "solver": "registry", "ms": round((time.time() - t0) * 1000, 1), "carries": False,
                    "note": "" if ok else f"{t} is on C05's path but has no contract carrying C05 ({_IMPORT_ERRORS or 'not registered'})"})
    return obs
