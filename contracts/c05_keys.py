"""C05 -- key coherence: every linter looks its configuration up under the key that the loader produces for the
DOCUMENTED section name, in both spellings (mechanical extraction from the current source on every run).

Spec side (never derived from the code): DOCUMENTED below lists, per linter package, the section names the user
documentation gives -- src/templates/thailint_config_template.yaml (what `thailint init-config` writes) and
docs/*-linter.md / docs/configuration.md.

Code side, extracted from ${VERIF_REPO:-/repo} by an AST scan of src/linters/<package>/**/*.py:
  lookup_keys(package) = constant keys the package reads from the rule-visible configuration dict
      * second argument of load_linter_config(context, KEY, ...) (constant, or a loop variable over a constant tuple)
      * KEY in  M.get(KEY, ...), M[KEY], KEY in M  where M is metadata-like: context.metadata, get_metadata(context),
        getattr(context, "metadata", ..), a local bound to one of those, or the result of a function of the module that
        returns one of those
      * the constant returned by a `_config_key` property (PythonOnlyLintRule subclasses: the base class passes it to
        load_linter_config)
  Reads of `context.config` do not count: FileLintContext (what the orchestrator hands to rules) has no such attribute.
  normalise(s) = the key the REAL src/core/config_parser.py::_normalize_config_keys produces for {s: ...} (run natively).

Obligation, one per (package, documented section, spelling s in {hyphens, underscores}):  normalise(s) in lookup_keys.
For every listed known finding the finding-adjusted obligation `.../adjusted/<package>` pins the exact key set the package
looks up today, so any further drift is still reported."""
import ast
import os
import time

from pyvc.api import custom

# ---- SPEC: documented section names per linter package (template = src/templates/thailint_config_template.yaml)
DOCUMENTED = {
    "magic_numbers": ["magic-numbers"],                 # template, docs/magic-numbers-linter.md
    "nesting": ["nesting"],                             # template, docs/nesting-linter.md
    "srp": ["srp"],                                     # template, docs/srp-linter.md
    "dry": ["dry"],                                     # template, docs/dry-linter.md
    "file_placement": ["file-placement"],               # template, docs/file-placement-linter.md
    "print_statements": ["print-statements",            # template, docs/print-statements-linter.md
                         "improper-logging"],           # docs/improper-logging-linter.md ("or update to improper-logging:")
    "stringly_typed": ["stringly-typed"],               # template (docs/stringly-typed-linter.md spells stringly_typed)
    "file_header": ["file-header"],                     # template, docs/file-header-linter.md
    "method_property": ["method-property"],             # template, docs/method-property-linter.md
    "stateless_class": ["stateless-class"],             # template, docs/stateless-class-linter.md
    "collection_pipeline": ["pipeline",                 # template
                            "collection-pipeline"],     # docs/collection-pipeline-linter.md, docs/configuration.md
    "lazy_ignores": ["lazy-ignores"],                   # template, docs/lazy-ignores-linter.md
    "performance": ["performance"],                     # template, docs/performance-linter.md
    "unwrap_abuse": ["unwrap-abuse"],                   # template, docs/unwrap-abuse-linter.md
    "clone_abuse": ["clone-abuse"],                     # template, docs/clone-abuse-linter.md
    "blocking_async": ["blocking-async"],               # template, docs/blocking-async-linter.md
    "cqs": ["cqs"],                                     # docs/cqs-linter.md
    "lbyl": ["lbyl"],                                   # docs/lbyl-linter.md
}

# ---- finding-adjusted side: the key sets the defective packages look up at the pinned commit (known_findings.json)
ADJUSTED = {
    "stateless_class": set(),
    "lazy_ignores": set(),
}
NOT_SECTIONS = {"project_root", "_project_root"}  # orchestrator-provided entries of the metadata dict, not config sections


# ------------------------------------------------------------------ extraction
def _is_meta_expr(e, mlike, meta_funcs):
    if isinstance(e, ast.Attribute) and e.attr == "metadata":
        return True
    if isinstance(e, ast.Name) and e.id in mlike:
        return True
    if isinstance(e, ast.Call):
        f = e.func
        name = f.id if isinstance(f, ast.Name) else (f.attr if isinstance(f, ast.Attribute) else None)
        if name == "get_metadata":
            return True
        if name == "getattr" and len(e.args) >= 2 and isinstance(e.args[1], ast.Constant) and e.args[1].value == "metadata":
            return True
        if name == "dict" and e.args and _is_meta_expr(e.args[0], mlike, meta_funcs):
            return True
        if name in meta_funcs:
            return True
    if isinstance(e, ast.IfExp):
        return _is_meta_expr(e.body, mlike, meta_funcs) or _is_meta_expr(e.orelse, mlike, meta_funcs)
    if isinstance(e, ast.BoolOp):
        return any(_is_meta_expr(v, mlike, meta_funcs) for v in e.values)
    return False


def _const_strs(e, consts):
    """String constants an expression may denote (constant, tuple/list of constants, a name bound to one of those)."""
    if isinstance(e, ast.Constant) and isinstance(e.value, str):
        return [e.value]
    if isinstance(e, (ast.Tuple, ast.List)):
        out = []
        for x in e.elts:
            out.extend(_const_strs(x, consts))
        return out
    if isinstance(e, ast.Name):
        return list(consts.get(e.id, []))
    if isinstance(e, ast.IfExp):
        return _const_strs(e.body, consts) + _const_strs(e.orelse, consts)
    return []


def lookup_keys_of_module(tree):
    funcs = [n for n in ast.walk(tree) if isinstance(n, (ast.FunctionDef, ast.AsyncFunctionDef))]
    mlike, meta_funcs = set(), set()
    changed = True
    while changed:
        changed = False
        for n in ast.walk(tree):
            tgt = val = None
            if isinstance(n, ast.Assign) and len(n.targets) == 1:
                tgt, val = n.targets[0], n.value
            elif isinstance(n, ast.AnnAssign) and n.value is not None:
                tgt, val = n.target, n.value
            if isinstance(tgt, ast.Name) and tgt.id not in mlike and _is_meta_expr(val, mlike, meta_funcs):
                mlike.add(tgt.id)
                changed = True
        for f in funcs:
            if f.name in meta_funcs:
                continue
            if any(isinstance(r, ast.Return) and r.value is not None and _is_meta_expr(r.value, mlike, meta_funcs)
                   for r in ast.walk(f)):
                meta_funcs.add(f.name)
                changed = True
    # names bound to constant strings / tuples of them, and loop variables over those
    consts = {}
    for _ in range(3):
        for n in ast.walk(tree):
            if isinstance(n, ast.Assign) and len(n.targets) == 1 and isinstance(n.targets[0], ast.Name):
                v = _const_strs(n.value, consts)
                if v:
                    consts.setdefault(n.targets[0].id, [])
                    consts[n.targets[0].id] = sorted(set(consts[n.targets[0].id]) | set(v))
            if isinstance(n, (ast.For, ast.comprehension)) and isinstance(n.target, ast.Name):
                v = _const_strs(n.iter, consts)
                if v:
                    consts.setdefault(n.target.id, [])
                    consts[n.target.id] = sorted(set(consts[n.target.id]) | set(v))
    keys = set()
    for n in ast.walk(tree):
        if isinstance(n, ast.Call):
            f = n.func
            name = f.id if isinstance(f, ast.Name) else (f.attr if isinstance(f, ast.Attribute) else None)
            if name == "load_linter_config" and len(n.args) >= 2:
                keys.update(_const_strs(n.args[1], consts))
            if name in ("get", "pop", "setdefault") and isinstance(f, ast.Attribute) and n.args \
                    and _is_meta_expr(f.value, mlike, meta_funcs):
                keys.update(_const_strs(n.args[0], consts))
            if name == "get_metadata_value" and len(n.args) >= 2:
                keys.update(_const_strs(n.args[1], consts))
        if isinstance(n, ast.Subscript) and _is_meta_expr(n.value, mlike, meta_funcs):
            keys.update(_const_strs(n.slice, consts))
        if isinstance(n, ast.Compare) and len(n.ops) == 1 and isinstance(n.ops[0], (ast.In, ast.NotIn)) \
                and _is_meta_expr(n.comparators[0], mlike, meta_funcs):
            keys.update(_const_strs(n.left, consts))
    for f in funcs:
        if f.name == "_config_key":
            for r in ast.walk(f):
                if isinstance(r, ast.Return) and r.value is not None:
                    keys.update(_const_strs(r.value, consts))
    return keys - NOT_SECTIONS


def rule_classes_of_module(tree):
    """Concrete rule classes: classes that define a `rule_id` property."""
    out = []
    for n in ast.walk(tree):
        if isinstance(n, ast.ClassDef) and any(isinstance(m, ast.FunctionDef) and m.name == "rule_id" for m in n.body):
            out.append(n.name)
    return out


def scan_packages(repo):
    base = os.path.join(repo, "src", "linters")
    result = {}
    for pkg in sorted(os.listdir(base)):
        d = os.path.join(base, pkg)
        if not os.path.isdir(d) or pkg.startswith("_"):
            continue
        keys, rules = set(), []
        for root, _dirs, files in os.walk(d):
            for fn in sorted(files):
                if fn.endswith(".py"):
                    with open(os.path.join(root, fn), encoding="utf-8") as fh:
                        tree = ast.parse(fh.read())
                    keys |= lookup_keys_of_module(tree)
                    rules += rule_classes_of_module(tree)
        if rules:
            result[pkg] = (keys, sorted(rules))
    return result


def real_normalise(repo, section):
    """The key the real loader produces for a top-level section name (src/core/config_parser.py, current source)."""
    os.environ.setdefault("VERIF_REPO", repo)
    from pyvc.native import call_target
    out = call_target("src/core/config_parser.py::_normalize_config_keys", {section: {}})
    return list(out)[0]


def spellings(section):
    return sorted({section.replace("_", "-"), section.replace("-", "_")})


@custom("c05-key-coherence", props=["C05"])
def key_coherence(ctx):
    repo = ctx["repo"]
    t0 = time.time()
    found = scan_packages(repo)
    obs = []

    def ob(name, ok, note, verdict=None):
        obs.append({"name": f"custom:c05-key-coherence/{name}", "kind": "custom", "verdict": verdict or ("discharged" if ok else "refuted"),
                    "solver": "ast-scan", "ms": round((time.time() - t0) * 1000, 1), "note": note, "carries": True,
                    "witness_confirmed": not ok, "witness": note if not ok else None})

    for pkg, (keys, rules) in found.items():
        if pkg not in DOCUMENTED:
            ob(f"documented/{pkg}", False, f"linter package {pkg} (rules {rules}) has no row in the documented-section table",
               verdict="unknown")
            continue
        for section in DOCUMENTED[pkg]:
            for s in spellings(section):
                nk = real_normalise(repo, s)
                ok = nk in keys
                ob(f"{s}/{pkg}:{section}", ok,
                   f"section `{s}:` is handed to rules as metadata[{nk!r}]; {pkg} ({', '.join(rules)}) looks up {sorted(keys)}")
    for pkg in DOCUMENTED:
        if pkg not in found:
            ob(f"documented/{pkg}", False, f"documented linter package {pkg} defines no rule class in the current source",
               verdict="unknown")
    for pkg, expect in ADJUSTED.items():
        keys = found.get(pkg, (None, []))[0]
        ob(f"adjusted/{pkg}", keys == expect, f"{pkg} looks up exactly {sorted(expect)} (finding-adjusted); found {sorted(keys) if keys is not None else None}")
    return obs


# =================================================================== top-level `ignore:` honoured from every carrier
# SPEC (property text): ".thailint.yaml, .thailint.json, pyproject.toml [tool.thailint] or passed with --config ... the
# top-level ignore list is honoured the same way in all of them."
CARRIERS = [".thailint.yaml", ".thailint.json", "pyproject.toml", "--config"]
ADJUSTED_IGNORE_FILES = {".thailintignore", ".thailint.yaml"}


def ignore_sources(repo):
    """(file names _load_repo_ignores joins to the project root, does the orchestrator consult config['ignore']?)."""
    with open(os.path.join(repo, "src/linter_config/ignore.py"), encoding="utf-8") as fh:
        tree = ast.parse(fh.read())
    files = set()
    for f in ast.walk(tree):
        if isinstance(f, ast.FunctionDef) and f.name == "_load_repo_ignores":
            for n in ast.walk(f):
                if isinstance(n, ast.BinOp) and isinstance(n.op, ast.Div) and isinstance(n.right, ast.Constant) \
                        and isinstance(n.right.value, str):
                    files.add(n.right.value)
    with open(os.path.join(repo, "src/orchestrator/core.py"), encoding="utf-8") as fh:
        otree = ast.parse(fh.read())
    consults = False
    for n in ast.walk(otree):
        base = None
        if isinstance(n, ast.Subscript) and isinstance(n.slice, ast.Constant) and n.slice.value == "ignore":
            base = n.value
        if isinstance(n, ast.Call) and isinstance(n.func, ast.Attribute) and n.func.attr == "get" and n.args \
                and isinstance(n.args[0], ast.Constant) and n.args[0].value == "ignore":
            base = n.func.value
        if base is not None and isinstance(base, ast.Attribute) and base.attr == "config":
            consults = True
    return files, consults


@custom("c05-ignore-carriers", props=["C05"])
def ignore_carriers(ctx):
    t0 = time.time()
    files, consults = ignore_sources(ctx["repo"])
    obs = []
    for carrier in CARRIERS:
        ok = consults or carrier in files
        note = (f"top-level `ignore:` written in {carrier}: repository ignore patterns are read from {sorted(files)} only and "
                f"the orchestrator {'consults' if consults else 'never consults'} the loaded config's `ignore` key")
        obs.append({"name": f"custom:c05-ignore-carriers/{carrier}/top-level-ignore", "kind": "custom", "verdict": "discharged" if ok else "refuted",
                    "solver": "ast-scan", "ms": round((time.time() - t0) * 1000, 1), "note": note, "carries": True,
                    "witness_confirmed": not ok, "witness": None if ok else note})
    ok = files == ADJUSTED_IGNORE_FILES and not consults
    obs.append({"name": "custom:c05-ignore-carriers/adjusted", "kind": "custom", "verdict": "discharged" if ok else "refuted",
                "solver": "ast-scan", "ms": round((time.time() - t0) * 1000, 1), "carries": True,
                "note": f"finding-adjusted: ignore patterns come from exactly {sorted(ADJUSTED_IGNORE_FILES)}; found {sorted(files)}, "
                        f"config consulted: {consults}"})
    return obs


# =================================================================== documented options are consulted by the code
# SPEC side, parsed from the user documentation on every run:
#   * option tables of docs/<linter>-linter.md   (rows  | `option` | type | default | description |)
#   * the uncommented keys `  option:` of each section of src/templates/thailint_config_template.yaml
# Code side: the string constants the linter package uses to read a dict  (X.get("k"), X["k"], "k" in X, and the
# key arguments of the method-property _load_* helpers).  Obligation, one per (package, documented option):
# the option's first path component is read somewhere in the package -- otherwise the documented switch or threshold
# cannot possibly take effect.  (That a consulted option has the documented EFFECT is what the from_dict contracts of
# contracts/c05_config.py and the decision contracts of the other properties state.)
import re as _re  # noqa: E402

DOC_FILES = {
    "blocking-async": "blocking_async", "clone-abuse": "clone_abuse", "collection-pipeline": "collection_pipeline",
    "cqs": "cqs", "dry": "dry", "file-header": "file_header", "file-placement": "file_placement",
    "improper-logging": "print_statements", "lazy-ignores": "lazy_ignores", "lbyl": "lbyl", "magic-numbers": "magic_numbers",
    "method-property": "method_property", "nesting": "nesting", "performance": "performance",
    "print-statements": "print_statements", "srp": "srp", "stateless-class": "stateless_class",
    "stringly-typed": "stringly_typed", "unwrap-abuse": "unwrap_abuse",
}
ROW = _re.compile(r"^\|\s*`([a-z_][a-z0-9_.\-]*)`\s*\|\s*(boolean|integer|array|string|object|list|int|bool|number|dict)[^|]*\|")
ADJUSTED_UNREAD = {
    "file_header": {"check_atemporal", "enabled", "mandatory_fields", "recommended_fields"},
    "performance": {"regex-in-loop.enabled", "string-concat-loop.enabled", "string-concat-loop.report_each_concat",
                    "regex-in-loop", "string-concat-loop"},
    "collection_pipeline": {"suggest_comprehension", "suggest_filter"},
    "dry": {"python_min_constant_occurrences", "typescript_min_constant_occurrences", "cache_enabled", "cache_path"},
    "lazy_ignores": {"enabled"},
    "file_placement": {"enabled", "rules"},
}


def documented_options(repo):
    """package -> {option: where documented}."""
    out = {}
    for doc, pkg in DOC_FILES.items():
        p = os.path.join(repo, "docs", f"{doc}-linter.md")
        if not os.path.exists(p):
            continue
        with open(p, encoding="utf-8") as fh:
            for line in fh:
                m = ROW.match(line)
                if m:
                    out.setdefault(pkg, {}).setdefault(m.group(1), f"docs/{doc}-linter.md")
    sec2pkg = {s: pkg for pkg, names in DOCUMENTED.items() for s in names}
    cur = None
    with open(os.path.join(repo, "src/templates/thailint_config_template.yaml"), encoding="utf-8") as fh:
        for line in fh:
            m = _re.match(r"^([a-z][a-z0-9_-]*):", line)
            if m:
                cur = sec2pkg.get(m.group(1))
                continue
            m = _re.match(r"^  ([a-z_][a-z0-9_-]*):", line)
            if m and cur is not None:
                out.setdefault(cur, {}).setdefault(m.group(1), "src/templates/thailint_config_template.yaml")
    return out


def read_keys_of_package(repo, pkg):
    keys = set()
    for root, _dirs, files in os.walk(os.path.join(repo, "src", "linters", pkg)):
        for fn in files:
            if not fn.endswith(".py"):
                continue
            with open(os.path.join(root, fn), encoding="utf-8") as fh:
                tree = ast.parse(fh.read())
            for n in ast.walk(tree):
                if isinstance(n, ast.Call) and isinstance(n.func, ast.Attribute) and n.func.attr in ("get", "pop", "setdefault") \
                        and n.args and isinstance(n.args[0], ast.Constant) and isinstance(n.args[0].value, str):
                    keys.add(n.args[0].value)
                if isinstance(n, ast.Subscript) and isinstance(n.slice, ast.Constant) and isinstance(n.slice.value, str):
                    keys.add(n.slice.value)
                if isinstance(n, ast.Compare) and len(n.ops) == 1 and isinstance(n.ops[0], (ast.In, ast.NotIn)) \
                        and isinstance(n.left, ast.Constant) and isinstance(n.left.value, str):
                    keys.add(n.left.value)
                if isinstance(n, ast.Call) and isinstance(n.func, ast.Name) and n.func.id.startswith("_load_"):
                    keys.update(a.value for a in n.args[1:3] if isinstance(a, ast.Constant) and isinstance(a.value, str))
    return keys


@custom("c05-documented-options", props=["C05"])
def documented_options_are_read(ctx):
    repo = ctx["repo"]
    t0 = time.time()
    docs = documented_options(repo)
    obs = []

    def ob(name, ok, note):
        obs.append({"name": f"custom:c05-documented-options/{name}", "kind": "custom", "verdict": "discharged" if ok else "refuted",
                    "solver": "ast-scan", "ms": round((time.time() - t0) * 1000, 1), "note": "" if ok else note, "carries": True,
                    "witness_confirmed": not ok, "witness": None if ok else note})

    unread_by_pkg = {}
    for pkg in sorted(docs):
        keys = read_keys_of_package(repo, pkg)
        for opt, where in sorted(docs[pkg].items()):
            ok = opt.split(".")[0] in keys
            if not ok:
                unread_by_pkg.setdefault(pkg, set()).add(opt)
            ob(f"{opt}@{pkg}", ok, f"option `{opt}` of {pkg} is documented in {where} but no code of src/linters/{pkg} reads a key "
                                   f"{opt.split('.')[0]!r} from any dict")
    for pkg, expect in sorted(ADJUSTED_UNREAD.items()):
        got = unread_by_pkg.get(pkg, set())
        ob(f"adjusted/{pkg}", got == expect, f"finding-adjusted: the documented options of {pkg} that nothing reads are exactly "
                                             f"{sorted(expect)}; found {sorted(got)}")
    return obs


# =================================================================== the configuration path keeps no hidden state
# Property text (C05 / C08): the configuration a rule sees for a file is determined by the loaded config and that file
# (its language) -- "honoured identically ... for every linter", "results depend only on current contents and config".
# The functions that turn the loaded config into a rule's config object must therefore be functions of their arguments:
# they may not read MODULE-LEVEL MUTABLE STATE (a memo of "the last config built", a registry filled as a side effect...),
# because such state survives from one file to the next within a run. Mechanical check over the modules on that path:
#   a module-level name counts as mutable state when some function of the module declares it `global`, or it is bound
#   to a mutable container (dict/list/set display or constructor) AND the module mutates it somewhere (item store /
#   delete, mutating method, augmented assignment); caching decorators (functools.cache / lru_cache) on a function
#   count as hidden state too. Constant tables that are only read are fine.
CONFIG_PATH_MODULES = ["src/core/linter_utils.py", "src/core/config_parser.py", "src/linter_config/loader.py", "src/core/base.py",
                       "src/core/python_lint_rule.py"]
MUTATORS = {"append", "extend", "add", "update", "clear", "setdefault", "pop", "popitem", "insert", "remove", "discard",
            "sort", "reverse", "__setitem__", "__delitem__"}
CONTAINER_CTORS = {"dict", "list", "set", "defaultdict", "OrderedDict", "Counter", "deque", "WeakKeyDictionary",
                   "WeakValueDictionary"}


def _root_name(e):
    while isinstance(e, (ast.Subscript, ast.Attribute)):
        e = e.value
    return e.id if isinstance(e, ast.Name) else None


def hidden_state_of_module(tree):
    """(mutable module-level names, {function name: names it touches}, [functions with caching decorators])."""
    top = {}
    for st in tree.body:
        tgt = val = None
        if isinstance(st, ast.Assign) and len(st.targets) == 1:
            tgt, val = st.targets[0], st.value
        elif isinstance(st, ast.AnnAssign) and st.value is not None:
            tgt, val = st.target, st.value
        if isinstance(tgt, ast.Name):
            is_container = isinstance(val, (ast.Dict, ast.List, ast.Set, ast.DictComp, ast.ListComp, ast.SetComp)) or (
                isinstance(val, ast.Call) and (getattr(val.func, "id", None) or getattr(val.func, "attr", None)) in CONTAINER_CTORS)
            top[tgt.id] = is_container
    mutated, globals_ = set(), set()
    for n in ast.walk(tree):
        if isinstance(n, ast.Global):
            globals_.update(n.names)
        if isinstance(n, (ast.Assign, ast.AugAssign, ast.AnnAssign, ast.Delete)):
            tgts = n.targets if isinstance(n, (ast.Assign, ast.Delete)) else [n.target]
            for t in tgts:
                if isinstance(t, (ast.Subscript, ast.Attribute)) or isinstance(n, ast.AugAssign):
                    r = _root_name(t)
                    if r:
                        mutated.add(r)
        if isinstance(n, ast.Call) and isinstance(n.func, ast.Attribute) and n.func.attr in MUTATORS:
            r = _root_name(n.func.value)
            if r:
                mutated.add(r)
    state = {name for name, is_c in top.items() if (is_c and name in mutated)} | (globals_ & set(top)) | globals_
    touched, cached = {}, []
    for f in ast.walk(tree):
        if not isinstance(f, (ast.FunctionDef, ast.AsyncFunctionDef)):
            continue
        local = {a.arg for a in f.args.args + f.args.kwonlyargs + f.args.posonlyargs}
        for n in ast.walk(f):
            if isinstance(n, ast.Name) and isinstance(n.ctx, ast.Store):
                local.add(n.id)
        declared_global = {x for n in ast.walk(f) if isinstance(n, ast.Global) for x in n.names}
        names = {n.id for n in ast.walk(f) if isinstance(n, ast.Name)}
        hit = sorted((names & state) - (local - declared_global))
        if hit:
            touched[f.name] = hit
        for d in f.decorator_list:
            dn = d.func if isinstance(d, ast.Call) else d
            dname = getattr(dn, "id", None) or getattr(dn, "attr", None)
            if dname in ("cache", "lru_cache", "cached_property"):
                cached.append(f.name)
    return state, touched, cached


def config_path_modules(repo):
    mods = list(CONFIG_PATH_MODULES)
    base = os.path.join(repo, "src", "linters")
    for pkg in sorted(os.listdir(base)):
        p = os.path.join(base, pkg, "config.py")
        if os.path.exists(p):
            mods.append(f"src/linters/{pkg}/config.py")
    return mods


LOADER_NAMES = ("_load_config", "_get_config", "_get_config_dict", "_try_load_test_config", "_try_load_production_config")


@custom("c05-config-path-stateless", props=["C05", "C08"])
def config_path_stateless(ctx):
    repo = ctx["repo"]
    t0 = time.time()
    obs = []

    def ob(name, ok, note):
        obs.append({"name": f"custom:c05-config-path-stateless/{name}", "kind": "custom", "verdict": "discharged" if ok else "refuted",
                    "solver": "ast-scan", "ms": round((time.time() - t0) * 1000, 1), "note": "" if ok else note, "carries": True,
                    "witness_confirmed": not ok, "witness": None if ok else note})

    for rel in config_path_modules(repo):
        p = os.path.join(repo, rel)
        if not os.path.exists(p):
            ob(rel, False, f"{rel} is missing")
            continue
        with open(p, encoding="utf-8") as fh:
            tree = ast.parse(fh.read())
        state, touched, cached = hidden_state_of_module(tree)
        ok = not touched and not cached
        ob(rel, ok, f"{rel}: functions {sorted(touched)} use module-level mutable state {sorted(state)}"
                    f"{'; caching decorators on ' + str(cached) if cached else ''} -- the config built for a file would depend "
                    f"on earlier files of the run")
    # the per-rule loader methods of every linter package
    base = os.path.join(repo, "src", "linters")
    for pkg in sorted(os.listdir(base)):
        d = os.path.join(base, pkg)
        if not os.path.isdir(d) or pkg.startswith("_"):
            continue
        bad = []
        for root, _dirs, files in os.walk(d):
            for fn in sorted(files):
                if not fn.endswith(".py") or fn == "config.py":
                    continue
                with open(os.path.join(root, fn), encoding="utf-8") as fh:
                    tree = ast.parse(fh.read())
                state, touched, cached = hidden_state_of_module(tree)
                for f in LOADER_NAMES:
                    if f in touched:
                        bad.append(f"{fn}::{f} uses {touched[f]}")
                    if f in cached:
                        bad.append(f"{fn}::{f} has a caching decorator")
        ob(f"src/linters/{pkg}/<config loaders>", not bad, f"{pkg}: {'; '.join(bad)}")
    return obs


# ---- bounded native differential for the same clause (labelled bounded; never counted as proved): for every config class
# with a from_dict, the generic loader called for a SEQUENCE of files of different languages that share one section object
# must give, for each file, what a fresh from_dict(section, language) gives -- and must leave the section untouched.
@custom("c05-loader-history-independent", props=["C05", "C08", "C10"])
def loader_history_independent(ctx):
    import copy
    import dataclasses
    import importlib
    import sys
    import types
    repo = ctx["repo"]
    t0 = time.time()
    if repo in sys.path:
        sys.path.remove(repo)
    sys.path.insert(0, repo)
    for name in [n for n in sys.modules if n == "src" or n.startswith("src.")]:
        f = getattr(sys.modules[name], "__file__", "") or ""
        if f and not os.path.abspath(f).startswith(os.path.abspath(repo) + os.sep):
            del sys.modules[name]
    bad, cases = [], 0
    try:
        lu = importlib.import_module("src.core.linter_utils")
        base = os.path.join(repo, "src", "linters")
        for pkg in sorted(os.listdir(base)):
            if not os.path.exists(os.path.join(base, pkg, "config.py")):
                continue
            mod = importlib.import_module(f"src.linters.{pkg}.config")
            for cls in [c for c in vars(mod).values() if isinstance(c, type) and dataclasses.is_dataclass(c)
                        and c.__module__ == mod.__name__ and hasattr(c, "from_dict")]:
                ints = [f.name for f in dataclasses.fields(cls) if f.type in (int, "int")]
                bools = [f.name for f in dataclasses.fields(cls) if f.type in (bool, "bool") and f.name != "enabled"]
                section = {"enabled": True}
                for i, f in enumerate(ints):
                    section[f] = 5 + i
                section["python"] = {f: 3 for f in ints} | {f: False for f in bools[:1]}
                section["typescript"] = {f: 4 for f in ints[:1]}
                pristine = copy.deepcopy(section)
                for order in (("python", "typescript", "rust"), ("typescript", "rust", "python"), ("rust", "python", "typescript")):
                    for lang in order:
                        cases += 1
                        c = types.SimpleNamespace(metadata={pkg: section}, language=lang, file_path=None, file_content="")
                        try:
                            got = lu.load_linter_config(c, pkg, cls)
                            try:
                                want = cls.from_dict(copy.deepcopy(pristine), language=lang)
                            except TypeError:
                                want = cls.from_dict(copy.deepcopy(pristine))
                        except Exception as e:  # noqa
                            bad.append(f"{cls.__name__}[{lang}]: {type(e).__name__}: {e}")
                            continue
                        if got != want:
                            bad.append(f"{cls.__name__}: after files {order[:order.index(lang)]} a {lang} file gets {got} instead of {want}")
                        if section != pristine:
                            bad.append(f"{cls.__name__}: loading the config of a {lang} file changed the shared section dict to {section}")
                            section = copy.deepcopy(pristine)
    except BaseException as e:  # noqa
        bad.append(f"harness error {type(e).__name__}: {e}")
    return [{"name": "custom:c05-loader-history-independent/all-config-classes", "kind": "bounded",
             "verdict": "refuted" if bad else "passed", "tool": "native differential", "budget": f"{cases} loads", "cases": cases,
             "note": "; ".join(bad)[:700], "solver": "native", "ms": round((time.time() - t0) * 1000, 1),
             "witness_confirmed": bool(bad), "witness": "; ".join(bad)[:700] or None}]


# =================================================================== bounded differential at the observation point (a net under
# the contracts, never counted as proved): whole runs of the real Orchestrator on generated configurations.
# Oracle, from the property text only:
#   carriers   the same configuration in .thailint.yaml, .thailint.json and pyproject.toml [tool.thailint] gives the same
#              violations; a file passed with --config (through the real cli.utils.load_config_file) behaves like the same
#              file as the project's only configuration, even when the project has its own config with other sections
#   spelling   `magic-numbers:` and `magic_numbers:` give the same violations
#   language   the configuration applied to a file depends on its LANGUAGE only: an extensionless script with a python
#              shebang gets the violations of the identical .py file (per-language overrides included)
#   order      linting [a, b] and [b, a] gives the same violations (no configuration leaks from one file to the next)
#   enabled    `enabled: false` in a section silences exactly that linter
@custom("c05-run-differential", props=["C05"])
def run_differential(ctx):
    import importlib
    import json as _json
    import random
    import sys
    import tempfile
    from pathlib import Path
    repo, seed, tier = ctx["repo"], int(ctx.get("seed", 0) or 0), ctx.get("tier", "quick")
    t0 = time.time()
    rng = random.Random(seed * 7919 + 5)
    if repo in sys.path:
        sys.path.remove(repo)
    sys.path.insert(0, repo)
    for name in [n for n in sys.modules if n == "src" or n.startswith("src.")]:
        f = getattr(sys.modules[name], "__file__", "") or ""
        if f and not os.path.abspath(f).startswith(os.path.abspath(repo) + os.sep):
            del sys.modules[name]
    bad, runs = [], 0
    PY = ("class Thing:\n" + "".join(f"    def m{i}(self, x):\n        return x + {i + 11}\n\n" for i in range(4))
          + "\ndef deep(x):\n    if x > 0:\n        for i in range(x):\n            while i:\n                if i == 7:\n"
            "                    return 77\n    return 0\n")
    TS = "export function f(x: number): number {\n  if (x > 0) {\n    for (let i = 0; i < x; i++) {\n      if (i === 3) {\n" \
         "        return 4242;\n      }\n    }\n  }\n  return 0;\n}\n"
    WATCHED = ("nesting", "srp", "magic-numbers")

    def toml_of(cfg):
        out = []
        for sec, body in cfg.items():
            flat = {k: v for k, v in body.items() if not isinstance(v, dict)}
            out.append(f"[tool.thailint.{sec}]\n" + "".join(f"{k} = {_json.dumps(v)}\n" for k, v in flat.items()))
            for k, v in body.items():
                if isinstance(v, dict):
                    out.append(f"[tool.thailint.{sec}.{k}]\n" + "".join(f"{kk} = {_json.dumps(vv)}\n" for kk, vv in v.items()))
        return "\n".join(out)

    try:
        core = importlib.import_module("src.orchestrator.core")
        ign = importlib.import_module("src.linter_config.ignore")
        import yaml

        cli_utils = importlib.import_module("src.cli.utils")

        def lint(cfg, carrier, files, order=None, project_cfg=None):
            nonlocal runs
            runs += 1
            with tempfile.TemporaryDirectory() as d:
                root = Path(d)
                if carrier == "yaml":
                    (root / ".thailint.yaml").write_text(yaml.dump(cfg, sort_keys=False), encoding="utf-8")
                elif carrier == "json":
                    (root / ".thailint.json").write_text(_json.dumps(cfg), encoding="utf-8")
                elif carrier == "--config":
                    # the project HAS its own auto-discovered configuration; the run is given another file with --config
                    (root / ".thailint.yaml").write_text(yaml.dump(project_cfg, sort_keys=False), encoding="utf-8")
                    (root / "given.yaml").write_text(yaml.dump(cfg, sort_keys=False), encoding="utf-8")
                else:
                    (root / "pyproject.toml").write_text(toml_of(cfg), encoding="utf-8")
                for name, text in files.items():
                    (root / name).write_text(text, encoding="utf-8")
                ign.clear_ignore_parser_cache()
                orch = core.Orchestrator(project_root=root)
                if carrier == "--config":
                    cli_utils.load_config_file(orch, str(root / "given.yaml"), False)  # what every command does for --config
                vs = []
                for name in (order or sorted(files)):
                    vs.extend(orch.lint_file(root / name))
                return sorted((v.rule_id, Path(v.file_path).name, v.message) for v in vs if v.rule_id.split(".")[0] in WATCHED)

        n = 2 if tier == "quick" else 6
        for i in range(n):
            # per-language overrides that DIFFER from the top-level value, alternately stricter and more permissive
            lo, hi = rng.randint(1, 2), rng.randint(3, 4)
            depth, pydepth = (hi, lo) if i % 2 == 0 else (lo, hi)
            lo, hi = rng.randint(1, 3), rng.randint(4, 6)
            methods, pymethods = (hi, lo) if i % 2 == 0 else (lo, hi)
            allowed = sorted(rng.sample([0, 1, 7, 11, 12, 13, 14, 77, 4242], rng.randint(0, 5)))
            cfg = {"nesting": {"max_nesting_depth": depth, "python": {"max_nesting_depth": pydepth}},
                   "srp": {"max_methods": methods, "python": {"max_methods": pymethods}},
                   "magic-numbers": {"allowed_numbers": allowed, "python": {"allowed_numbers": sorted(set(allowed) ^ {11, 77})}}}
            files = {"a.py": PY, "b.ts": TS}
            base = lint(cfg, "yaml", files)
            for carrier in ("json", "toml"):
                got = lint(cfg, carrier, files)
                if got != base:
                    bad.append(f"carriers: {cfg} gives {len(base)} violations from .thailint.yaml and {len(got)} from {carrier}")
            # --config: the given file IS the configuration, whatever the project's own config says about OTHER sections
            # (a section missing from the given file falls back to the defaults, not to the project's file)
            strictest = {"nesting": {"max_nesting_depth": 1}, "srp": {"max_methods": 1}, "magic-numbers": {"allowed_numbers": []}}
            for omitted in sorted(cfg):
                given = {k: v for k, v in cfg.items() if k != omitted}
                project = {omitted: strictest[omitted] if rng.random() < 0.5 else {"enabled": False}}
                project.update({k: strictest[k] for k in cfg if k != omitted})
                if lint(given, "--config", files, project_cfg=project) != lint(given, "yaml", files):
                    bad.append(f"--config: {given} passed with --config in a project whose own .thailint.yaml is {project} does "
                               f"not behave like the same file as the only configuration")
                    break
            under = dict(cfg)
            under["magic_numbers"] = under.pop("magic-numbers")
            if lint(under, "yaml", files) != base:
                bad.append(f"spelling: magic_numbers: vs magic-numbers: differ for {cfg}")
            if lint(cfg, "yaml", files, order=["b.ts", "a.py"]) != base:
                bad.append(f"order: linting b.ts before a.py changes the violations for {cfg}")
            script = lint(cfg, "yaml", {"tool": "#!/usr/bin/env python3\n" + PY})
            plain = lint(cfg, "yaml", {"tool.py": PY})
            if [(r, m) for r, _f, m in script] != [(r, m) for r, _f, m in plain]:
                bad.append(f"language: a python-shebang script gets {len(script)} violations, the identical .py file {len(plain)}, under {cfg}")
            # reuse: ONE long-lived Orchestrator -- a second call gives the same result, and after the file was edited the
            # same object gives what a fresh Orchestrator gives for the new content (nothing stale survives between calls)
            runs += 1
            with tempfile.TemporaryDirectory() as d:
                root = Path(d)
                (root / ".thailint.yaml").write_text(yaml.dump(cfg, sort_keys=False), encoding="utf-8")
                (root / "a.py").write_text(PY, encoding="utf-8")
                (root / "b.ts").write_text(TS, encoding="utf-8")
                ign.clear_ignore_parser_cache()
                orch = core.Orchestrator(project_root=root)
                key = lambda vs: sorted((v.rule_id, Path(v.file_path).name, v.line, v.message) for v in vs  # noqa: E731
                                        if v.rule_id.split(".")[0] in WATCHED)
                first = key(orch.lint_file(root / "a.py") + orch.lint_file(root / "b.ts"))
                second = key(orch.lint_file(root / "a.py") + orch.lint_file(root / "b.ts"))
                if first != second:
                    bad.append(f"reuse: the second call on the same Orchestrator differs from the first under {cfg}")
                (root / "a.py").write_text("def small(x):\n    return x\n", encoding="utf-8")
                edited = key(orch.lint_file(root / "a.py"))
                fresh = key(core.Orchestrator(project_root=root).lint_file(root / "a.py"))
                if edited != fresh:
                    bad.append(f"reuse: after editing a.py the long-lived Orchestrator reports {len(edited)} violations, a fresh one {len(fresh)}")
            off = rng.choice(["nesting", "srp", "magic-numbers"])
            cfg2 = {k: dict(v) for k, v in cfg.items()}
            cfg2[off]["enabled"] = False
            got = lint(cfg2, "yaml", files)
            want = [v for v in base if v[0].split(".")[0] != off]
            if got != want:
                bad.append(f"enabled: `{off}: enabled: false` leaves {len(got)} violations, expected {len(want)}")
    except BaseException as e:  # noqa
        bad.append(f"harness error {type(e).__name__}: {e}")
    return [{"name": "custom:c05-run-differential/orchestrator-runs", "kind": "bounded", "verdict": "refuted" if bad else "passed",
             "tool": "native differential (Orchestrator runs)", "budget": f"{runs} runs, seed {seed}", "cases": runs,
             "note": "; ".join(bad)[:800], "solver": "native", "ms": round((time.time() - t0) * 1000, 1),
             "witness_confirmed": bool(bad), "witness": "; ".join(bad)[:800] or None}]


# =================================================================== module-level mutable defaults never escape un-copied
# A module-level mutable container (DEFAULT_CONFIG, CONFIG_LOCATIONS, DEFAULT_IGNORE_PATTERNS, ...) is process-wide
# state. Reading it is fine; handing the OBJECT ITSELF to a caller is not: the caller's later stores (config set writes
# into the loaded dict before validating) would rewrite the defaults for every later command of the process. Mechanical
# rule over the configuration modules: every use of such a name must be non-escaping --
#   X.copy() / X.get(..) / X.items() ... , X[...] (read), `k in X`, iteration, len/dict/list/set/tuple/sorted/deepcopy(X),
#   X + y / X | y (new object), {**X} / [*X], a `.get(k, X)` default whose call is itself wrapped in a copying constructor;
# `return X`, `y = X`, passing X to another function, storing X in a container or attribute are escapes.
DEFAULTS_MODULES = ["src/config.py", "src/cli/config.py", "src/cli/config_merge.py"]
SAFE_ATTRS = {"copy", "get", "items", "keys", "values", "index", "count", "union", "intersection", "difference", "issubset",
              "issuperset", "isdisjoint", "__contains__"}
COPYING_CALLS = {"dict", "list", "set", "tuple", "frozenset", "sorted", "len", "deepcopy", "any", "all", "sum", "min", "max",
                 "enumerate", "zip", "isinstance", "str", "repr", "bool", "iter", "reversed"}


def mutable_module_names(tree):
    out = set()
    for st in tree.body:
        tgt = val = None
        if isinstance(st, ast.Assign) and len(st.targets) == 1:
            tgt, val = st.targets[0], st.value
        elif isinstance(st, ast.AnnAssign) and st.value is not None:
            tgt, val = st.target, st.value
        if isinstance(tgt, ast.Name) and (isinstance(val, (ast.Dict, ast.List, ast.Set, ast.DictComp, ast.ListComp, ast.SetComp)) or (
                isinstance(val, ast.Call) and (getattr(val.func, "id", None) or getattr(val.func, "attr", None)) in CONTAINER_CTORS)):
            out.add(tgt.id)
    return out


def escapes_of_module(tree, tracked):
    """[(function, name, line)] uses of tracked module-level mutable names that let the object itself escape."""
    parent = {}
    for n in ast.walk(tree):
        for c in ast.iter_child_nodes(n):
            parent[c] = n
    out = []
    for f in ast.walk(tree):
        if not isinstance(f, (ast.FunctionDef, ast.AsyncFunctionDef)):
            continue
        local = {a.arg for a in f.args.args + f.args.kwonlyargs + f.args.posonlyargs}
        local |= {n.id for n in ast.walk(f) if isinstance(n, ast.Name) and isinstance(n.ctx, ast.Store)}
        for n in ast.walk(f):
            if not (isinstance(n, ast.Name) and isinstance(n.ctx, ast.Load) and n.id in tracked and n.id not in local):
                continue
            p = parent.get(n)
            ok = False
            if isinstance(p, ast.Attribute) and p.value is n and p.attr in SAFE_ATTRS:
                ok = True
            elif isinstance(p, ast.Subscript) and p.value is n and isinstance(p.ctx, ast.Load):
                ok = True
            elif isinstance(p, ast.Compare) and n in p.comparators and all(isinstance(o, (ast.In, ast.NotIn, ast.Eq, ast.NotEq)) for o in p.ops):
                ok = True
            elif isinstance(p, (ast.For, ast.comprehension)) and p.iter is n:
                ok = True
            elif isinstance(p, ast.Call) and n in p.args:
                fn = getattr(p.func, "id", None) or getattr(p.func, "attr", None)
                # a `.get(k, X)` default (possibly nested in further .get defaults) whose value ends up in a copying constructor
                q, wrapped = p, False
                while fn == "get" and isinstance(parent.get(q), ast.Call) and q in parent[q].args:
                    q = parent[q]
                    qfn = getattr(q.func, "id", None) or getattr(q.func, "attr", None)
                    if qfn in COPYING_CALLS:
                        wrapped = True
                        break
                    if qfn != "get":
                        break
                ok = fn in COPYING_CALLS or (fn == "get" and wrapped)
            elif isinstance(p, ast.BinOp) or isinstance(p, ast.Starred) or isinstance(p, ast.FormattedValue):
                ok = True
            elif isinstance(p, ast.Dict) and n in p.values and p.keys[p.values.index(n)] is None:
                ok = True  # {**X, ...}
            if not ok:
                out.append((f.name, n.id, n.lineno))
    return out


@custom("c05-module-defaults-do-not-escape", props=["C05", "C08", "C20"])
def module_defaults_do_not_escape(ctx):
    repo = ctx["repo"]
    t0 = time.time()
    obs = []
    mods = sorted(set(config_path_modules(repo) + DEFAULTS_MODULES))
    trees = {}
    for rel in mods:
        p = os.path.join(repo, rel)
        if os.path.exists(p):
            with open(p, encoding="utf-8") as fh:
                trees[rel] = ast.parse(fh.read())
    own = {rel: mutable_module_names(t) for rel, t in trees.items()}
    for rel, tree in trees.items():
        tracked = set(own[rel])
        for n in ast.walk(tree):  # names imported from another scanned module (`from src.config import DEFAULT_CONFIG`)
            if isinstance(n, ast.ImportFrom) and n.module:
                src_rel = n.module.replace(".", "/") + ".py"
                for a in n.names:
                    if a.name in own.get(src_rel, ()):
                        tracked.add(a.asname or a.name)
        esc = escapes_of_module(tree, tracked)
        ok = not esc
        note = f"{rel}: " + "; ".join(f"{fn}() lets the module-level mutable object {nm} escape un-copied (line {ln})" for fn, nm, ln in esc[:6])
        obs.append({"name": f"custom:c05-module-defaults-do-not-escape/{rel}", "kind": "custom", "verdict": "discharged" if ok else "refuted",
                    "solver": "ast-scan", "ms": round((time.time() - t0) * 1000, 1), "note": "" if ok else note, "carries": True,
                    "witness_confirmed": not ok, "witness": None if ok else note})
    return obs
