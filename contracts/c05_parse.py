"""C05 -- every carrier goes through the same key normalisation; an unparsable file is a ConfigParseError.

The parsers themselves (PyYAML, json, tomllib) and the file system are trusted externals: the parsed document is an
uninterpreted function of the opened file (`yaml_doc`, `json_doc`, `toml_doc` of `file_of(path)`), each call may fail
with the parser's own exception class, opening may fail with OSError."""
import json as _json
import tomllib as _tomllib

import yaml as _yaml
import z3

from pyvc.api import contract, lemma, Any, Assoc, Int, Bool, Str, Dict, Rec, Opt, Opaque, implies, call, ih, dict_put, uf
from pyvc.ex_call import external
from pyvc.run import RaiseSig
from pyvc.ty import VAny, VExc, VOpaque, ValSort, fresh_name
from contracts._common import PathT
from contracts import c09_paths  # noqa: F401  (Path.exists / Path.@suffix / Path.__truediv__ externals)
from contracts.c09_paths import fs_exists, path_div
from contracts import c11_containment  # noqa: F401  (yaml.safe_load external: uf.yaml_doc of its argument, may raise YAMLError)
from contracts.c05_config import norm_fold, norm_key

CP = "src/core/config_parser.py::"
LD = "src/linter_config/loader.py::"

FileT = Opaque("File")
FileT.context_manager = True  # `with path.open(...) as f`: closing has no modelled effect and swallows nothing


def _native_open(p):
    return open(p, "rb")


file_of = uf("file_of", [PathT], FileT, concrete=_native_open)
yaml_doc = uf("yaml_doc", [FileT], Any, concrete=lambda f: _yaml.safe_load(f))
json_doc = uf("json_doc", [FileT], Any, concrete=lambda f: _json.load(f))
toml_doc = uf("toml_doc", [FileT], Any, concrete=lambda f: _tomllib.load(f))
dict_items = uf("dict_items", [Dict], Assoc(Any), concrete=lambda d: list(d.items()))


fs_open_fails = uf("fs_open_fails", [PathT], Bool, concrete=lambda p: not __import__("os").access(p, __import__("os").R_OK))
json_invalid = uf("json_invalid", [FileT], Bool)
toml_invalid = uf("toml_invalid", [FileT], Bool)


def _raise_iff(ex, cond, cls):
    """The external fails with `cls` exactly when the (uninterpreted) condition holds: one deterministic snapshot of
    the file system / file contents per verification unit, nameable in contracts."""
    if ex.merge_depth > 0 or ex.spec_depth > 0:
        return
    if ex.decide(cond):
        raise RaiseSig(VExc(cls))


@external("Path.open")
def _x_path_open(ex, args, kwargs, lineno):
    """path.open(...) -> the opaque file handle file_of(path) (mode / encoding are not modelled); OSError iff
    fs_open_fails(path)."""
    _raise_iff(ex, z3.Function("uf.fs_open_fails", PathT.sort(), z3.BoolSort())(args[0].t), "OSError")
    ex.ufs_used.update({"file_of (the open file of a path)", "fs_open_fails"})
    return VOpaque(z3.Function("uf.file_of", PathT.sort(), FileT.sort())(args[0].t), FileT)


@external("json.load")
def _x_json_load(ex, args, kwargs, lineno):
    """json.load(f) -> json_doc(f), an arbitrary dynamic value; json.JSONDecodeError iff json_invalid(f)."""
    _raise_iff(ex, z3.Function("uf.json_invalid", FileT.sort(), z3.BoolSort())(args[0].t), "JSONDecodeError")
    ex.ufs_used.add("json.load returns json_doc(file), JSONDecodeError iff json_invalid(file)")
    return VAny(z3.Function("uf.json_doc", FileT.sort(), ValSort)(args[0].t))


@external("tomllib.load")
def _x_toml_load(ex, args, kwargs, lineno):
    """tomllib.load(f) -> toml_doc(f): always a dict (a TOML document is a table); by PEP 518 `tool` and `tool.thailint`
    are tables when present (trusted shape assumption); tomllib.TOMLDecodeError iff toml_invalid(f)."""
    _raise_iff(ex, z3.Function("uf.toml_invalid", FileT.sort(), z3.BoolSort())(args[0].t), "TOMLDecodeError")
    ex.ufs_used.add("tomllib.load returns toml_doc(file) (a dict; [tool] / [tool.thailint] are tables), TOMLDecodeError iff toml_invalid(file)")
    t = z3.Function("uf.toml_doc", FileT.sort(), ValSort)(args[0].t)
    if ex.merge_depth == 0 and ex.spec_depth == 0:
        ex.assume(ValSort.is_D(t))
        tool = z3.Select(ValSort.dv(t), z3.StringVal("tool"))
        ex.assume(z3.Or(tool == ValSort.Absent, ValSort.is_D(tool)))
        th = z3.Select(ValSort.dv(tool), z3.StringVal("thailint"))
        ex.assume(z3.Implies(ValSort.is_D(tool), z3.Or(th == ValSort.Absent, ValSort.is_D(th))))
    return VAny(t)


# =================================================================== what normalisation guarantees (pure lemma)
def has_norm(items: Assoc(Any), nk: Str) -> Bool:
    """Some key of the document normalises to nk."""
    return len(items) > 0 and (norm_key(items[0][0]) == nk or has_norm(items[1:], nk))


def last_norm(items: Assoc(Any), nk: Str, dflt: Any) -> Any:
    """The value of the LAST key that normalises to nk (dflt if none)."""
    if len(items) == 0:
        return dflt
    return last_norm(items[1:], nk, items[0][1] if norm_key(items[0][0]) == nk else dflt)


def is_value(v):
    """v is a real value (not the 'key absent' marker of the dict model)."""
    return "k" in dict_put({}, "k", v)


def all_values(items: Assoc(Any)) -> Bool:
    return len(items) == 0 or (is_value(items[0][1]) and all_values(items[1:]))


@lemma(props=["C05", "C20"], types=dict(items=Assoc(Any), acc=Dict, nk=Str), name="normalised-lookup")
def normalised_lookup(items, acc, nk):
    """For every key nk: the normalised config has nk iff some document key normalises to nk (or nk was there before), and
    then holds the value of the last such key -- i.e. result[k.replace('-', '_')] == config[k] for every k whose
    normalisation is unique, and a later spelling wins over an earlier one when both are present."""
    if not all_values(items):
        return True
    r = norm_fold(items, acc)
    if len(items) == 0:
        return r == acc
    ih(normalised_lookup, items[1:], dict_put(acc, norm_key(items[0][0]), items[0][1]), nk)
    return (nk in r) == (has_norm(items, nk) or nk in acc) \
        and implies(nk in r, r[nk] == last_norm(items, nk, acc.get(nk)))


# =================================================================== parsers
@contract(CP + "parse_yaml", no_selftest=True, props=["C05", "C20", "C18"], types=dict(file_obj=FileT, path=PathT, data=Any), returns=Any,
          raises=["ConfigParseError"])
class ParseYaml:
    """Malformed YAML is a ConfigParseError (nothing else escapes); an empty document is the empty config."""

    def value(file_obj, path):
        return yaml_doc(file_obj) if yaml_doc(file_obj) is not None else {}


@contract(CP + "parse_json", no_selftest=True, props=["C05", "C20", "C18"], types=dict(file_obj=FileT, path=PathT, result=Any), returns=Any,
          raises=["ConfigParseError"])
class ParseJson:
    def value(file_obj, path):
        return json_doc(file_obj)


def tool_thailint(doc):
    """The [tool.thailint] table of a pyproject document ({} when missing)."""
    return doc.get("tool", {}).get("thailint", {})


@contract(CP + "parse_pyproject_toml", no_selftest=True, props=["C05", "C18"], types=dict(path=PathT, f=FileT, data=Any, thailint_config=Any),
          returns=Dict, raises=["ConfigParseError"])
class ParsePyprojectToml:
    """Unreadable or malformed pyproject.toml is a ConfigParseError; otherwise the NORMALISED [tool.thailint] table."""

    def raises_when(path):
        return fs_open_fails(path) or toml_invalid(file_of(path))

    def ensures_normalised_tool_thailint(path, result):
        return result == norm_fold(dict_items(tool_thailint(toml_doc(file_of(path)))), {})


def suffix_lower(path):
    return path.suffix.lower()


@contract(CP + "parse_config_file", no_selftest=True, props=["C05", "C20", "C18"], types=dict(path=PathT, encoding=Str, f=FileT, config=Any, suffix=Str),
          returns=Dict, raises=["ConfigParseError", "OSError"])
class ParseConfigFile:
    """.yaml/.yml -> YAML, .json -> JSON (extension compared lower-cased), anything else is a ConfigParseError; the
    result is the NORMALISED document in both cases. OSError from opening the file is not wrapped."""

    def requires(path, encoding):
        # the top level of the document is a mapping (a scalar / list document makes .items() fail: see report)
        return isinstance(yaml_doc(file_of(path)), dict) or yaml_doc(file_of(path)) is None

    def ensures_yaml(path, result):
        return implies(suffix_lower(path) in (".yaml", ".yml"),
                       result == norm_fold(dict_items(yaml_doc(file_of(path)) if yaml_doc(file_of(path)) is not None else {}), {}))

    def ensures_json(path, result):
        return implies(suffix_lower(path) == ".json", result == norm_fold(dict_items(json_doc(file_of(path))), {}))

    def ensures_only_supported_formats_return(path, result):
        return suffix_lower(path) in (".yaml", ".yml", ".json")

    def on_raise_unsupported_or_unparsable(path, exc_class):
        return exc_class in ("ConfigParseError", "OSError")


# =================================================================== loader
@contract(LD + "get_defaults", props=["C05"], types=dict(), returns=Dict)
class GetDefaults:
    def value():
        return {"rules": {}, "ignore": []}


@contract(LD + "load_config", no_selftest=True, props=["C05", "C18"], types=dict(config_path=PathT, pyproject_path=PathT, config=Dict), returns=Dict,
          raises=["ConfigParseError", "OSError"])
class LoadConfig:
    """Existing file: parse_config_file. Missing file: [tool.thailint] of the pyproject.toml next to it (normalised like
    every other carrier); no pyproject.toml or an empty table gives the defaults, an unreadable or malformed one is a
    ConfigParseError like any other unparsable carrier."""

    def requires(config_path):
        return isinstance(yaml_doc(file_of(config_path)), dict) or yaml_doc(file_of(config_path)) is None

    def ensures_is_the_loaded_configuration(config_path, result):
        return result == loaded(config_path)

    def ensures_missing_file_uses_pyproject(config_path, result):
        return implies(not fs_exists(config_path),
                       result == norm_fold(dict_items(tool_thailint(toml_doc(file_of(pyproject_of(config_path))))), {})
                       or result == {"rules": {}, "ignore": []})

    def ensures_malformed_pyproject_is_an_error(config_path, result):
        # property text: "an unparsable file ends the run with exit code 2 instead of silently falling back to defaults":
        # a normal return without a config file means there is no pyproject.toml, or it was readable and well-formed
        return implies(not fs_exists(config_path),
                       not fs_exists(pyproject_of(config_path))
                       or (not fs_open_fails(pyproject_of(config_path)) and not toml_invalid(file_of(pyproject_of(config_path)))))

    def ensures_no_config_anywhere_gives_defaults(config_path, result):
        return implies(not fs_exists(config_path) and not fs_exists(pyproject_of(config_path)),
                       result == {"rules": {}, "ignore": []})


path_parent = uf("path_parent", [PathT], PathT, concrete=lambda p: p.parent)


def pyproject_of(config_path):
    return path_div(path_parent(config_path), "pyproject.toml")


def parsed(path):
    """The configuration a YAML / JSON file denotes: its document with the TOP-LEVEL keys normalised (nested values --
    option names, directory names under file-placement ... -- are returned exactly as written)."""
    return norm_fold(dict_items((yaml_doc(file_of(path)) if yaml_doc(file_of(path)) is not None else {})
                                if suffix_lower(path) in (".yaml", ".yml") else json_doc(file_of(path))), {})


def pyproject_table(config_path):
    return norm_fold(dict_items(tool_thailint(toml_doc(file_of(pyproject_of(config_path))))), {})


def loaded(config_path):
    """What the loader yields for a path -- a function of the file system only: the file's configuration when it exists,
    else the [tool.thailint] table of the pyproject.toml next to it, else (no pyproject, or an empty table) the defaults."""
    return parsed(config_path) if fs_exists(config_path) else (
        pyproject_table(config_path) if fs_exists(pyproject_of(config_path)) and pyproject_table(config_path) != {}
        else {"rules": {}, "ignore": []})


@external("Path.@parent")
def _x_path_parent(ex, args, kwargs, lineno):
    ex.ufs_used.add("path_parent")
    return VOpaque(z3.Function("uf.path_parent", PathT.sort(), PathT.sort())(args[0].t), PathT)


LoaderT = Rec("LinterConfigLoader", cls=LD + "LinterConfigLoader")


@contract(LD + "LinterConfigLoader.load", no_selftest=True, props=["C05", "C18"], types=dict(self=LoaderT, config_path=PathT), returns=Dict,
          raises=["ConfigParseError", "OSError"])
class LoaderLoad:
    def requires(config_path):
        return isinstance(yaml_doc(file_of(config_path)), dict) or yaml_doc(file_of(config_path)) is None

    def ensures_is_the_loaded_configuration(config_path, result):
        return result == loaded(config_path)

    def ensures_missing_file_uses_pyproject(config_path, result):
        return implies(not fs_exists(config_path),
                       result == norm_fold(dict_items(tool_thailint(toml_doc(file_of(pyproject_of(config_path))))), {})
                       or result == {"rules": {}, "ignore": []})


# =================================================================== --config FILE replaces the discovered configuration
# Property text: the configuration may be "in .thailint.yaml, .thailint.json, pyproject.toml [tool.thailint] or passed with
# --config" and is honoured identically: a file passed with --config IS the configuration of the run -- exactly what the
# loader yields for that path; nothing of the project's auto-discovered configuration survives (no overlay).
from contracts.c09_paths import path_of_str  # noqa: E402

CliOrchT = Rec("Orchestrator", cls="src/orchestrator/core.py::Orchestrator", config=Dict, config_loader=LoaderT)


@contract("src/cli/utils.py::load_config_file~c05", no_selftest=True, props=["C05"],
          types=dict(orchestrator=CliOrchT, config_file=Str, verbose=Bool, config_path=PathT),
          raises=["SystemExit", "ConfigParseError", "OSError"], modifies=["orchestrator.config", "stderr"], exc=Int)
class LoadConfigFileReplaces:
    def requires(orchestrator, config_file, verbose):
        return isinstance(yaml_doc(file_of(path_of_str(config_file))), dict) or yaml_doc(file_of(path_of_str(config_file))) is None

    def ensures_config_is_exactly_the_loaded_file(orchestrator, config_file):
        return orchestrator.config == loaded(path_of_str(config_file))

    def on_raise_missing_file_is_exit_2(config_file, exc, exc_class):
        return implies(exc_class == "SystemExit", exc == 2 and not fs_exists(path_of_str(config_file)))
