"""C06 (part 2) -- exit codes of the linter commands (src/cli/utils.py, src/cli/linters/*.py).

Property text: "Every linter command exits 0 exactly when it reports no violation, 1 exactly when it reports at least
one, and 2 when the run itself cannot be performed (missing path, missing or malformed config, invalid option)."

Model (pyvc/effects.py, contracts/_effects.py): sys.exit(code) raises SystemExit carrying the code; click.echo appends
to the ghost streams stdout / stderr. `on_raise*` clauses are proved on every exceptional exit and assumed by callers;
`at_exit*` clauses are exit-point assertions that may name locals (ghost witnesses)."""
import z3

from pyvc.api import (contract, lemma, custom, Any, Int, Bool, Str, Dict, Opt, SeqOf, TupleOf, Rec, Opaque, implies, call, mk,
                      opaque, reveal, uf)
from pyvc import effects
from pyvc.ex_call import EXTERNALS
from pyvc.run import RaiseSig
from pyvc.ty import VExc, VInt, VNone
from contracts._common import PathT, ViolationT
from contracts.c09_paths import fs_exists, fs_is_file, fs_is_dir, path_of_str
from contracts.c05_parse import LoaderT, yaml_doc, file_of
from contracts import c05_cli  # noqa: F401  (contracts of ensure_config_section / set_config_value)
from contracts.c06_output import Violations, rendering
from contracts.c10_orchestrator import OrchT, Viols, S_out, S_gs, rules_of, fin_all
from contracts.c07_parallel import OrchInitT, sequential, project_config_loadable, goes_parallel, pool_out, workers_of
from contracts.c10_orchestrator import walk_files, ready

U = "src/cli/utils.py::"
SH = "src/cli/linters/shared.py::"
Paths = SeqOf(PathT)
ExcT = Opaque("Exception")
ExecT = Rec("ExecuteParams", cls=SH + "ExecuteParams", pycls="src.cli.linters.shared:ExecuteParams",
            path_objs=Paths, config_file=Opt(Str), format=Str, recursive=Bool, verbose=Bool, project_root=Opt(PathT),
            parallel=Bool)


# ------------------------------------------------------------------------------------------ run errors => exit 2
@contract(U + "handle_linting_error", props=["C06", "C05"], types=dict(error=ExcT, verbose=Bool),
          raises=["SystemExit"], modifies=["stderr"], exc=Int)
class HandleLintingError:
    def raises_when(error, verbose):
        return True  # never returns

    def on_raise_exit_code_2(exc):
        return exc == 2

    def on_raise_message_on_stderr(error, stderr, old):
        return stderr == old.stderr + [f"Error during linting: {error}"]


def some_missing(path_objs):
    return any(not fs_exists(p) for p in path_objs)


@contract(U + "validate_paths_exist", no_selftest=True, props=["C06"], types=dict(path_objs=Paths, path=PathT),
          raises=["SystemExit"], modifies=["stderr"], exc=Int)
class ValidatePathsExist:
    def raises_when(path_objs):
        return some_missing(path_objs)  # property text: "missing path" => the run cannot be performed

    def on_raise_exit_code_2(exc):
        return exc == 2

    def inv0(path_objs, rest, stderr, old):
        return some_missing(path_objs) == some_missing(rest) and stderr == old.stderr and path_objs == old.path_objs

    # inputs from the property's own quantifier ("every class of usage error": the ways a path argument can be missing),
    # run natively on the real function whenever the solver refutes / cannot decide an obligation of this unit
    def witness_plainly_missing_path():
        return {"path_objs": [_scratch_dir() / "no-such-file.py"]}

    def witness_missing_after_existing_ones():
        d = _scratch_dir()
        (d / "present.py").write_text("x = 1\n")
        return {"path_objs": [d / "present.py", d, d / "absent" / "deep.py"]}

    def witness_symlink_to_a_missing_target():
        d = _scratch_dir()
        (d / "dangling.py").symlink_to(d / "target-that-does-not-exist.py")
        return {"path_objs": [d / "dangling.py"]}

    def witness_directory_symlink_to_a_missing_target():
        d = _scratch_dir()
        (d / "present.py").write_text("x = 1\n")
        (d / "linkdir").symlink_to(d / "no-such-dir", target_is_directory=True)
        return {"path_objs": [d / "present.py", d / "linkdir"]}


def _scratch_dir():
    import pathlib
    import tempfile
    return pathlib.Path(tempfile.mkdtemp(prefix="c06paths_"))


def config_doc_ok(config_file):
    """The configuration file, if it exists, parses to a mapping or is empty (precondition of LinterConfigLoader.load,
    contracts/c05_parse.py; any other document makes the loader raise, which the command wrapper reports as exit 2)."""
    return isinstance(yaml_doc(file_of(path_of_str(config_file))), dict) or yaml_doc(file_of(path_of_str(config_file))) is None


@contract(U + "load_config_file", no_selftest=True, props=["C06", "C05"], callee_view="c06",
          types=dict(orchestrator=OrchInitT, config_file=Str, verbose=Bool, config_path=PathT),
          raises=["SystemExit", "Exception"], modifies=["orchestrator.config", "stderr"], exc=Int)
class LoadConfigFile:
    """No assumption on the file's contents (the loader is applied through its raise-set view LinterConfigLoader.load~c06):
    whatever the loader raises propagates as an Exception, which every command wrapper turns into exit code 2."""

    def on_raise_missing_file_is_exit_2(config_file, exc, exc_class):
        return implies(exc_class == "SystemExit", exc == 2 and not fs_exists(path_of_str(config_file)))

    def ensures_only_existing_files_are_loaded(config_file):
        # property text: "missing config" => exit 2, i.e. the function never returns normally for a missing file
        return fs_exists(path_of_str(config_file))


detected_root = uf("detected_project_root", [Paths], PathT)  # marker search starting at the first path (C09)


def run_root(path_objs, project_root):
    """The project root of a run: the explicit one, else the detected one."""
    return project_root if project_root is not None else detected_root(path_objs)


def run_config_ok(path_objs, config_file, project_root):
    """The configuration files the run may read parse to a mapping (or are empty / absent): the --config file, and the
    .thailint.yaml / .thailint.json of the project root (preconditions of LinterConfigLoader.load, contracts/c05_parse.py;
    any other document makes the loader raise, which the command wrapper reports as exit 2)."""
    return (True if config_file is None else (len(config_file) == 0 or config_doc_ok(config_file))) \
        and project_config_loadable(run_root(path_objs, project_root))


@contract(U + "get_or_detect_project_root", props=["C06"], types=dict(path_objs=Paths, project_root=Opt(PathT)), returns=PathT,
          assumed="project-root detection (marker search on the file system, src/utils/project_root.py): covered by C09; "
                  "here only: a function of the paths, the explicit root wins, no output, no exit")
class GetOrDetectProjectRoot:
    def value(path_objs, project_root):
        return run_root(path_objs, project_root)


@contract(U + "setup_base_orchestrator", no_selftest=True, props=["C06", "C05"],
          types=dict(path_objs=Paths, config_file=Opt(Str), verbose=Bool, project_root=Opt(PathT), root=PathT,
                     orchestrator=OrchInitT),
          returns=OrchInitT, raises=["SystemExit", "Exception"], modifies=["stderr"], exc=Int)
class SetupBaseOrchestrator:
    def on_raise_missing_config_is_exit_2(config_file, exc, exc_class):
        return implies(exc_class == "SystemExit",
                       exc == 2 and (False if config_file is None else not fs_exists(path_of_str(config_file))))

    def ensures_config_file_exists_when_given(config_file):
        return True if config_file is None else implies(len(config_file) > 0, fs_exists(path_of_str(config_file)))


# ------------------------------------------------------------------------------------------ running the linters
def files_of(path_objs):
    return [p for p in path_objs if fs_is_file(p)]


def dirs_of(path_objs):
    return [p for p in path_objs if fs_is_dir(p)]


@contract(U + "separate_files_and_dirs", no_selftest=True, props=["C06", "C10", "C14"], types=dict(path_objs=Paths),
          returns=TupleOf(Paths, Paths))
class SeparateFilesAndDirs:
    def value(path_objs):
        return (files_of(path_objs), dirs_of(path_objs))


@contract(U + "execute_linting_on_paths", no_selftest=True, props=["C06", "C10", "C14", "C07"],
          types=dict(orchestrator=OrchInitT, path_objs=Paths, recursive=Bool, parallel=Bool, files=Paths, dirs=Paths,
                     violations=Viols, dir_path=PathT),
          returns=Viols, raises=["ValueError", "OSError"],
          modifies=["orchestrator.registry.gs", "orchestrator._rules_discovered", "orchestrator.ignore_parser._ignore_cache"])
class ExecuteLintingOnPaths:
    def ensures_files_only_sequential(orchestrator, path_objs, parallel, result, old):
        # explicit files (no directory among the paths), no --parallel: exactly Orchestrator.lint_files on them
        return implies(not parallel and len(dirs_of(path_objs)) == 0 and len(files_of(path_objs)) > 0,
                       result == sequential(old.orchestrator, files_of(path_objs)))

    def ensures_nothing_to_lint(path_objs, result):
        return implies(len(dirs_of(path_objs)) == 0 and len(files_of(path_objs)) == 0, len(result) == 0)

    def ensures_one_directory(orchestrator, path_objs, recursive, parallel, result, old):
        # ONE directory (no explicit files): the files linted are those the walk collects FOR THE GIVEN recursive flag,
        # with --parallel as without it; and the parallel result is composed as lint_directory_parallel documents
        return implies(len(files_of(path_objs)) == 0 and len(dirs_of(path_objs)) == 1,
                       result == one_directory_result(old.orchestrator, dirs_of(path_objs)[0], recursive, parallel))

    def inv0(orchestrator, path_objs, recursive, parallel, files, dirs, violations, old, rest, done):
        return orchestrator.project_root == old.orchestrator.project_root and orchestrator.config == old.orchestrator.config \
            and orchestrator.config_loader == old.orchestrator.config_loader \
            and orchestrator.ignore_parser.project_root == old.orchestrator.ignore_parser.project_root \
            and orchestrator.ignore_parser.repo_patterns == old.orchestrator.ignore_parser.repo_patterns \
            and path_objs == old.path_objs and recursive == old.recursive and parallel == old.parallel \
            and files == files_of(path_objs) and dirs == dirs_of(path_objs) \
            and implies(len(dirs) == 0 and not parallel and len(files) > 0,
                        violations == sequential(old.orchestrator, files)) \
            and implies(len(dirs) == 0 and len(files) == 0, len(violations) == 0) \
            and implies(len(files) == 0 and len(dirs) == 1,
                        (len(rest) == 1 and len(violations) == 0 and orchestrator.registry.gs == old.orchestrator.registry.gs
                         and orchestrator._rules_discovered == old.orchestrator._rules_discovered
                         and orchestrator.ignore_parser._ignore_cache == old.orchestrator.ignore_parser._ignore_cache)
                        or (len(rest) == 0 and violations == one_directory_result(old.orchestrator, dirs[0], recursive, parallel)))


def one_directory_result(orch, d, recursive, parallel):
    """Sequential: lint_files semantics on walk_files(d, recursive). --parallel: the same below the threshold 2 x workers,
    else the pool's per-file part for the SAME file list followed by finalize() (C07-parallel-cross-file: on the parent's
    rule objects)."""
    return ((pool_out(walk_files(d, recursive), orch.project_root, orch.config, workers_of(None))
             + fin_all(rules_of(ready(orch.registry.gs, orch._rules_discovered))))
            if goes_parallel(walk_files(d, recursive), None) else
            ([] if len(walk_files(d, recursive)) == 0 else sequential(orch, walk_files(d, recursive)))) \
        if parallel else sequential(orch, walk_files(d, recursive))


# ------------------------------------------------------------------------------------------ the command wrapper
ExecutorT = Opaque("LinterExecutor")  # a function-valued argument: one of the _execute_*_lint functions
# what calling it does: -1 returns normally, -2 raises some Exception, k >= 0 exits the process with code k
executor_outcome = uf("executor_outcome", [ExecutorT, ExecT], Int)


def _x_call_executor(ex, args, kwargs, lineno):
    """execute_fn(params): writes to stdout / stderr, then returns, raises an Exception, or exits (trusted model of an
    arbitrary function-valued argument; the _execute_*_lint functions themselves are verified separately)."""
    fn, params = args[0], args[1]
    effects.havoc(ex, "stdout", lineno, who="the executor passed as argument")
    effects.havoc(ex, "stderr", lineno, who="the executor passed as argument")
    out = z3.Function("uf.executor_outcome", ExecutorT.sort(), ExecT.sort(), z3.IntSort())(fn.t, ExecT.pack(params))
    ex.ufs_used.add("executor_outcome")
    ex.assume(out >= -2)
    if ex.decide(out == -1):
        return VNone()
    if ex.decide(out == -2):
        raise RaiseSig(VExc("Exception"))
    raise RaiseSig(VExc("SystemExit", VInt(out)))


EXTERNALS["LinterExecutor.__call__"] = _x_call_executor


@contract(SH + "run_linter_command", props=["C06", "C05"], types=dict(execute_fn=ExecutorT, params=ExecT),
          raises=["SystemExit"], modifies=["stdout", "stderr"], exc=Int)
class RunLinterCommand:
    def raises_when(execute_fn, params):
        return executor_outcome(execute_fn, params) != -1

    def on_raise_every_exception_becomes_exit_2(execute_fn, params, exc):
        # property text: exit 2 "when the run itself cannot be performed"; the executor's own exit codes pass through
        return exc == (2 if executor_outcome(execute_fn, params) == -2 else executor_outcome(execute_fn, params))


# ------------------------------------------------------------------------------------------ the executors (representatives)
CP = "src/cli/linters/code_patterns.py::"
CS = "src/cli/linters/code_smells.py::"
PF = "src/cli/linters/performance.py::"
ST = "src/cli/linters/structure.py::"


def exits_like_the_rendered_list(L, fmt, exc, exc_class, stdout, old):
    """THE C06 exit-point assertion. On every exit of an executor:
       - exit code 0 / 1: stdout received exactly the rendering of ONE list L, and the code is 1 iff L is non-empty;
       - exit code 2 (missing path / missing config / invalid option): nothing was written to stdout;
       - any other exit is an Exception (reported as exit 2 by the command wrapper), also with stdout untouched."""
    return (exc_class == "SystemExit" and exc == (1 if len(L) > 0 else 0) and stdout == old.stdout + rendering(L, fmt)) \
        or (exc_class == "SystemExit" and exc == 2 and stdout == old.stdout) \
        or (exc_class != "SystemExit" and stdout == old.stdout)


@contract(CS + "_execute_magic_numbers_lint", no_selftest=True, props=["C06"],
          types=dict(params=ExecT, orchestrator=OrchInitT, magic_numbers_violations=Violations, all_violations=Viols),
          raises=["SystemExit", "Exception"], modifies=["stdout", "stderr"], exc=Int,
          inline=["_setup_magic_numbers_orchestrator", "_run_magic_numbers_lint"])
class ExecuteMagicNumbersLint:
    def raises_when(params):
        return True  # NoReturn

    def at_exit_code_and_output_agree(params, magic_numbers_violations, exc, exc_class, stdout, old):
        return exits_like_the_rendered_list(magic_numbers_violations, params.format, exc, exc_class, stdout, old)


# ---- perf: shared setup helper, extra --rule filter
@contract(PF + "_execute_perf_lint", no_selftest=True, props=["C06"],
          types=dict(params=ExecT, rule=Opt(Str), orchestrator=OrchInitT, violations=Violations, all_violations=Viols,
                     perf_violations=Viols),
          raises=["SystemExit", "Exception"], modifies=["stdout", "stderr"], exc=Int,
          inline=["_setup_and_validate", "_setup_performance_orchestrator", "_run_all_perf_lint", "_filter_by_rule"])
class ExecutePerfLint:
    def raises_when(params):
        return True

    def at_exit_code_and_output_agree(params, violations, exc, exc_class, stdout, old):
        return exits_like_the_rendered_list(violations, params.format, exc, exc_class, stdout, old)


# ---- file-placement: own orchestrator setup with inline JSON rules (invalid JSON => exit 2)
json_valid = uf("json_valid", [Str], Bool, concrete=lambda s: _json_ok(s))
json_value = uf("json_value", [Str], Any, concrete=lambda s: __import__("json").loads(s))


def _json_ok(s):
    import json
    try:
        json.loads(s)
        return True
    except json.JSONDecodeError:
        return False


def _x_json_loads(ex, args, kwargs, lineno):
    """json.loads(text): JSONDecodeError unless json_valid(text), else the value json_value(text)."""
    from pyvc.ty import VAny, ValSort
    s = ex.str_of(args[0]).t
    if ex.merge_depth == 0 and ex.spec_depth == 0:
        if not ex.decide(z3.Function("uf.json_valid", z3.StringSort(), z3.BoolSort())(s)):
            raise RaiseSig(VExc("JSONDecodeError"))
    ex.ufs_used.update({"json_valid", "json_value"})
    return VAny(z3.Function("uf.json_value", z3.StringSort(), ValSort)(s))


EXTERNALS.setdefault("json.loads", _x_json_loads)


@contract(ST + "_parse_json_rules", props=["C06"], types=dict(rules=Str), returns=Any, raises=["SystemExit"],
          modifies=["stderr"], exc=Int)
class ParseJsonRules:
    def raises_when(rules):
        return not json_valid(rules)  # property text: "invalid option" => exit 2

    def on_raise_exit_code_2(exc):
        return exc == 2

    def value(rules):
        return json_value(rules)


@contract(ST + "_setup_orchestrator", no_selftest=True, props=["C06"],
          types=dict(path_objs=Paths, config_file=Opt(Str), rules=Opt(Str), verbose=Bool, project_root=Opt(PathT),
                     orchestrator=OrchInitT, rules_config=Any),
          returns=OrchInitT, raises=["SystemExit", "Exception"], modifies=["stderr"], exc=Int,
          inline=["_apply_orchestrator_config", "_apply_inline_rules"])
class SetupFilePlacementOrchestrator:
    def on_raise_usage_errors_are_exit_2(config_file, rules, exc, exc_class):
        # invalid --rules JSON, or (no --rules) a --config file that does not exist
        return implies(exc_class == "SystemExit",
                       exc == 2 and ((False if rules is None else (len(rules) > 0 and not json_valid(rules)))
                                     or (False if config_file is None else not fs_exists(path_of_str(config_file)))))


@contract(ST + "_execute_file_placement_lint", no_selftest=True, props=["C06"],
          types=dict(path_objs=Paths, config_file=Opt(Str), rules=Opt(Str), format=Str, recursive=Bool, parallel=Bool,
                     verbose=Bool, project_root=Opt(PathT), orchestrator=OrchInitT, all_violations=Viols,
                     violations=Violations),
          raises=["SystemExit", "Exception"], modifies=["stdout", "stderr"], exc=Int)
class ExecuteFilePlacementLint:
    def raises_when(path_objs):
        return True

    def at_exit_code_and_output_agree(format, violations, exc, exc_class, stdout, old):
        return exits_like_the_rendered_list(violations, format, exc, exc_class, stdout, old)


# ---- pipeline: custom option applied to the configuration before linting
@contract(ST + "_apply_pipeline_config_override", no_selftest=True, props=["C06", "C05"],
          types=dict(orchestrator=OrchInitT, min_continues=Opt(Int), verbose=Bool, pipeline_config=Any),
          raises=["TypeError"], modifies=["orchestrator.config"], dynamic_type_errors="raise",
          inline=["ensure_config_section", "set_config_value"])
class ApplyPipelineConfigOverride:
    def ensures_no_option_no_change(orchestrator, min_continues, old):
        return implies(min_continues is None, orchestrator.config == old.orchestrator.config)

    def ensures_given_option_is_in_force(orchestrator, min_continues):
        return implies(min_continues is not None,
                       option_in_force(orchestrator.config, "collection_pipeline", "min_continues", min_continues))


@contract(ST + "_execute_pipeline_lint", no_selftest=True, props=["C06"],
          types=dict(path_objs=Paths, config_file=Opt(Str), format=Str, min_continues=Opt(Int), recursive=Bool,
                     parallel=Bool, verbose=Bool, project_root=Opt(PathT), orchestrator=OrchInitT, all_violations=Viols,
                     pipeline_violations=Violations),
          raises=["SystemExit", "Exception"], modifies=["stdout", "stderr"], exc=Int,
          inline=["_setup_pipeline_orchestrator", "_run_pipeline_lint"])
class ExecutePipelineLint:
    def raises_when(path_objs):
        return True

    def at_exit_code_and_output_agree(format, pipeline_violations, exc, exc_class, stdout, old):
        return exits_like_the_rendered_list(pipeline_violations, format, exc, exc_class, stdout, old)


# ---- the other executors built by create_linter_command: the same statement, one contract each (same proof shape as
# ---- _execute_magic_numbers_lint). _execute_nesting_lint / _execute_srp_lint follow below (option overrides);
# ---- and _execute_dry_lint (own config loading).
DOC = "src/cli/linters/documentation.py::"
RS = "src/cli/linters/rust.py::"


@contract(CP + "_execute_improper_logging_lint", no_selftest=True, props=["C06"],
          types=dict(params=ExecT, orchestrator=OrchInitT, improper_logging_violations=Violations, all_violations=Viols),
          raises=["SystemExit", "Exception"], modifies=["stdout", "stderr"], exc=Int,
          inline=["_setup_improper_logging_orchestrator", "_run_improper_logging_lint"])
class ExecuteImproperLoggingLint:
    def raises_when(params):
        return True

    def at_exit_code_and_output_agree(params, improper_logging_violations, exc, exc_class, stdout, old):
        return exits_like_the_rendered_list(improper_logging_violations, params.format, exc, exc_class, stdout, old)


@contract(CP + "_execute_method_property_lint", no_selftest=True, props=["C06"],
          types=dict(params=ExecT, orchestrator=OrchInitT, method_property_violations=Violations, all_violations=Viols),
          raises=["SystemExit", "Exception"], modifies=["stdout", "stderr"], exc=Int,
          inline=["_setup_method_property_orchestrator", "_run_method_property_lint"])
class ExecuteMethodPropertyLint:
    def raises_when(params):
        return True

    def at_exit_code_and_output_agree(params, method_property_violations, exc, exc_class, stdout, old):
        return exits_like_the_rendered_list(method_property_violations, params.format, exc, exc_class, stdout, old)


@contract(CP + "_execute_stateless_class_lint", no_selftest=True, props=["C06"],
          types=dict(params=ExecT, orchestrator=OrchInitT, stateless_class_violations=Violations, all_violations=Viols),
          raises=["SystemExit", "Exception"], modifies=["stdout", "stderr"], exc=Int,
          inline=["_setup_stateless_class_orchestrator", "_run_stateless_class_lint"])
class ExecuteStatelessClassLint:
    def raises_when(params):
        return True

    def at_exit_code_and_output_agree(params, stateless_class_violations, exc, exc_class, stdout, old):
        return exits_like_the_rendered_list(stateless_class_violations, params.format, exc, exc_class, stdout, old)


@contract(CP + "_execute_lazy_ignores_lint", no_selftest=True, props=["C06"],
          types=dict(params=ExecT, orchestrator=OrchInitT, lazy_ignores_violations=Violations, all_violations=Viols),
          raises=["SystemExit", "Exception"], modifies=["stdout", "stderr"], exc=Int,
          inline=["_setup_lazy_ignores_orchestrator", "_run_lazy_ignores_lint"])
class ExecuteLazyIgnoresLint:
    def raises_when(params):
        return True

    def at_exit_code_and_output_agree(params, lazy_ignores_violations, exc, exc_class, stdout, old):
        return exits_like_the_rendered_list(lazy_ignores_violations, params.format, exc, exc_class, stdout, old)


@contract(CP + "_execute_lbyl_lint", no_selftest=True, props=["C06"],
          types=dict(params=ExecT, orchestrator=OrchInitT, lbyl_violations=Violations, all_violations=Viols),
          raises=["SystemExit", "Exception"], modifies=["stdout", "stderr"], exc=Int,
          inline=["_setup_lbyl_orchestrator", "_run_lbyl_lint"])
class ExecuteLbylLint:
    def raises_when(params):
        return True

    def at_exit_code_and_output_agree(params, lbyl_violations, exc, exc_class, stdout, old):
        return exits_like_the_rendered_list(lbyl_violations, params.format, exc, exc_class, stdout, old)


@contract(CS + "_execute_stringly_typed_lint", no_selftest=True, props=["C06"],
          types=dict(params=ExecT, orchestrator=OrchInitT, stringly_violations=Violations, all_violations=Viols),
          raises=["SystemExit", "Exception"], modifies=["stdout", "stderr"], exc=Int,
          inline=["_setup_stringly_typed_orchestrator", "_run_stringly_typed_lint"])
class ExecuteStringlyTypedLint:
    def raises_when(params):
        return True

    def at_exit_code_and_output_agree(params, stringly_violations, exc, exc_class, stdout, old):
        return exits_like_the_rendered_list(stringly_violations, params.format, exc, exc_class, stdout, old)


@contract(DOC + "_execute_file_header_lint", no_selftest=True, props=["C06"],
          types=dict(params=ExecT, orchestrator=OrchInitT, file_header_violations=Violations, all_violations=Viols),
          raises=["SystemExit", "Exception"], modifies=["stdout", "stderr"], exc=Int,
          inline=["_setup_file_header_orchestrator", "_run_file_header_lint"])
class ExecuteFileHeaderLint:
    def raises_when(params):
        return True

    def at_exit_code_and_output_agree(params, file_header_violations, exc, exc_class, stdout, old):
        return exits_like_the_rendered_list(file_header_violations, params.format, exc, exc_class, stdout, old)


@contract(RS + "_execute_unwrap_abuse_lint", no_selftest=True, props=["C06"],
          types=dict(params=ExecT, orchestrator=OrchInitT, unwrap_abuse_violations=Violations, all_violations=Viols),
          raises=["SystemExit", "Exception"], modifies=["stdout", "stderr"], exc=Int,
          inline=["_setup_unwrap_abuse_orchestrator", "_run_unwrap_abuse_lint"])
class ExecuteUnwrapAbuseLint:
    def raises_when(params):
        return True

    def at_exit_code_and_output_agree(params, unwrap_abuse_violations, exc, exc_class, stdout, old):
        return exits_like_the_rendered_list(unwrap_abuse_violations, params.format, exc, exc_class, stdout, old)


@contract(RS + "_execute_clone_abuse_lint", no_selftest=True, props=["C06"],
          types=dict(params=ExecT, orchestrator=OrchInitT, clone_abuse_violations=Violations, all_violations=Viols),
          raises=["SystemExit", "Exception"], modifies=["stdout", "stderr"], exc=Int,
          inline=["_setup_clone_abuse_orchestrator", "_run_clone_abuse_lint"])
class ExecuteCloneAbuseLint:
    def raises_when(params):
        return True

    def at_exit_code_and_output_agree(params, clone_abuse_violations, exc, exc_class, stdout, old):
        return exits_like_the_rendered_list(clone_abuse_violations, params.format, exc, exc_class, stdout, old)


@contract(RS + "_execute_blocking_async_lint", no_selftest=True, props=["C06"],
          types=dict(params=ExecT, orchestrator=OrchInitT, blocking_async_violations=Violations, all_violations=Viols),
          raises=["SystemExit", "Exception"], modifies=["stdout", "stderr"], exc=Int,
          inline=["_setup_blocking_async_orchestrator", "_run_blocking_async_lint"])
class ExecuteBlockingAsyncLint:
    def raises_when(params):
        return True

    def at_exit_code_and_output_agree(params, blocking_async_violations, exc, exc_class, stdout, old):
        return exits_like_the_rendered_list(blocking_async_violations, params.format, exc, exc_class, stdout, old)


@contract(PF + "_execute_string_concat_lint", no_selftest=True, props=["C06"],
          types=dict(params=ExecT, orchestrator=OrchInitT, violations=Violations, all_violations=Viols),
          raises=["SystemExit", "Exception"], modifies=["stdout", "stderr"], exc=Int,
          inline=["_setup_and_validate", "_setup_performance_orchestrator", "_run_string_concat_lint"])
class ExecuteStringConcatLint:
    def raises_when(params):
        return True

    def at_exit_code_and_output_agree(params, violations, exc, exc_class, stdout, old):
        return exits_like_the_rendered_list(violations, params.format, exc, exc_class, stdout, old)


@contract(PF + "_execute_regex_in_loop_lint", no_selftest=True, props=["C06"],
          types=dict(params=ExecT, orchestrator=OrchInitT, violations=Violations, all_violations=Viols),
          raises=["SystemExit", "Exception"], modifies=["stdout", "stderr"], exc=Int,
          inline=["_setup_and_validate", "_setup_performance_orchestrator", "_run_regex_in_loop_lint"])
class ExecuteRegexInLoopLint:
    def raises_when(params):
        return True

    def at_exit_code_and_output_agree(params, violations, exc, exc_class, stdout, old):
        return exits_like_the_rendered_list(violations, params.format, exc, exc_class, stdout, old)


# ---- executors with command-line options that override the configuration (nesting --max-depth, srp --max-methods /
# ---- --max-loc): besides the exit/output agreement, a completed run (exit 0 / 1) had EVERY given option in force --
# ---- an option value is never silently dropped; whether the value is acceptable is decided by the linter's config
# ---- validation (ValueError -> exit 2 through the command wrapper), which can only happen if the value reaches it
SQ = "src/cli/linters/structure_quality.py::"


def option_in_force(config, section, key, value):
    return section in config and isinstance(config[section], dict) and key in config[section] and config[section][key] == value


@contract(SQ + "_execute_nesting_lint", no_selftest=True, props=["C06"],
          types=dict(path_objs=Paths, config_file=Opt(Str), format=Str, max_depth=Opt(Int), recursive=Bool, parallel=Bool,
                     verbose=Bool, project_root=Opt(PathT), orchestrator=OrchInitT, all_violations=Viols,
                     nesting_violations=Violations, nesting_config=Any),
          raises=["SystemExit", "Exception"], modifies=["stdout", "stderr"], exc=Int, dynamic_type_errors="raise",
          inline=["_setup_nesting_orchestrator", "_run_nesting_lint", "_apply_nesting_config_override",
                  "_apply_nesting_to_languages"])
class ExecuteNestingLint:
    def raises_when(path_objs):
        return True

    def at_exit_code_and_output_agree(format, nesting_violations, exc, exc_class, stdout, old):
        return exits_like_the_rendered_list(nesting_violations, format, exc, exc_class, stdout, old)

    def at_exit_given_option_was_in_force(max_depth, orchestrator, exc, exc_class):
        return implies(exc_class == "SystemExit" and exc != 2 and max_depth is not None,
                       option_in_force(orchestrator.config, "nesting", "max_nesting_depth", max_depth))


@contract(SQ + "_execute_srp_lint", no_selftest=True, props=["C06"],
          types=dict(path_objs=Paths, config_file=Opt(Str), format=Str, max_methods=Opt(Int), max_loc=Opt(Int), recursive=Bool,
                     parallel=Bool, verbose=Bool, project_root=Opt(PathT), orchestrator=OrchInitT, all_violations=Viols,
                     srp_violations=Violations, srp_config=Any),
          raises=["SystemExit", "Exception"], modifies=["stdout", "stderr"], exc=Int, dynamic_type_errors="raise",
          inline=["_setup_srp_orchestrator", "_run_srp_lint", "_apply_srp_config_override"])
class ExecuteSrpLint:
    def raises_when(path_objs):
        return True

    def at_exit_code_and_output_agree(format, srp_violations, exc, exc_class, stdout, old):
        return exits_like_the_rendered_list(srp_violations, format, exc, exc_class, stdout, old)

    def at_exit_given_options_were_in_force(max_methods, max_loc, orchestrator, exc, exc_class):
        return implies(exc_class == "SystemExit" and exc != 2 and max_methods is not None,
                       option_in_force(orchestrator.config, "srp", "max_methods", max_methods)) \
            and implies(exc_class == "SystemExit" and exc != 2 and max_loc is not None,
                        option_in_force(orchestrator.config, "srp", "max_loc", max_loc))


# ---- dry: own config loading (--config read for its `dry` section only), --min-lines / --no-cache / --clear-cache
@contract(CS + "_clear_dry_cache", props=["C06"], types=dict(orchestrator=OrchInitT, verbose=Bool),
          assumed="deletes the cache file on disk (Path.unlink): no output, no exit, configuration untouched")
class ClearDryCache:
    def ensures(orchestrator, old):
        return orchestrator.config == old.orchestrator.config


@contract(CS + "_load_dry_config_file", no_selftest=True, props=["C06", "C05"],
          types=dict(orchestrator=OrchInitT, config_file=Str, verbose=Bool, config_path=PathT, config=Any, dry_config=Any),
          raises=["SystemExit", "Exception"], modifies=["orchestrator.config", "stderr"], exc=Int, dynamic_type_errors="raise")
class LoadDryConfigFile:
    def on_raise_missing_file_is_exit_2(config_file, exc, exc_class):
        return implies(exc_class == "SystemExit", exc == 2 and not fs_exists(path_of_str(config_file)))

    def ensures_only_existing_files_are_loaded(config_file):
        return fs_exists(path_of_str(config_file))


@contract(CS + "_execute_dry_lint", no_selftest=True, props=["C06"],
          types=dict(path_objs=Paths, config_file=Opt(Str), format=Str, min_lines=Opt(Int), no_cache=Bool, clear_cache=Bool,
                     recursive=Bool, parallel=Bool, verbose=Bool, project_root=Opt(PathT), orchestrator=OrchInitT,
                     all_violations=Viols, dry_violations=Violations, dry_config=Any, config=Any, config_path=PathT),
          raises=["SystemExit", "Exception"], modifies=["stdout", "stderr"], exc=Int, dynamic_type_errors="raise",
          inline=["_setup_dry_orchestrator", "_run_dry_lint", "_apply_dry_config_override"])
class ExecuteDryLint:
    def raises_when(path_objs):
        return True

    def at_exit_code_and_output_agree(format, dry_violations, exc, exc_class, stdout, old):
        return exits_like_the_rendered_list(dry_violations, format, exc, exc_class, stdout, old)

    def at_exit_given_options_were_in_force(min_lines, no_cache, orchestrator, exc, exc_class):
        return implies(exc_class == "SystemExit" and exc != 2 and min_lines is not None,
                       option_in_force(orchestrator.config, "dry", "min_duplicate_lines", min_lines)) \
            and implies(exc_class == "SystemExit" and exc != 2 and no_cache,
                        option_in_force(orchestrator.config, "dry", "cache_enabled", False))

    def at_exit_missing_config_is_exit_2(config_file, exc, exc_class):
        # property text: "missing config" => exit 2: no completed run (exit 0 / 1) with a --config file that does not exist
        return True if config_file is None else implies(exc_class == "SystemExit" and exc != 2 and len(config_file) > 0,
                                                        fs_exists(path_of_str(config_file)))


# ------------------------------------------------------------------------------------------ all 20 executors: shape
import ast as _ast  # noqa: E402
ast_ = _ast
import glob as _glob  # noqa: E402
import os as _os  # noqa: E402


def _calls(node, dotted):
    """Call nodes of `dotted` (e.g. "sys.exit", "format_violations") inside node."""
    out = []
    for n in _ast.walk(node):
        if isinstance(n, _ast.Call) and _ast.unparse(n.func) == dotted:
            out.append(n)
    return out


def _executor_shape(fn):
    """None if fn has the C06 shape, else the reason. Shape: straight-line body (calls, single assignments, `if` without
    else that only calls helpers), no return / try / loop, and the last two statements are
        format_violations(V, <format>)
        sys.exit(1 if V else 0)
    for one local name V that is assigned exactly once and never mutated."""
    body = [s for s in fn.body if not (isinstance(s, _ast.Expr) and isinstance(s.value, _ast.Constant))]
    if len(body) < 2:
        return "body too short"
    fmt, ext = body[-2], body[-1]
    if not (isinstance(fmt, _ast.Expr) and isinstance(fmt.value, _ast.Call) and _ast.unparse(fmt.value.func) == "format_violations"
            and len(fmt.value.args) == 2 and isinstance(fmt.value.args[0], _ast.Name) and not fmt.value.keywords):
        return "second-to-last statement is not format_violations(<name>, <format>)"
    v = fmt.value.args[0].id
    if not (isinstance(ext, _ast.Expr) and isinstance(ext.value, _ast.Call) and _ast.unparse(ext.value.func) == "sys.exit"
            and len(ext.value.args) == 1 and _ast.unparse(ext.value.args[0]) == f"1 if {v} else 0"):
        return f"last statement is not sys.exit(1 if {v} else 0)"
    for s in body[:-2]:
        for n in _ast.walk(s):
            if isinstance(n, (_ast.Return, _ast.Try, _ast.For, _ast.While, _ast.With, _ast.Raise, _ast.Yield, _ast.Await)):
                return f"line {n.lineno}: {type(n).__name__} before the rendering"
        if _calls(s, "sys.exit") or _calls(s, "format_violations"):
            return f"line {s.lineno}: another exit / rendering before the final one"
        if isinstance(s, _ast.If) and s.orelse:
            return f"line {s.lineno}: if/else before the rendering"
    stores = [n for s in body for n in _ast.walk(s) if isinstance(n, _ast.Name) and n.id == v and isinstance(n.ctx, _ast.Store)]
    if len(stores) != 1:
        return f"{v} is assigned {len(stores)} times"
    for s in body:
        for n in _ast.walk(s):
            if isinstance(n, _ast.Attribute) and isinstance(n.value, _ast.Name) and n.value.id == v \
                    and n.attr in ("append", "extend", "clear", "pop", "remove", "insert", "sort", "reverse"):
                return f"line {n.lineno}: {v}.{n.attr}(...) mutates the list"
            if isinstance(n, _ast.AugAssign) and isinstance(n.target, _ast.Name) and n.target.id == v:
                return f"line {n.lineno}: {v} is augmented"
    if fn.args.vararg or fn.args.kwarg:
        return "*args / **kwargs"
    return None


def _is_executor_name(name):
    return name.startswith("_execute_") and name.endswith("_lint")


def _cli_modules(repo):
    for path in sorted(_glob.glob(_os.path.join(repo, "src", "cli", "linters", "*.py"))):
        with open(path, encoding="utf-8") as fh:
            yield _os.path.relpath(path, repo), _ast.parse(fh.read())


@custom("c06-exit-shape", props=["C06"])
def c06_exit_shape(ctx):
    """Every `_execute_*_lint` function ends, on every normal path, in format_violations(V, fmt); sys.exit(1 if V else 0)
    with the same, never re-bound V (syntactic; the semantics of that tail is proved on the representatives
    _execute_magic_numbers_lint, _execute_perf_lint, _execute_file_placement_lint, _execute_pipeline_lint)."""
    obs, found = [], 0
    for rel, tree in _cli_modules(ctx["repo"]):
        for fn in tree.body:
            if isinstance(fn, _ast.FunctionDef) and _is_executor_name(fn.name):
                found += 1
                why = _executor_shape(fn)
                obs.append({"name": f"c06-exit-shape/{rel}::{fn.name}", "kind": "shape",
                            "verdict": "discharged" if why is None else "refuted", "note": why or "", "solver": "ast", "ms": 0.0,
                            "model_inputs": {"function": f"{rel}::{fn.name}", "reason": why} if why else None})
    obs.append({"name": "c06-exit-shape/executors-found", "kind": "shape", "solver": "ast", "ms": 0.0,
                "verdict": "discharged" if found >= 19 else "refuted",
                "note": f"{found} _execute_*_lint functions found (19 at the pinned commit: 20 commands, print-statements "
                        f"is an alias of improper-logging)"})
    return obs


def _handler_is_exit_2(h):
    """`except Exception as e: handle_linting_error(e, <verbose>)`"""
    return isinstance(h.type, _ast.Name) and h.type.id == "Exception" and h.name is not None and len(h.body) == 1 \
        and isinstance(h.body[0], _ast.Expr) and isinstance(h.body[0].value, _ast.Call) \
        and _ast.unparse(h.body[0].value.func) == "handle_linting_error" and len(h.body[0].value.args) == 2 \
        and _ast.unparse(h.body[0].value.args[0]) == h.name


def _command_shape(fn, executors):
    """None if the click command ends by running ONE executor under the exit-2 wrapper."""
    last = fn.body[-1]
    inner = {n.name: n for n in fn.body if isinstance(n, _ast.FunctionDef)}
    if isinstance(last, _ast.Expr) and isinstance(last.value, _ast.Call) and _ast.unparse(last.value.func) == "run_linter_command":
        a0 = last.value.args[0] if last.value.args else None
        if isinstance(a0, _ast.Name) and (a0.id in executors or a0.id == "execute_fn"):
            return None
        if isinstance(a0, _ast.Name) and a0.id in inner:
            calls = [c for c in _ast.walk(inner[a0.id]) if isinstance(c, _ast.Call) and _ast.unparse(c.func) in executors]
            if len(inner[a0.id].body) == 1 and len(calls) == 1:
                return None
        return "run_linter_command is not given an executor"
    if isinstance(last, _ast.Try) and not last.orelse and not last.finalbody and len(last.body) == 1 \
            and isinstance(last.body[0], _ast.Expr) and isinstance(last.body[0].value, _ast.Call) \
            and _ast.unparse(last.body[0].value.func) in executors:
        if len(last.handlers) == 1 and _handler_is_exit_2(last.handlers[0]):
            return None
        return "the executor's exceptions are not routed to handle_linting_error"
    return "the command does not end in `try: <executor>(...) except Exception as e: handle_linting_error(e, ...)` " \
           "or run_linter_command(<executor>, params)"


@custom("c06-command-shape", props=["C06"])
def c06_command_shape(ctx):
    """Every linter command (@cli.command in src/cli/linters/*.py, and the factory create_linter_command) runs exactly
    one executor and routes every Exception to handle_linting_error (proved: always exit 2), either directly or
    through run_linter_command (proved). Every executor is reachable from some command."""
    obs, executors, used = [], set(), set()
    mods = list(_cli_modules(ctx["repo"]))
    for rel, tree in mods:
        executors |= {fn.name for fn in tree.body if isinstance(fn, _ast.FunctionDef) and _is_executor_name(fn.name)}
    for rel, tree in mods:
        for fn in _ast.walk(tree):
            if not isinstance(fn, _ast.FunctionDef):
                continue
            is_cmd = any(isinstance(d, _ast.Call) and _ast.unparse(d.func) == "cli.command" for d in fn.decorator_list)
            if not is_cmd:
                continue
            why = _command_shape(fn, executors)
            obs.append({"name": f"c06-command-shape/{rel}::{fn.name}", "kind": "shape", "solver": "ast", "ms": 0.0,
                        "verdict": "discharged" if why is None else "refuted", "note": why or "",
                        "model_inputs": {"command": f"{rel}::{fn.name}", "reason": why} if why else None})
            used |= {_ast.unparse(c.func) for c in _ast.walk(fn) if isinstance(c, _ast.Call)} & executors
        for c in _ast.walk(tree):
            if isinstance(c, _ast.Call) and _ast.unparse(c.func) == "create_linter_command" and len(c.args) >= 2 \
                    and isinstance(c.args[1], _ast.Name):
                used.add(c.args[1].id)
    n_cmds = sum(1 for o in obs if "shared.py::command" not in o["name"]) + sum(
        1 for _, tree in mods for c in _ast.walk(tree)
        if isinstance(c, _ast.Call) and _ast.unparse(c.func) == "create_linter_command")
    obs.append({"name": "c06-command-shape/commands-found", "kind": "shape", "solver": "ast", "ms": 0.0,
                "verdict": "discharged" if n_cmds >= 20 else "refuted", "note": f"{n_cmds} linter commands (20 at the pinned commit)"})
    orphans = sorted(executors - used)
    obs.append({"name": "c06-command-shape/every-executor-has-a-command", "kind": "shape", "solver": "ast", "ms": 0.0,
                "verdict": "discharged" if not orphans else "refuted", "note": f"unreachable executors: {orphans}" if orphans else ""})
    return obs


# ---- native generators for the CPython cross-check (pyvc/selftest.py)
def _register_generators():
    from pyvc import selftest
    selftest.OPAQUE_GENERATORS.setdefault("Exception", lambda g: ValueError(g.s()))


_register_generators()


# ------------------------------------------------------------------------------------------ --project-root validation
path_resolved = uf("path_resolved", [PathT], PathT, concrete=lambda p: __import__("pathlib").Path(p).resolve())


def _x_resolve(ex, args, kwargs, lineno):
    """p.resolve(): the absolute, symlink-free spelling of p (uninterpreted)."""
    from pyvc.ty import VOpaque
    ex.ufs_used.add("path_resolved")
    return VOpaque(z3.Function("uf.path_resolved", PathT.sort(), PathT.sort())(args[0].t), PathT)


EXTERNALS.setdefault("Path.resolve", _x_resolve)


@contract(U + "_resolve_explicit_project_root", no_selftest=True, props=["C06"],
          types=dict(explicit_root=Str, verbose=Bool, root=PathT), returns=PathT,
          raises=["SystemExit"], modifies=["stderr"], exc=Int)
class ResolveExplicitProjectRoot:
    def raises_when(explicit_root):
        # property text: "invalid option" => exit 2: --project-root must name an existing directory
        return not fs_exists(path_of_str(explicit_root)) or not fs_is_dir(path_of_str(explicit_root))

    def on_raise_exit_code_2(exc):
        return exc == 2

    def value(explicit_root):
        return path_resolved(path_of_str(explicit_root))


# ---- os.path predicates: the same file-system snapshot as the pathlib model of contracts/c09_paths.py --------------------
fs_lexists = uf("fs_lexists", [PathT], Bool, concrete=lambda p: __import__("os").path.lexists(p))


def _as_path_term(ex, a):
    from pyvc.ty import VOpaque, VStr
    if isinstance(a, VOpaque) and a.ty is PathT:
        return a.t
    if isinstance(a, VStr):
        return z3.Function("uf.path_of_str", z3.StringSort(), PathT.sort())(a.t)
    raise NotImplementedError


def _os_path_pred(name, ufname):
    def h(ex, args, kwargs, lineno):
        from pyvc.ty import VBool, Unsupported
        try:
            p = _as_path_term(ex, args[0])
        except NotImplementedError:
            raise Unsupported(f"{name} of {args[0]}")
        B = z3.BoolSort()
        f = z3.Function(ufname, PathT.sort(), B)
        ex.ufs_used.add(f"{name} == {ufname[3:]} (one file-system snapshot; exists/isfile/isdir follow symlinks, lexists does not)")
        exists, lexists = z3.Function("uf.fs_exists", PathT.sort(), B), z3.Function("uf.fs_lexists", PathT.sort(), B)
        isfile, isdir = z3.Function("uf.fs_is_file", PathT.sort(), B), z3.Function("uf.fs_is_dir", PathT.sort(), B)
        # a path that exists (target reachable) certainly lexists; a dangling symlink lexists without existing
        ex.assume(z3.Implies(exists(p), lexists(p)))
        ex.assume(z3.Implies(z3.Or(isfile(p), isdir(p)), exists(p)))
        return VBool(f(p))
    return h


for _n, _u in (("os.path.exists", "uf.fs_exists"), ("os.path.lexists", "uf.fs_lexists"), ("os.path.isfile", "uf.fs_is_file"),
               ("os.path.isdir", "uf.fs_is_dir")):
    EXTERNALS.setdefault(_n, _os_path_pred(_n, _u))


# ------------------------------------------------------------------------------------------ Violation.file_path is text at every producer
PRODUCER_CALLS = ("Violation", "ViolationInfo", "build_violation_from_params", "build_from_params")


def _evidently_text(e, fn, classes):
    """The expression is a str by construction: str(...), a literal / f-string, a conditional or `or` of such, a parameter
    of the enclosing function annotated `str`, or `<param>.file_path` where the parameter's annotated class declares
    `file_path: str`."""
    if isinstance(e, ast_.Constant):
        return isinstance(e.value, str)
    if isinstance(e, ast_.JoinedStr):
        return True
    if isinstance(e, ast_.Call) and isinstance(e.func, ast_.Name) and e.func.id == "str":
        return True
    if isinstance(e, ast_.IfExp):
        return _evidently_text(e.body, fn, classes) and _evidently_text(e.orelse, fn, classes)
    if isinstance(e, ast_.BoolOp) and isinstance(e.op, ast_.Or):
        return all(_evidently_text(v, fn, classes) for v in e.values)
    params = {a.arg: a.annotation for a in (fn.args.posonlyargs + fn.args.args + fn.args.kwonlyargs)} if fn is not None else {}
    if isinstance(e, ast_.Name) and e.id in params and params[e.id] is not None:
        return ast_.unparse(params[e.id]) == "str"
    if isinstance(e, ast_.Name) and fn is not None and e.id not in params:
        # a local bound exactly once, to an expression that is evidently text
        binds = [n for n in ast_.walk(fn) if isinstance(n, ast_.Name) and n.id == e.id and isinstance(n.ctx, ast_.Store)]
        assigns = [a for a in ast_.walk(fn) if isinstance(a, ast_.Assign) and len(a.targets) == 1
                   and isinstance(a.targets[0], ast_.Name) and a.targets[0].id == e.id]
        return len(binds) == 1 and len(assigns) == 1 and _evidently_text(assigns[0].value, fn, classes)
    if isinstance(e, ast_.Attribute) and e.attr == "file_path" and isinstance(e.value, ast_.Name) and e.value.id in params \
            and params[e.value.id] is not None:
        return classes.get(ast_.unparse(params[e.value.id]).strip('"')) == "str"
    return False


@custom("c06-violation-file-path-is-text", props=["C06"])
def c06_file_path_is_text(ctx):
    """`Violation.file_path` is declared `str` (src/core/types.py) and the three renderers rely on it in different ways
    (text / JSON stringify it, SARIF passes it to the codec): the renderings can only agree -- and SARIF can only be
    produced at all -- if every site that builds a violation passes TEXT. Structural check of every construction site
    under src/ (Violation(...), ViolationInfo(...), build_violation_from_params(...), build_from_params(...)): the
    file_path argument is evidently a str (see _evidently_text). One obligation per site."""
    repo = ctx["repo"]
    trees, classes = [], {}
    for path in sorted(_glob.glob(_os.path.join(repo, "src", "**", "*.py"), recursive=True)):
        tree = ast_.parse(open(path, encoding="utf-8").read())
        trees.append((_os.path.relpath(path, repo), tree))
        for c in ast_.walk(tree):
            if isinstance(c, ast_.ClassDef):
                for st in c.body:
                    if isinstance(st, ast_.AnnAssign) and isinstance(st.target, ast_.Name) and st.target.id == "file_path":
                        classes[c.name] = ast_.unparse(st.annotation)
    obs = []
    for rel, tree in trees:
        funcs = [f for f in ast_.walk(tree) if isinstance(f, (ast_.FunctionDef, ast_.AsyncFunctionDef))]
        for n in ast_.walk(tree):
            if not (isinstance(n, ast_.Call) and ast_.unparse(n.func).split(".")[-1] in PRODUCER_CALLS):
                continue
            kw = [k for k in n.keywords if k.arg == "file_path"]
            if not kw:
                continue
            enclosing = [f for f in funcs if f.lineno <= n.lineno <= max(getattr(f, "end_lineno", f.lineno), f.lineno)]
            fn = max(enclosing, key=lambda f: f.lineno) if enclosing else None
            if rel == "src/core/types.py" and fn is not None and fn.name == "from_dict":
                continue  # rebuilds a violation from the dict of an existing one (C07: field by field)
            ok = _evidently_text(kw[0].value, fn, classes)
            obs.append({"name": f"c06-violation-file-path-is-text/{rel}:{fn.name if fn else '<module>'}:{ast_.unparse(n.func)}@{len([o for o in obs if o['name'].startswith(f'c06-violation-file-path-is-text/{rel}:')])}",
                        "kind": "structural", "solver": "ast", "ms": 0.0, "verdict": "discharged" if ok else "refuted",
                        "note": "" if ok else f"line {n.lineno}: file_path={ast_.unparse(kw[0].value)} is not evidently a str",
                        "model_inputs": {"site": f"{rel}:{n.lineno}", "file_path": ast_.unparse(kw[0].value)} if not ok else None,
                        "witness_confirmed": not ok})
    obs.append({"name": "c06-violation-file-path-is-text/sites-found", "kind": "structural", "solver": "ast", "ms": 0.0,
                "verdict": "discharged" if len(obs) >= 40 else "refuted", "note": f"{len(obs)} construction sites"})
    return obs


# ------------------------------------------------------------------------------------------ bounded differential at the observation point
_RENDERINGS = r'''
import json, os, sys, tempfile, shutil, logging, re, collections
sys.path.insert(0, os.environ["VERIF_REPO"])
logging.disable(logging.CRITICAL)
from pathlib import Path
from click.testing import CliRunner
from src.cli.main import cli
import src.cli.linters  # noqa: F401

PY = """import re


def price(quantity):
    print("price", quantity)
    if quantity > 3:
        for unit in range(quantity):
            if unit % 2:
                while unit:
                    if unit > 7:
                        return unit * 4711
                    unit -= 1
    return quantity * 1234 + 5678


def join(items):
    out = ""
    for item in items:
        out += str(item)
        if re.match("a+", out):
            continue
    return out


class Inventory:
    def __init__(self):
        self._name = "x"

    def get_name(self):
        return self._name
""" + "".join(f"\n    def operation_{i}(self, value):\n        return value + {100 + i}\n" for i in range(9))
TS = """export function price(quantity: number): number {
  console.log("price", quantity);
  if (quantity > 3) {
    for (let unit = 0; unit < quantity; unit++) {
      if (unit % 2) {
        while (unit) {
          if (unit > 7) { return unit * 4711; }
          unit -= 1;
        }
      }
    }
  }
  return quantity * 1234 + 5678;
}
"""
RS = """use std::fs;

async fn load(names: Vec<String>) -> String {
    let mut out = String::new();
    for name in names.iter() {
        let copy = name.clone();
        let text = fs::read_to_string(copy).unwrap();
        out.push_str(&text.clone().clone());
    }
    out
}
"""
BROKEN = "class Half:\n    def add(self, item:\n        return 1\n"

def run(args):
    try:
        runner = CliRunner(mix_stderr=False)
    except TypeError:
        runner = CliRunner()
    r = runner.invoke(cli, args)
    out = r.stdout if hasattr(r, "stdout") else r.output
    return r.exit_code, out

def first_json(out):
    i = out.find("{")
    return json.loads(out[i:]) if i >= 0 else None

bad, n = [], 0
tmp = Path(tempfile.mkdtemp(prefix="c06render_"))
try:
    (tmp / ".git").mkdir()
    for rel, content in {"pkg/shop.py": PY, "pkg/broken.py": BROKEN, "web/shop.ts": TS, "svc/load.rs": RS,
                         "café/mod é 'q'.py": PY.replace("price", "prïce")}.items():
        p = tmp / rel
        p.parent.mkdir(parents=True, exist_ok=True)
        p.write_text(content, encoding="utf-8")
    (tmp / "cfg.yaml").write_text("dry:\n  enabled: true\n  min_duplicate_lines: 3\n  cache_enabled: false\nstringly-typed:\n  enabled: true\n", encoding="utf-8")
    commands = sorted(name for name, cmd in cli.commands.items()
                      if any(getattr(p, "name", "") == "format" for p in cmd.params) and any(getattr(p, "name", "") == "paths" for p in cmd.params))
    scenarios = [("project", lambda c: [c, "--config", str(tmp / "cfg.yaml")], [str(tmp)]),
                 ("missing path", lambda c: [c], [str(tmp / "no-such-dir")]),
                 ("missing config", lambda c: [c, "--config", str(tmp / "no-such.yaml")], [str(tmp / "pkg")])]
    for cmd in commands:
        for label, head, paths in scenarios:
            n += 1
            res = {f: run(head(cmd) + ["--format", f] + paths) for f in ("text", "json", "sarif")}
            codes = {f: res[f][0] for f in res}
            where = {"command": cmd, "scenario": label}
            if len(set(codes.values())) != 1 or codes["json"] not in (0, 1, 2):
                bad.append(dict(where, problem="exit codes differ between the formats (or are not 0/1/2)", codes=codes))
                continue
            code = codes["json"]
            if label != "project":
                if code != 2:
                    bad.append(dict(where, problem="usage error does not exit 2", codes=codes))
                continue
            if code == 2:
                bad.append(dict(where, problem="a lintable project cannot be linted (exit 2)", output=res["json"][1][-200:]))
                continue
            try:
                j, s = first_json(res["json"][1]), first_json(res["sarif"][1])
                jv = j["violations"]
                run0 = s["runs"][0]
                sv = run0["results"]
                rules = [r["id"] for r in run0["tool"]["driver"]["rules"]]
            except Exception as e:  # noqa
                bad.append(dict(where, problem=f"a rendering is not a well-formed document: {e!r}"))
                continue
            jm = collections.Counter((v["rule_id"], v["file_path"], v["line"], v["column"], v["message"]) for v in jv)
            sm = collections.Counter((r["ruleId"], r["locations"][0]["physicalLocation"]["artifactLocation"]["uri"],
                                      r["locations"][0]["physicalLocation"]["region"]["startLine"],
                                      r["locations"][0]["physicalLocation"]["region"]["startColumn"] - 1, r["message"]["text"]) for r in sv)
            text = res["text"][1]
            m = re.search(r"Found (\d+) violation\(s\)", text)
            tn = int(m.group(1)) if m else (0 if "No violations found" in text else -1)
            probs = []
            if j["total"] != len(jv):
                probs.append(f"JSON total {j['total']} != {len(jv)} listed")
            if (code == 1) != (len(jv) > 0):
                probs.append(f"exit code {code} with {len(jv)} violations")
            if jm != sm:
                probs.append(f"JSON and SARIF list different violations ({len(jv)} vs {len(sv)})")
            if tn != len(jv) or text.count("\n    [ERROR] ") != len(jv):
                probs.append(f"text shows {tn} / {text.count(chr(10) + '    [ERROR] ')} violations, JSON {len(jv)}")
            if s.get("version") != "2.1.0" or len(set(rules)) != len(rules) or not {r["ruleId"] for r in sv} <= set(rules):
                probs.append("SARIF: version / rule declarations")
            if any(r["locations"][0]["physicalLocation"]["region"]["startColumn"] < 1 for r in sv):
                probs.append("SARIF: startColumn < 1")
            if probs:
                bad.append(dict(where, problem="; ".join(probs)))
    # "invalid option" => 2, with --parallel as without it: a value the linter's configuration rejects (from the
    # documented constraints), on a directory large enough for the real process pool (2 x workers files)
    many = tmp / "many"
    many.mkdir()
    for i in range(2 * min(8, os.cpu_count() or 1) + 1):
        (many / f"part_{i:02d}.py").write_text(f"def part_{i}(v):\n    if v:\n        return v * {7000 + i}\n    return v\n", encoding="utf-8")
    invalid = {"nesting": "nesting:\n  max_nesting_depth: 0\n", "srp": "srp:\n  max_methods: -1\n",
               "file-placement": "file-placement:\n  global_deny:\n    - pattern: '([unclosed'\n      reason: r\n"}
    for cmd, text in invalid.items():
        cfgp = tmp / f"invalid_{cmd}.yaml"
        cfgp.write_text(text, encoding="utf-8")
        for extra in ([], ["--parallel"]):
            n += 1
            code, out = run([cmd, "--config", str(cfgp), "--format", "json"] + extra + [str(many)])
            if code != 2:
                bad.append({"command": cmd, "scenario": "configuration value the linter rejects" + (" with --parallel" if extra else ""),
                            "problem": f"exit code {code} instead of 2", "stdout": out[-160:]})
    for cmd, args in {"nesting": ["--max-depth", "0"], "srp": ["--max-methods", "0"]}.items():
        for extra in ([], ["--parallel"]):
            n += 1
            code, out = run([cmd] + args + ["--format", "json"] + extra + [str(many)])
            if code != 2:
                bad.append({"command": cmd, "scenario": "invalid option " + " ".join(args) + (" with --parallel" if extra else ""),
                            "problem": f"exit code {code} instead of 2", "stdout": out[-160:]})
finally:
    shutil.rmtree(tmp, ignore_errors=True)
print("RESULT=" + json.dumps({"cases": n, "commands": len(commands), "bad": bad[:12]}))
'''


@custom("c06-renderings-agree-bounded", props=["C06"])
def c06_renderings_bounded(ctx):
    """BOUNDED NATIVE DIFFERENTIAL at the property's observation point (not a proof; listed under `bounded`): every
    linter command of the real CLI is run with --format text / json / sarif on one generated multi-language project
    (Python incl. a file that does not parse, TypeScript, Rust, a path with non-ASCII characters, spaces and quotes;
    DRY and stringly-typed switched on) and on two usage errors (missing path, missing --config). Oracle from the
    property text only: the three exit codes are equal and in {0, 1, 2}; 1 iff violations are listed; usage errors
    give 2 -- including option / configuration values a linter rejects, with --parallel as without it (a directory of
    2 x workers + 1 files, so the real process pool runs); JSON total == number listed; JSON and SARIF list the same multiset of (rule id, file, line, column,
    message); the text rendering shows as many blocks; SARIF is 2.1.0 with unique rule ids covering every result and
    1-based columns."""
    import json
    import subprocess
    import sys
    import time
    t0 = time.time()
    p = subprocess.run([sys.executable, "-c", _RENDERINGS], capture_output=True, text=True, timeout=900,
                       env=dict(_os.environ, VERIF_REPO=ctx["repo"], PYTHONWARNINGS="ignore"), cwd="/tmp")
    res = None
    for line in p.stdout.splitlines():
        if line.startswith("RESULT="):
            res = json.loads(line[7:])
    name = "c06-renderings-agree-bounded"
    if res is None:
        return [{"name": name, "kind": "bounded", "verdict": "refuted", "tool": "cpython differential (click CliRunner)", "budget": "-",
                 "cases": 0, "note": "the differential run failed: " + (p.stderr or p.stdout)[-600:], "witness_confirmed": True,
                 "model_inputs": {"stderr": (p.stderr or "")[-1500:]}, "ms": round((time.time() - t0) * 1000)}]
    bad = res["bad"]
    if res["commands"] < 15:
        bad = bad + [{"problem": f"only {res['commands']} linter commands found"}]
    return [{"name": name, "kind": "bounded", "verdict": "passed" if not bad else "refuted",
             "tool": "cpython differential (click CliRunner)", "cases": res["cases"],
             "budget": f"{res['commands']} commands x 3 formats x (1 project + 2 usage errors)",
             "note": "" if not bad else f"{bad[:2]}", "witness_confirmed": bool(bad),
             "model_inputs": {"disagreements": bad} if bad else None, "ms": round((time.time() - t0) * 1000)}]
