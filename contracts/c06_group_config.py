"""C06 (part 3) -- the GROUP-level configuration path: `thailint --config X <command>` and the auto-discovered
./config.yaml, ~/.config/.../config.yaml (src/cli/main.py::cli -> src/config.py::load_config -> ... -> parse_config_file).

Property text: exit code "2 when the run itself cannot be performed (missing path, missing or malformed config, invalid
option)". At this level that means: whatever goes wrong while the group-level configuration is read -- syntax error, a
document that is not a mapping, bytes that are not UTF-8, a directory / unreadable file, an invalid value -- the process
ends with exit code 2 and an error on stderr; it never dies with an escaping exception (a traceback is exit code 1, the
code reserved for "violations reported") and never writes to stdout.

The functions below are a family of VIEWS (`target~c06`, option callee_view="c06": callees are applied through their
view of the same family): the C20 contracts of the same functions describe WHAT is loaded for well-formed mappings
(preconditions on the document); these views describe the RAISE SET for arbitrary file contents, with no precondition."""
import z3

from pyvc.api import contract, custom, Any, Int, Bool, Str, Dict, Opt, SeqOf, TupleOf, Rec, Opaque, implies, uf
from pyvc.ex_call import EXTERNALS
from pyvc.ty import VNone
from contracts._common import PathT
from contracts import c20_config_tool  # noqa: F401  (validate_config / merge_configs contracts, Path.cwd / Path.home externals)
from contracts.c09_paths import fs_exists, path_of_str

CF = "src/config.py::"
CP = "src/core/config_parser.py::"
MAIN = "src/cli/main.py::"
FAMILY = dict(callee_view="c06", no_selftest=True)


@contract(CP + "parse_config_file~c06", props=["C06"], types=dict(path=PathT, encoding=Str), returns=Dict,
          raises=["ConfigParseError", "Exception"], **FAMILY,
          assumed="RAISE-SET view for ARBITRARY file contents (the verified contract in contracts/c05_parse.py assumes a "
                  "mapping document): besides ConfigParseError (YAML / JSON syntax, unsupported extension) reading a "
                  "configuration file can fail with OSError (directory, unreadable), UnicodeDecodeError (not UTF-8) or "
                  "AttributeError (top level is a list / scalar) -- over-approximated as: any Exception. No output, no exit")
class ParseConfigFileAnyContent:
    def ensures(result):
        return True


@contract(CF + "_load_config_file~c06", props=["C06"], types=dict(path=PathT), returns=Dict, raises=["ConfigError"], **FAMILY)
class LoadConfigFileRaiseSet:
    def on_raise_every_failure_is_a_config_error(exc_class):
        # ... so that the `except ConfigError` of cli() / _try_load_from_location sees it
        return exc_class == "ConfigError"


@contract(CF + "_load_and_merge_config~c06", props=["C06"], types=dict(config_path=PathT, config=Dict, user_config=Dict),
          returns=Dict, raises=["ConfigError"], **FAMILY)
class LoadAndMergeConfigRaiseSet:
    def on_raise_only_config_error(exc_class):
        return exc_class == "ConfigError"


@contract(CF + "_validate_and_return_config~c06", props=["C06"],
          types=dict(config=Dict, config_path=PathT, is_valid=Bool, errors=SeqOf(Str), error_msg=Str), returns=Dict,
          raises=["ConfigError"], **FAMILY)
class ValidateAndReturnConfig:
    def on_raise_only_config_error(exc_class):
        return exc_class == "ConfigError"

    def ensures_unchanged(config, result):
        return result == config


@contract(CF + "_try_load_from_location~c06", props=["C06"],
          types=dict(location=PathT, config=Dict, is_valid=Bool, errors=SeqOf(Str)), returns=Opt(Dict), raises=[], **FAMILY)
class TryLoadFromLocation:
    """An auto-discovered file that cannot be used is skipped with a warning -- never an exception."""
    def ensures(result):
        return True


@contract(CF + "_load_from_explicit_path~c06", props=["C06"], types=dict(config_path=PathT, merged_config=Dict), returns=Dict,
          raises=["ConfigError"], **FAMILY)
class LoadFromExplicitPath:
    def on_raise_only_config_error(exc_class):
        return exc_class == "ConfigError"


@contract(CF + "_load_from_default_locations~c06", props=["C06"],
          types=dict(existing_locations=SeqOf(PathT), location=PathT, loaded_config=Opt(Dict)), returns=Dict, raises=[], **FAMILY)
class LoadFromDefaultLocations:
    """Auto-discovery never fails: unusable files are skipped, the defaults are the fallback."""
    def ensures(result):
        return True

    def inv0(rest):
        return True


@contract(CF + "load_config~c06", props=["C06"], types=dict(config_path=Opt(PathT)), returns=Dict, raises=["ConfigError"], **FAMILY)
class LoadConfig:
    def on_raise_only_config_error(config_path, exc_class):
        # only an EXPLICIT configuration file can make the run impossible
        return exc_class == "ConfigError" and config_path is not None


# ---- the click group callback
ClickCtxT = Rec("Context", obj=Dict)


def _x_ensure_object(ex, args, kwargs, lineno):
    """ctx.ensure_object(dict): ctx.obj is a dict afterwards (an existing one is kept)."""
    return args[0].fields["obj"]


EXTERNALS.setdefault("Context.ensure_object", _x_ensure_object)


@contract(MAIN + "setup_logging", props=["C06"], types=dict(verbose=Bool, level=Str), **FAMILY)
class SetupLogging:
    """Handler management of the diagnostics logger: no output on stdout, no exit."""
    def ensures(verbose):
        return True


@contract(MAIN + "cli", props=["C06"],
          types=dict(ctx=ClickCtxT, verbose=Bool, config=Opt(Str), project_root=Opt(Str)),
          raises=["SystemExit"], modifies=["ctx.obj", "stderr"], exc=Int, **FAMILY)
class CliGroup:
    def on_raise_unusable_group_config_is_exit_2(config, exc, exc_class):
        # property text: "missing or malformed config" => 2. The ONLY way the group callback ends the process is exit
        # code 2 (any other exception class escaping -- a traceback, exit code 1 -- is an undeclared raise), and only
        # for an explicitly given --config file
        return exc_class == "SystemExit" and exc == 2 and config is not None and len(config) > 0

    def ensures_options_recorded_for_the_commands(ctx, verbose, config, project_root):
        return "config" in ctx.obj and "verbose" in ctx.obj and "cli_config_path" in ctx.obj and "cli_project_root" in ctx.obj
