"""C06 (part 1) -- the three renderings of a violation list (src/core/cli_utils.py, src/formatters/sarif.py).

Property text: "For one and the same run the text, JSON and SARIF renderings describe the same multiset of
violations (rule id, file, line, column, message), the JSON `total` equals the number of listed violations, and each
rendering is well-formed: ... a SARIF 2.1.0 document whose lines and columns are 1-based and whose every result's
ruleId is declared in the driver's rules."

Output is modelled by the ghost stream `stdout` (one element per click.echo call, pyvc/effects.py); json.dumps is an
uninterpreted function of the DOCUMENT it is given (the json module is trusted, DESIGN.md 3/C06 tier A), so the
contracts below state which document is printed. The specification of each document is written from the property
text: one entry per violation, in order, each field copied."""
import json

from pyvc.api import (contract, lemma, custom, Int, Bool, Str, Opt, SeqOf, TupleOf, Rec, Opaque, implies, call, mk, ih,
                      opaque, reveal, uf, added, use)
from contracts import _common  # noqa: F401  (external handlers: click.echo, sys.exit, json.dumps)

CU = "src/core/cli_utils.py::"
SF = "src/formatters/sarif.py::"

SeverityT = Rec("Severity", cls="src/core/types.py::Severity")
SeverityT.fields.update({"name": Str, "value": Str})  # (a field called `name` cannot be passed as a keyword of Rec)


def _native_severity(fields):
    from src.core.types import Severity
    return Severity.ERROR


SeverityT.build_native = _native_severity
ViolationS = Rec("Violation", cls="src/core/types.py::Violation", pycls="src.core.types:Violation",
                 rule_id=Str, file_path=Str, line=Int, column=Int, message=Str, severity=SeverityT, suggestion=Opt(Str))
Violations = SeqOf(ViolationS)


# ------------------------------------------------------------------------------------------ _sanitize_string
def _sanitize_native(text):
    return text.encode("utf-8", errors="surrogateescape").decode("utf-8", errors="replace")


sanitize = uf("sanitize", [Str], Str, concrete=_sanitize_native)


@contract(CU + "_sanitize_string", props=["C06"], types=dict(text=Str), returns=Str,
          assumed="codec plumbing (str.encode(surrogateescape) / bytes.decode(replace)); the result is the uninterpreted "
                  "function sanitize(text). Its documented effect (no surrogate survives, strings without surrogates are "
                  "unchanged, total on surrogate-escaped input) is checked on a bounded domain by c06-sanitize-bounded")
class SanitizeString:
    def value(text):
        return sanitize(text)


# ------------------------------------------------------------------------------------------ text
def text_block(v):
    """One block per violation: location line (path, :line when non-zero, :column when non-zero), the
    `[SEVERITY] rule: message` line, and an empty line."""
    return [f"  {sanitize(v.file_path)}" + (f":{v.line}" if v.line != 0 else "") + (f":{v.column}" if v.column != 0 else ""),
            f"    [{v.severity.name}] {v.rule_id}: {sanitize(v.message)}",
            ""]


@contract(CU + "_print_violation", props=["C06"], types=dict(v=ViolationS), modifies=["stdout"])
class PrintViolation:
    def ensures_block(v, stdout, old):
        return stdout == old.stdout + text_block(v)


def text_blocks(vs: Violations) -> SeqOf(Str):
    if len(vs) == 0:
        return []
    return text_block(vs[0]) + text_blocks(vs[1:])


def text_rendering(vs):
    return ["✓ No violations found"] if len(vs) == 0 else [f"Found {len(vs)} violation(s):\n"] + text_blocks(vs)


@contract(CU + "_output_text", props=["C06"], types=dict(violations=Violations, v=ViolationS), modifies=["stdout"])
class OutputText:
    def ensures_rendering(violations, stdout, old):
        return stdout == old.stdout + text_rendering(violations)

    def inv0(violations, stdout, old, rest):
        return len(violations) > 0 and \
            stdout + text_blocks(rest) == old.stdout + [f"Found {len(violations)} violation(s):\n"] + text_blocks(violations)


# ------------------------------------------------------------------------------------------ JSON
def json_entry(v):
    """Property text: each entry carries rule id, file, line, column, message (and the severity name)."""
    return {"rule_id": v.rule_id, "file_path": sanitize(v.file_path), "line": v.line, "column": v.column,
            "message": sanitize(v.message), "severity": v.severity.name}


def json_doc(vs):
    """One entry per violation, in order; `total` is the number of violations."""
    return {"violations": [json_entry(v) for v in vs], "total": len(vs)}


@contract(CU + "_output_json", props=["C06"], types=dict(violations=Violations), modifies=["stdout"])
class OutputJson:
    def ensures_document(violations, stdout, old):
        return stdout == old.stdout + [json.dumps(json_doc(violations), indent=2)]


@lemma(props=["C06"], types=dict(vs=Violations), name="json-total-equals-number-of-listed-violations")
def json_total(vs):
    """`total` == len(`violations` array) == number of violations given (map preserves length; induction on vs)."""
    d = json_doc(vs)
    if len(vs) == 0:
        return d["total"] == len(d["violations"]) and len(d["violations"]) == 0
    ih(json_total, vs[1:])
    return d["total"] == len(d["violations"]) and len(d["violations"]) == len(vs)


# ------------------------------------------------------------------------------------------ SARIF
FormatterT = Rec("SarifFormatter", cls=SF + "SarifFormatter", pycls="src.formatters.sarif:SarifFormatter",
                 tool_name=Str, tool_version=Str, information_uri=Str)
TextT = Rec("dict", as_dict=True, text=Str)
RuleT = Rec("dict", as_dict=True, id=Str, shortDescription=TextT)
Rules = SeqOf(RuleT)
DESCRIPTIONS = {
    "file-placement": "File placement violation", "nesting": "Nesting depth violation",
    "srp": "Single Responsibility Principle violation", "dry": "Don't Repeat Yourself violation",
    "magic-number": "Magic number violation", "magic-numbers": "Magic number violation",
    "file-header": "File header violation", "print-statements": "Print statement violation",
}


@contract(SF + "SarifFormatter.__init__", props=["C06"],
          types=dict(self=FormatterT, tool_name=Str, tool_version=Opt(Str), information_uri=Opt(Str)),
          modifies=["self.tool_name", "self.tool_version", "self.information_uri"],
          assumed="stores the tool metadata; the default version is read from the installed package metadata "
                  "(importlib.metadata), which is outside the verified subset. No property clause depends on the values")
class FormatterInit:
    def ensures(self, tool_name):
        return self.tool_name == tool_name


def sarif_location(v):
    """SARIF lines and columns are 1-based; Violation.line is 1-based, Violation.column 0-based (src/core/types.py)."""
    return {"physicalLocation": {"artifactLocation": {"uri": v.file_path},
                                 "region": {"startLine": v.line, "startColumn": v.column + 1}}}


def sarif_result(v):
    return {"ruleId": v.rule_id, "level": "error", "message": {"text": v.message}, "locations": [sarif_location(v)]}


@contract(SF + "SarifFormatter._create_location", props=["C06"], types=dict(self=FormatterT, violation=ViolationS))
class CreateLocation:
    def value(violation):
        return sarif_location(violation)


@contract(SF + "SarifFormatter._create_result", props=["C06"], types=dict(self=FormatterT, violation=ViolationS))
class CreateResult:
    def value(violation):
        return sarif_result(violation)


@opaque
def description_of(rule_id: Str) -> Str:
    """Short description: by category (text before the first '.'), else "Rule: <id>" (code-derived helper)."""
    return DESCRIPTIONS.get(rule_id.split(".")[0], f"Rule: {rule_id}")


def rule_of(v):
    return {"id": v.rule_id, "shortDescription": {"text": description_of(v.rule_id)}}


@contract(SF + "SarifFormatter._create_rule", props=["C06"],
          types=dict(self=FormatterT, violation=ViolationS, parts=SeqOf(Str)))
class CreateRule:
    def reveals(violation):
        return reveal(description_of, violation.rule_id)

    def value(violation):
        return rule_of(violation)


def rules_fold(vs: Violations, seen: SeqOf(Str), acc: Rules) -> Rules:
    """The fold performed by _create_rules: one rule object per rule id, at its first occurrence."""
    if len(vs) == 0:
        return acc
    if vs[0].rule_id in seen:
        return rules_fold(vs[1:], seen, acc)
    return rules_fold(vs[1:], seen + [vs[0].rule_id], acc + [rule_of(vs[0])])


@contract(SF + "SarifFormatter._create_rules", props=["C06"],
          types=dict(self=FormatterT, violations=Violations, violation=ViolationS, rules=Rules), returns=Rules)
class CreateRules:
    def ensures_fold(violations, result):
        return result == rules_fold(violations, [], [])

    def lemmas_rule_closure(violations):
        return rules_fold_props(violations, [], [])

    def ensures_rule_closure(violations, result):
        # property text: "every result's ruleId is declared in the driver's rules" (results are one per violation)
        return all(v.rule_id in [r["id"] for r in result] for v in violations)

    def lemmas_rule_ids_unique(violations):
        return rules_fold_props(violations, [], [])

    def ensures_rule_ids_unique(violations, result):
        return nodup([r["id"] for r in result])

    def inv0(violations, rules, seen_rule_ids, rest):
        return rules_fold(violations, [], []) == rules_fold(rest, added(seen_rule_ids), rules)


def nodup(s: SeqOf(Str)) -> Bool:
    """Pairwise distinct (recursion on the LAST element, so that appending one element is one unfolding)."""
    return len(s) == 0 or (s[len(s) - 1] not in s[:len(s) - 1] and nodup(s[:len(s) - 1]))


@lemma(props=["C06"], types=dict(a=Rules, r=RuleT), name="rule-ids-of-append")
def ids_snoc(a, r):
    """[x.id for x in a + [r]] == [x.id for x in a] + [r.id]   (induction on a)."""
    if len(a) == 0:
        return [x["id"] for x in a + [r]] == [x["id"] for x in a] + [r["id"]]
    ih(ids_snoc, a[1:], r)
    return [x["id"] for x in a + [r]] == [x["id"] for x in a] + [r["id"]]


@lemma(props=["C06"], types=dict(vs=Violations, seen=SeqOf(Str), acc=Rules), name="sarif-rules-closed-and-unique")
def rules_fold_props(vs, seen, acc):
    """By induction on vs, for accumulators with ids(acc) == seen and seen duplicate-free: the fold's ids are
    duplicate-free, start with `seen`, and contain the rule id of every violation in vs."""
    if not ([x["id"] for x in acc] == seen and nodup(seen)):
        return True
    r = rules_fold(vs, seen, acc)
    if len(vs) == 0:
        return nodup([x["id"] for x in r]) and [x["id"] for x in r][:len(seen)] == seen
    if vs[0].rule_id in seen:
        ih(rules_fold_props, vs[1:], seen, acc)
    else:
        use(ids_snoc, acc, rule_of(vs[0]))
        ih(rules_fold_props, vs[1:], seen + [vs[0].rule_id], acc + [rule_of(vs[0])])
    return (nodup([x["id"] for x in r]) and [x["id"] for x in r][:len(seen)] == seen
            and len([x["id"] for x in r]) >= len(seen)
            and all(v.rule_id in [x["id"] for x in r] for v in vs))
