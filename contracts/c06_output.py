"""C06 (part 1) -- the three renderings of a violation list (src/core/cli_utils.py, src/formatters/sarif.py).

Property text: "For one and the same run the text, JSON and SARIF renderings describe the same multiset of
violations (rule id, file, line, column, message), the JSON `total` equals the number of listed violations, and each
rendering is well-formed: ... a SARIF 2.1.0 document whose lines and columns are 1-based and whose every result's
ruleId is declared in the driver's rules."

Output is modelled by the ghost stream `stdout` (one element per click.echo call, pyvc/effects.py); json.dumps is an
uninterpreted function of the DOCUMENT it is given (the json module is trusted, DESIGN.md 3/C06 tier A), so the
contracts below state which document is printed. The specification of each document is written from the property
text: one entry per violation, in order, each field copied."""
import json

from pyvc.api import (contract, lemma, custom, Int, Bool, Str, Opt, SeqOf, TupleOf, Rec, Opaque, EnumOf, implies, call, mk, ih,
                      opaque, reveal, uf, added, use)
from contracts import _common  # noqa: F401  (external handlers: click.echo, sys.exit, json.dumps)

CU = "src/core/cli_utils.py::"
SF = "src/formatters/sarif.py::"

# Severity members are represented by their value string ("error"); ViolationS is therefore the SAME record sort as
# contracts._common.ViolationT (severity=Str): two views of the same objects
SeverityT = EnumOf("src/core/types.py::Severity", pycls="src.core.types:Severity")
ViolationS = Rec("Violation", cls="src/core/types.py::Violation", pycls="src.core.types:Violation",
                 rule_id=Str, file_path=Str, line=Int, column=Int, message=Str, severity=SeverityT, suggestion=Opt(Str))
Violations = SeqOf(ViolationS)


# ------------------------------------------------------------------------------------------ _sanitize_string
def _sanitize_native(text):
    return text.encode("utf-8", errors="surrogateescape").decode("utf-8", errors="replace")


sanitize = uf("sanitize", [Str], Str, concrete=_sanitize_native)


@contract(CU + "_sanitize_string", props=["C06"], types=dict(text=Str), returns=Str,
          assumed="codec plumbing (str.encode(surrogateescape) / bytes.decode(replace)); the result is the uninterpreted "
                  "function sanitize(text). Its documented effect (no surrogate survives, strings without surrogates are "
                  "unchanged, total on surrogate-escaped input) is checked on a bounded domain by c06-sanitize-bounded")
class SanitizeString:
    def value(text):
        return sanitize(text)


# ------------------------------------------------------------------------------------------ text
@opaque
def text_block(v: ViolationS) -> SeqOf(Str):
    """One block per violation: location line (path, :line when non-zero, :column when non-zero), the
    `[SEVERITY] rule: message` line, and an empty line."""
    return [f"  {sanitize(v.file_path)}" + (f":{v.line}" if v.line != 0 else "") + (f":{v.column}" if v.column != 0 else ""),
            f"    [{v.severity.name}] {v.rule_id}: {sanitize(v.message)}",
            ""]


@contract(CU + "_print_violation", props=["C06"], types=dict(v=ViolationS), modifies=["stdout"])
class PrintViolation:
    def reveals(v):
        return reveal(text_block, v)

    def ensures_block(v, stdout, old):
        return stdout == old.stdout + text_block(v)


def text_blocks(vs: Violations) -> SeqOf(Str):
    if len(vs) == 0:
        return []
    return text_block(vs[0]) + text_blocks(vs[1:])


def text_rendering(vs):
    return ["✓ No violations found"] if len(vs) == 0 else [f"Found {len(vs)} violation(s):\n"] + text_blocks(vs)


@contract(CU + "_output_text", props=["C06"], types=dict(violations=Violations, v=ViolationS), modifies=["stdout"])
class OutputText:
    def ensures_rendering(violations, stdout, old):
        return stdout == old.stdout + text_rendering(violations)

    def inv0(violations, stdout, old, rest):
        return len(violations) > 0 and \
            stdout + text_blocks(rest) == old.stdout + [f"Found {len(violations)} violation(s):\n"] + text_blocks(violations)


# ------------------------------------------------------------------------------------------ JSON
def json_entry(v):
    """Property text: each entry carries rule id, file, line, column, message (and the severity name)."""
    return {"rule_id": v.rule_id, "file_path": sanitize(v.file_path), "line": v.line, "column": v.column,
            "message": sanitize(v.message), "severity": v.severity.name}


def json_doc(vs):
    """One entry per violation, in order; `total` is the number of violations."""
    return {"violations": [json_entry(v) for v in vs], "total": len(vs)}


@contract(CU + "_output_json", props=["C06"], types=dict(violations=Violations), modifies=["stdout"])
class OutputJson:
    def ensures_document(violations, stdout, old):
        return stdout == old.stdout + [json.dumps(json_doc(violations), indent=2)]


@lemma(props=["C06"], types=dict(vs=Violations), name="json-total-equals-number-of-listed-violations")
def json_total(vs):
    """`total` == len(`violations` array) == number of violations given (map preserves length; induction on vs)."""
    d = json_doc(vs)
    if len(vs) == 0:
        return d["total"] == len(d["violations"]) and len(d["violations"]) == 0
    ih(json_total, vs[1:])
    return d["total"] == len(d["violations"]) and len(d["violations"]) == len(vs)


# ------------------------------------------------------------------------------------------ SARIF
FormatterT = Rec("SarifFormatter", cls=SF + "SarifFormatter", pycls="src.formatters.sarif:SarifFormatter",
                 tool_name=Str, tool_version=Str, information_uri=Str)
TextT = Rec("dict", as_dict=True, text=Str)
RuleT = Rec("dict", as_dict=True, id=Str, shortDescription=TextT)
Rules = SeqOf(RuleT)
DESCRIPTIONS = {
    "file-placement": "File placement violation", "nesting": "Nesting depth violation",
    "srp": "Single Responsibility Principle violation", "dry": "Don't Repeat Yourself violation",
    "magic-number": "Magic number violation", "magic-numbers": "Magic number violation",
    "file-header": "File header violation", "print-statements": "Print statement violation",
}


DEFAULT_URI = "https://github.com/be-wise-be-kind/thai-lint"
package_version = uf("package_version", [], Str)  # src.__version__ (installed package metadata): an unknown string


@contract(SF + "SarifFormatter.__init__", props=["C06"],
          types=dict(self=FormatterT, tool_name=Str, tool_version=Opt(Str), information_uri=Opt(Str)),
          modifies=["self.tool_name", "self.tool_version", "self.information_uri"],
          assumed="stores the tool metadata; the default version is read from the installed package metadata "
                  "(importlib.metadata), which is outside the verified subset. No property clause depends on the values")
class FormatterInit:
    def ensures(self, tool_name, tool_version, information_uri):
        return self.tool_name == tool_name \
            and self.tool_version == (tool_version if tool_version is not None and len(tool_version) > 0 else package_version()) \
            and self.information_uri == (information_uri if information_uri is not None and len(information_uri) > 0
                                         else DEFAULT_URI)


def sarif_location(v):
    """SARIF lines and columns are 1-based; Violation.line is 1-based, Violation.column 0-based (src/core/types.py).
    The file is shown as in the other renderings (through _sanitize_string)."""
    return {"physicalLocation": {"artifactLocation": {"uri": sanitize(v.file_path)},
                                 "region": {"startLine": v.line, "startColumn": v.column + 1}}}


def sarif_result(v):
    return {"ruleId": v.rule_id, "level": "error", "message": {"text": sanitize(v.message)}, "locations": [sarif_location(v)]}


@contract(SF + "SarifFormatter._create_location", props=["C06"], types=dict(self=FormatterT, violation=ViolationS))
class CreateLocation:
    def value(violation):
        return sarif_location(violation)


@contract(SF + "SarifFormatter._create_result", props=["C06"], types=dict(self=FormatterT, violation=ViolationS))
class CreateResult:
    def value(violation):
        return sarif_result(violation)


@opaque
def description_of(rule_id: Str) -> Str:
    """Short description: by category (text before the first '.'), else "Rule: <id>" (code-derived helper)."""
    return DESCRIPTIONS.get(rule_id.split(".")[0], f"Rule: {rule_id}")


def rule_of(v):
    return {"id": v.rule_id, "shortDescription": {"text": description_of(v.rule_id)}}


@contract(SF + "SarifFormatter._create_rule", props=["C06"],
          types=dict(self=FormatterT, violation=ViolationS, parts=SeqOf(Str)))
class CreateRule:
    def reveals(violation):
        return reveal(description_of, violation.rule_id)

    def value(violation):
        return rule_of(violation)


def rules_fold(vs: Violations, seen: SeqOf(Str), acc: Rules) -> Rules:
    """The fold performed by _create_rules: one rule object per rule id, at its first occurrence."""
    if len(vs) == 0:
        return acc
    if vs[0].rule_id in seen:
        return rules_fold(vs[1:], seen, acc)
    return rules_fold(vs[1:], seen + [vs[0].rule_id], acc + [rule_of(vs[0])])


@contract(SF + "SarifFormatter._create_rules", props=["C06"],
          types=dict(self=FormatterT, violations=Violations, violation=ViolationS, rules=Rules), returns=Rules)
class CreateRules:
    def ensures_fold(violations, result):
        return result == rules_fold(violations, [], [])

    def lemmas_rule_closure(violations):
        return fold_ids(violations, [], []) and fold_closed(violations, [])

    def ensures_rule_closure(violations, result):
        # property text: "every result's ruleId is declared in the driver's rules" (results are one per violation)
        return declared_in(violations, [r["id"] for r in result])

    def lemmas_rule_ids_unique(violations):
        return fold_ids(violations, [], []) and fold_nodup(violations, [])

    def ensures_rule_ids_unique(violations, result):
        return nodup([r["id"] for r in result])

    def inv0(self, old, violations, rules, seen_rule_ids, rest):
        return rules_fold(violations, [], []) == rules_fold(rest, added(seen_rule_ids), rules) and self == old.self


def declared_in(vs: Violations, ids: SeqOf(Str)) -> Bool:
    """The rule id of every violation in vs occurs in ids."""
    return len(vs) == 0 or (vs[0].rule_id in ids and declared_in(vs[1:], ids))


def nodup(s: SeqOf(Str)) -> Bool:
    """Pairwise distinct (recursion on the LAST element, so that appending one element is one unfolding)."""
    return len(s) == 0 or (s[len(s) - 1] not in s[:len(s) - 1] and nodup(s[:len(s) - 1]))


@lemma(props=["C06"], types=dict(a=Rules, r=RuleT), name="tail-of-append")
def tail_snoc(a, r):
    """Sequence fact used as a hint: head and tail of a non-empty list with one element appended."""
    return implies(len(a) > 0, (a + [r])[1:] == a[1:] + [r] and (a + [r])[0] == a[0])


@lemma(props=["C06"], types=dict(a=Rules, r=RuleT), name="rule-ids-of-append")
def ids_snoc(a, r):
    """[x.id for x in a + [r]] == [x.id for x in a] + [r.id]   (induction on a)."""
    if len(a) == 0:
        return [x["id"] for x in a + [r]] == [x["id"] for x in a] + [r["id"]]
    use(tail_snoc, a, r)
    ih(ids_snoc, a[1:], r)
    return [x["id"] for x in a + [r]] == [x["id"] for x in a] + [r["id"]]


def id_fold(vs: Violations, seen: SeqOf(Str)) -> SeqOf(Str):
    """The distinct rule ids of vs in order of first occurrence, appended to `seen`."""
    if len(vs) == 0:
        return seen
    if vs[0].rule_id in seen:
        return id_fold(vs[1:], seen)
    return id_fold(vs[1:], seen + [vs[0].rule_id])


@lemma(props=["C06"], types=dict(vs=Violations, seen=SeqOf(Str), acc=Rules), name="sarif-rule-ids-are-the-distinct-ids")
def fold_ids(vs, seen, acc):
    """ids(rules_fold(vs, seen, acc)) == id_fold(vs, seen) whenever ids(acc) == seen   (induction on vs)."""
    if [x["id"] for x in acc] != seen:
        return True
    if len(vs) == 0:
        return [x["id"] for x in rules_fold(vs, seen, acc)] == id_fold(vs, seen)
    if vs[0].rule_id in seen:
        ih(fold_ids, vs[1:], seen, acc)
    else:
        use(ids_snoc, acc, rule_of(vs[0]))
        ih(fold_ids, vs[1:], seen + [vs[0].rule_id], acc + [rule_of(vs[0])])
    return [x["id"] for x in rules_fold(vs, seen, acc)] == id_fold(vs, seen)


@lemma(props=["C06"], types=dict(vs=Violations, seen=SeqOf(Str), x=Str), name="id-fold-keeps-seen")
def fold_mono(vs, seen, x):
    if len(vs) == 0:
        return implies(x in seen, x in id_fold(vs, seen))
    if vs[0].rule_id in seen:
        ih(fold_mono, vs[1:], seen, x)
    else:
        ih(fold_mono, vs[1:], seen + [vs[0].rule_id], x)
    return implies(x in seen, x in id_fold(vs, seen))


@lemma(props=["C06"], types=dict(vs=Violations, seen=SeqOf(Str)), name="sarif-rule-closure")
def fold_closed(vs, seen):
    """Every violation's rule id is among the declared ids."""
    if len(vs) == 0:
        return declared_in(vs, id_fold(vs, seen))
    if vs[0].rule_id in seen:
        use(fold_mono, vs[1:], seen, vs[0].rule_id)
        ih(fold_closed, vs[1:], seen)
    else:
        use(fold_mono, vs[1:], seen + [vs[0].rule_id], vs[0].rule_id)
        ih(fold_closed, vs[1:], seen + [vs[0].rule_id])
    return declared_in(vs, id_fold(vs, seen))


@lemma(props=["C06"], types=dict(vs=Violations, seen=SeqOf(Str)), name="sarif-rule-ids-unique")
def fold_nodup(vs, seen):
    if not nodup(seen):
        return True
    if len(vs) == 0:
        return nodup(id_fold(vs, seen))
    if vs[0].rule_id in seen:
        ih(fold_nodup, vs[1:], seen)
    else:
        ih(fold_nodup, vs[1:], seen + [vs[0].rule_id])
    return nodup(id_fold(vs, seen))


SARIF_SCHEMA = "https://raw.githubusercontent.com/oasis-tcs/sarif-spec/main/sarif-2.1/schema/sarif-schema-2.1.0.json"


def sarif_tool(self, vs):
    return {"driver": {"name": self.tool_name, "version": self.tool_version, "informationUri": self.information_uri,
                       "rules": rules_fold(vs, [], [])}}


def sarif_run(self, vs):
    """`results`: one result per violation, in order."""
    return {"tool": sarif_tool(self, vs), "results": [sarif_result(v) for v in vs]}


def sarif_doc(self, vs):
    return {"version": "2.1.0", "$schema": SARIF_SCHEMA, "runs": [sarif_run(self, vs)]}


@contract(SF + "SarifFormatter._create_tool", props=["C06"], types=dict(self=FormatterT, violations=Violations))
class CreateTool:
    def value(self, violations):
        return sarif_tool(self, violations)


@contract(SF + "SarifFormatter._create_run", props=["C06"], types=dict(self=FormatterT, violations=Violations))
class CreateRun:
    def value(self, violations):
        return sarif_run(self, violations)


@contract(SF + "SarifFormatter.format", props=["C06"], types=dict(self=FormatterT, violations=Violations))
class FormatSarif:
    def value(self, violations):
        return sarif_doc(self, violations)


def default_formatter():
    return mk(FormatterT, tool_name="thai-lint", tool_version=package_version(), information_uri=DEFAULT_URI)




@contract(CU + "_output_sarif", props=["C06"], types=dict(violations=Violations, formatter=FormatterT), modifies=["stdout"])
class OutputSarif:
    def ensures_document(violations, stdout, old):
        # some formatter with the default tool name (its version comes from the package metadata)
        return stdout == old.stdout + [json.dumps(sarif_doc(default_formatter(), violations), indent=2)]


# ------------------------------------------------------------------------------------------ format_violations
@opaque
def rendering(vs: Violations, fmt: Str) -> SeqOf(Str):
    """What `thailint <linter> --format fmt` prints for the violation list vs (the messages passed to click.echo)."""
    if fmt == "json":
        return [json.dumps(json_doc(vs), indent=2)]
    if fmt == "sarif":
        return [json.dumps(sarif_doc(default_formatter(), vs), indent=2)]
    return text_rendering(vs)


@contract(CU + "format_violations", props=["C06"], types=dict(violations=Violations, output_format=Str), modifies=["stdout"])
class FormatViolations:
    def reveals(violations, output_format):
        return reveal(rendering, violations, output_format)

    def ensures_rendering(violations, output_format, stdout, old):
        return stdout == old.stdout + rendering(violations, output_format)


# ------------------------------------------------------------------------------------------ same violations in all three
def shown(v):
    """What every rendering shows of a violation (property text): rule id, file, line, column, message -- file and message
    as printable text (surrogate-escaped bytes replaced by _sanitize_string, identically in all three renderings)."""
    return (v.rule_id, sanitize(v.file_path), v.line, v.column, sanitize(v.message))


def json_shows(e):
    return (e["rule_id"], e["file_path"], e["line"], e["column"], e["message"])


def sarif_shows(r):
    loc = r["locations"][0]["physicalLocation"]
    return (r["ruleId"], loc["artifactLocation"]["uri"], loc["region"]["startLine"], loc["region"]["startColumn"] - 1,
            r["message"]["text"])


@lemma(props=["C06"], types=dict(vs=Violations, self=FormatterT), name="sarif-results-show-the-violations")
def sarif_image(vs, self):
    """The SARIF results are the image of the violation list: same length, same order, every shown field equal."""
    rs = sarif_run(self, vs)["results"]
    if len(vs) == 0:
        return [sarif_shows(r) for r in rs] == [shown(v) for v in vs]
    ih(sarif_image, vs[1:], self)
    return [sarif_shows(r) for r in rs] == [shown(v) for v in vs]


@lemma(props=["C06"], types=dict(vs=Violations), name="json-entries-show-the-violations")
def json_image(vs):
    """The JSON entries are the image of the violation list: same length, same order, every shown field equal."""
    es = json_doc(vs)["violations"]
    if len(vs) == 0:
        return [json_shows(e) for e in es] == [shown(v) for v in vs]
    ih(json_image, vs[1:])
    return [json_shows(e) for e in es] == [shown(v) for v in vs]


@lemma(props=["C06"], types=dict(vs=Violations), name="text-one-block-per-violation")
def text_image(vs):
    """The text rendering consists of one 3-line block per violation (text_blocks is, by definition, the
    concatenation of the blocks in list order)."""
    if len(vs) == 0:
        return len(text_blocks(vs)) == 0
    reveal(text_block, vs[0])
    ih(text_image, vs[1:])
    return len(text_blocks(vs)) == 3 * len(vs)


@lemma(props=["C06"], types=dict(self=FormatterT, v=ViolationS), name="sarif-and-json-show-the-same-violation")
def sarif_same_as_json(self, v):
    """PROPERTY-LEVEL: the SARIF result and the JSON entry of one violation show the same rule id, file, line, column
    and message (was known finding C06-sarif-unsanitized; repaired: SarifFormatter now sanitises uri and message text)."""
    r = call(SF + "SarifFormatter._create_result", self, v)
    return sarif_shows(r) == json_shows(json_entry(v)) and sarif_shows(r) == shown(v)


@lemma(props=["C06"], types=dict(self=FormatterT, v=ViolationS), name="sarif-region-is-one-based")
def sarif_one_based(self, v):
    """startLine == line, startColumn == column + 1: 1-based whenever the violation has a 1-based line and a 0-based
    column (the producers' obligation, C12)."""
    loc = call(SF + "SarifFormatter._create_location", self, v)
    reg = loc["physicalLocation"]["region"]
    return reg["startLine"] == v.line and reg["startColumn"] == v.column + 1 \
        and implies(v.line >= 1 and v.column >= 0, reg["startLine"] >= 1 and reg["startColumn"] >= 1)


# ------------------------------------------------------------------------------------------ bounded check of the assumed codec
@custom("c06-sanitize-bounded", props=["C06"])
def c06_sanitize_bounded(ctx):
    """The one assumed contract of this file, _sanitize_string == sanitize, is plumbing through the UTF-8 codec. Its
    documented effect is checked natively on every string of length <= 3 over an alphabet of ASCII, quotes, newline,
    non-ASCII, an astral character and surrogate-escaped bytes (U+DC80, U+DCE9, U+DCFF), plus a few long strings:
    total (no exception), the result is encodable as UTF-8 (no surrogate survives), strings without surrogates are
    unchanged, idempotent. NOT a proof (bounded domain): listed under `bounded` in the evidence."""
    import itertools
    import time
    from pyvc.native import resolve_target
    t0 = time.time()
    try:
        _, _, fn = resolve_target(CU + "_sanitize_string")
    except Exception as e:  # noqa
        return [{"name": "c06-sanitize-bounded", "kind": "bounded", "verdict": "unknown", "note": f"cannot import: {e!r}"[:300],
                 "tool": "cpython", "budget": "-", "cases": 0}]
    alphabet = ["a", "Z", "0", " ", "/", ".", "\"", "'", "\\", "\n", "\t", "é", "ß", "✓", "日", "\U0001F600",
                "\udc80", "\udce9", "\udcff"]
    cases = [""] + ["".join(t) for n in (1, 2, 3) for t in itertools.product(alphabet, repeat=n)]
    cases += ["caf\udce9.py", "src/\udcff\udcfe/x.py", "a" * 5000 + "\udc80", "日本語/ファイル.py", "C:\\dir\\file.py"]
    bad = None
    for s in cases:
        try:
            r = fn(s)
            r.encode("utf-8")
            has_sur = any(0xD800 <= ord(ch) <= 0xDFFF for ch in s)
            if (not has_sur and r != s) or fn(r) != r or r != _sanitize_native(s):
                bad = (s, r)
                break
        except Exception as e:  # noqa
            bad = (s, repr(e))
            break
    return [{"name": "c06-sanitize-bounded", "kind": "bounded", "verdict": "passed" if bad is None else "refuted",
             "note": "" if bad is None else f"_sanitize_string({bad[0]!r}) -> {bad[1]!r}", "tool": "cpython (exhaustive over the alphabet)",
             "budget": "strings of length <= 3 over 19 characters + 5 long strings", "cases": len(cases),
             "ms": round((time.time() - t0) * 1000, 1), "witness_confirmed": bad is not None,
             "model_inputs": {"text": bad[0]} if bad else None}]
