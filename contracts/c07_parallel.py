"""C07 -- `--parallel` reports what the sequential run reports: the DATA-FLOW part (DESIGN.md 3/C07; schedules, pickling
and the process pool are trusted).

Decided here: (1) a violation survives the process boundary unchanged (Violation.to_dict / from_dict round trip, every
field); (2) the parent collects exactly the concatenation of the workers' lists in the order the futures complete, so
the MULTISET of per-file violations does not depend on that order; (3) below the threshold 2 x workers the sequential
code runs; workers >= 1; (4) evidence visibility: cross-file rules are finalised on the PARENT's rule objects, whose
check() never ran -- the expected genuine defect (known finding C07-parallel-cross-file)."""
from pyvc.api import (contract, lemma, custom, Int, Bool, Str, Opt, SeqOf, TupleOf, Rec, Opaque, Dict, implies, call, mk, ih,
                      opaque, reveal, uf, use)
from contracts._common import PathT
from contracts.c06_output import ViolationS, Violations

T = "src/core/types.py::"
O = "src/orchestrator/core.py::"

ViolDictT = Rec("dict", as_dict=True, rule_id=Str, file_path=Str, line=Int, column=Int, message=Str, severity=Str,
                suggestion=Opt(Str))


# ------------------------------------------------------------------------------------------ (1) the process boundary
@contract(T + "Violation.to_dict", props=["C07"], types=dict(self=ViolationS), returns=ViolDictT)
class ToDict:
    def value(self):
        return {"rule_id": self.rule_id, "file_path": self.file_path, "line": self.line, "column": self.column,
                "message": self.message, "severity": self.severity.value, "suggestion": self.suggestion}


@contract(T + "Violation.from_dict", props=["C07"], types=dict(data=ViolDictT), returns=ViolationS, raises=["ValueError"])
class FromDict:
    def raises_when(data):
        return data["severity"] != "error"  # Severity(value): ValueError unless a member has that value

    def value(data):
        # every field copied; the severity is the member whose value the dict carries
        return mk(ViolationS, rule_id=data["rule_id"], file_path=data["file_path"], line=data["line"], column=data["column"],
                  message=data["message"], severity=data["severity"], suggestion=data["suggestion"])


@lemma(props=["C07"], types=dict(v=ViolationS), name="violation-survives-the-process-boundary")
def round_trip(v):
    """from_dict(to_dict(v)) == v, every field (severity through its enum value), for every Violation whose severity
    is a member of Severity."""
    if v.severity.value != "error":
        return True
    w = call(T + "Violation.from_dict", call(T + "Violation.to_dict", v))
    return w == v


# ------------------------------------------------------------------------------------------ (2) collecting the results
FutureT = Opaque("Future")
# what a completed worker future holds (trusted: the executor returns what _lint_file_worker returned, pickled)
future_dicts = uf("future_dicts", [FutureT], SeqOf(ViolDictT))
future_failed = uf("future_failed", [FutureT], Bool)   # result() re-raises the worker's / the pool's exception
future_value_error = uf("future_value_error", [FutureT], Bool)  # ... and that exception is a ValueError
completion_order = uf("as_completed_order", [SeqOf(FutureT)], SeqOf(FutureT))  # SOME order (the schedule)

import z3  # noqa: E402
from pyvc.ex_call import EXTERNALS  # noqa: E402
from pyvc.run import RaiseSig  # noqa: E402
from pyvc.ty import VExc, VList  # noqa: E402


def _x_future_result(ex, args, kwargs, lineno):
    """future.result(): the worker's list of dicts, or the exception the worker / the pool raised."""
    f = args[0].t
    if ex.merge_depth == 0 and ex.spec_depth == 0:
        if ex.decide(z3.Function("uf.future_failed", FutureT.sort(), z3.BoolSort())(f)):
            if ex.decide(z3.Function("uf.future_value_error", FutureT.sort(), z3.BoolSort())(f)):
                raise RaiseSig(VExc("ValueError"))
            raise RaiseSig(VExc("Exception"))
    ex.ufs_used.update({"future_dicts", "future_failed", "future_value_error"})
    return VList(ViolDictT, seq=z3.Function("uf.future_dicts", FutureT.sort(), z3.SeqSort(ViolDictT.sort()))(f))


def _x_as_completed(ex, args, kwargs, lineno):
    """as_completed(futures): the futures in SOME order (the schedule: uninterpreted)."""
    fs = args[0]
    ex.ufs_used.add("as_completed_order")
    srt = z3.SeqSort(FutureT.sort())
    return VList(FutureT, seq=z3.Function("uf.as_completed_order", srt, srt)(SeqOf(FutureT).pack(fs)))


EXTERNALS["Future.result"] = _x_future_result
EXTERNALS["concurrent.futures.as_completed"] = _x_as_completed


def revived(dicts):
    """The Violation objects rebuilt from a worker's dicts (field by field: contract of Violation.from_dict)."""
    return [mk(ViolationS, rule_id=d["rule_id"], file_path=d["file_path"], line=d["line"], column=d["column"],
               message=d["message"], severity=d["severity"], suggestion=d["suggestion"]) for d in dicts]


def wellformed(dicts):
    """Every dict carries the value of a Severity member (true of everything Violation.to_dict produces)."""
    return not any(d["severity"] != "error" for d in dicts)


@opaque
def future_violations(f: FutureT) -> Violations:
    """What the parent obtains from one completed future that does not end the run (see future_ends_run): its
    violations, or nothing when the worker / the transfer failed with something else than a ValueError (logged)."""
    return revived(future_dicts(f)) if not future_failed(f) else []


@opaque
def future_ends_run(f: FutureT) -> Bool:
    """The future carries a ValueError -- a configuration error raised in the worker (or a dict that cannot be revived):
    the parent re-raises it, so the parallel run ends like the sequential one (exit code 2)."""
    return future_value_error(f) if future_failed(f) else not wellformed(future_dicts(f))


OrchSelfT = Rec("Orchestrator", cls=O + "Orchestrator")


@contract(O + "Orchestrator._extract_violations_from_future", no_selftest=True, props=["C07", "C06"],
          types=dict(self=OrchSelfT, future=FutureT), returns=Violations, raises=["ValueError"])
class ExtractViolationsFromFuture:
    def reveals(future):
        return reveal(future_violations, future) and reveal(future_ends_run, future)

    def raises_when(future):
        # property text: "... and the same exit code as the sequential run": a worker's ValueError is not swallowed
        return future_ends_run(future)

    def value(future):
        return future_violations(future)


def collect(fs: SeqOf(FutureT)) -> Violations:
    """Concatenation of what each future yields, in the given order."""
    if len(fs) == 0:
        return []
    return future_violations(fs[0]) + collect(fs[1:])


@contract(O + "Orchestrator._collect_parallel_results", no_selftest=True, props=["C07", "C06"],
          types=dict(self=OrchSelfT, futures=SeqOf(FutureT), future=FutureT, violations=Violations), returns=Violations,
          raises=["ValueError"])
class CollectParallelResults:
    def raises_when(futures):
        # whatever the completion order: some worker reported a configuration error <=> the run ends with it
        return some_ends_run(completion_order(futures))

    def ensures_concatenation_in_completion_order(futures, result):
        return result == collect(completion_order(futures))

    def inv0(self, old, futures, violations, rest):
        return collect(completion_order(futures)) == violations + collect(rest) and self == old.self \
            and futures == old.futures and some_ends_run(completion_order(futures)) == some_ends_run(rest)


def some_ends_run(fs: SeqOf(FutureT)) -> Bool:
    return len(fs) > 0 and (future_ends_run(fs[0]) or some_ends_run(fs[1:]))


# ---- the multiset collected does not depend on the completion order
def occ(v: ViolationS, s: Violations) -> Int:
    """Number of occurrences of v in s."""
    if len(s) == 0:
        return 0
    return (1 if s[0] == v else 0) + occ(v, s[1:])


@lemma(props=["C07"], types=dict(a=Violations, b=Violations), name="tail-of-concatenation")
def viol_tail_concat(a, b):
    return implies(len(a) > 0, (a + b)[1:] == a[1:] + b and (a + b)[0] == a[0])


@lemma(props=["C07"], types=dict(a=Violations, b=Violations, v=ViolationS), name="occurrences-of-concatenation")
def occ_concat(a, b, v):
    if len(a) == 0:
        return occ(v, a + b) == occ(v, a) + occ(v, b)
    use(viol_tail_concat, a, b)
    ih(occ_concat, a[1:], b, v)
    return occ(v, a + b) == occ(v, a) + occ(v, b)


@lemma(props=["C07"], types=dict(xs=SeqOf(FutureT), ys=SeqOf(FutureT)), name="future-tail-of-concatenation")
def fut_tail_concat(xs, ys):
    return implies(len(xs) > 0, (xs + ys)[1:] == xs[1:] + ys and (xs + ys)[0] == xs[0])


@lemma(props=["C07"], types=dict(xs=SeqOf(FutureT), ys=SeqOf(FutureT)), name="collect-distributes-over-concatenation")
def collect_concat(xs, ys):
    if len(xs) == 0:
        return collect(xs + ys) == collect(xs) + collect(ys)
    use(fut_tail_concat, xs, ys)
    ih(collect_concat, xs[1:], ys)
    return collect(xs + ys) == collect(xs) + collect(ys)


@lemma(props=["C07"], types=dict(a=SeqOf(FutureT), xs=SeqOf(FutureT), ys=SeqOf(FutureT), b=SeqOf(FutureT), v=ViolationS),
       name="collected-multiset-is-order-insensitive")
def collect_swap(a, xs, ys, b, v):
    """Whichever of two groups of workers finishes first (in any context a ... b of earlier / later completions),
    every violation is collected the same number of times. Block swaps generate all permutations, so the multiset
    returned by _collect_parallel_results is the same for every order as_completed may deliver."""
    use(collect_concat, a, xs)
    use(collect_concat, a + xs, ys)
    use(collect_concat, a + xs + ys, b)
    use(collect_concat, a, ys)
    use(collect_concat, a + ys, xs)
    use(collect_concat, a + ys + xs, b)
    use(occ_concat, collect(a), collect(xs), v)
    use(occ_concat, collect(a) + collect(xs), collect(ys), v)
    use(occ_concat, collect(a) + collect(xs) + collect(ys), collect(b), v)
    use(occ_concat, collect(a), collect(ys), v)
    use(occ_concat, collect(a) + collect(ys), collect(xs), v)
    use(occ_concat, collect(a) + collect(ys) + collect(xs), collect(b), v)
    return occ(v, collect(a + xs + ys + b)) == occ(v, collect(a + ys + xs + b))


# ------------------------------------------------------------------------------------------ (3)+(4) the parallel entry points
from contracts.c10_orchestrator import (OrchT, RuleT, Viols, rules_of, fin_all, ready, S_out, S_gs, S_disc, S_cache,  # noqa: E402
                                        same_env, walk_files)
from contracts._common import ViolationT  # noqa: E402

cpu_count = uf("cpu_count", [], Int)


def _x_cpu_count(ex, args, kwargs, lineno):
    """multiprocessing.cpu_count(): some positive integer."""
    from pyvc.ty import VInt
    n = z3.Function("uf.cpu_count", z3.IntSort())()
    ex.ufs_used.add("cpu_count")
    ex.assume(n >= 1)
    return VInt(n)


EXTERNALS["multiprocessing.cpu_count"] = _x_cpu_count

# the per-file violations the process pool delivers (trusted: executor.submit / pickling / scheduling): the list
# _collect_parallel_results builds from the futures of the submitted work items
pool_out = uf("pool_out", [SeqOf(PathT), PathT, Dict, Int], Viols)


def workers_of(max_workers):
    """Worker processes used: the explicit positive number, else min(8, cpu_count()) -- always >= 1."""
    return max_workers if max_workers is not None and max_workers != 0 else (8 if cpu_count() > 8 else cpu_count())


@contract(O + "Orchestrator._execute_parallel_linting", props=["C07"],
          types=dict(self=OrchT, file_paths=SeqOf(PathT), max_workers=Int), returns=Viols, raises=["ValueError"],
          assumed="ProcessPoolExecutor context manager, executor.submit and pickling are outside the subset (trusted, "
                  "DESIGN.md 3/C07): the result is what _collect_parallel_results (verified) builds from the futures of "
                  "the work items (file, project_root, config); each worker runs _lint_file_worker (verified)")
class ExecuteParallelLinting:
    def requires(max_workers):
        return max_workers >= 1  # ProcessPoolExecutor raises ValueError otherwise

    def value(self, file_paths, max_workers):
        return pool_out(file_paths, self.project_root, self.config, max_workers)


@contract(O + "Orchestrator._finalize_rules", no_selftest=True, props=["C07"], types=dict(self=OrchT, violations=Viols, rule=RuleT),
          returns=Viols, modifies=["self.registry.gs", "self._rules_discovered"])
class FinalizeRules:
    def ensures_finalizes_the_rules_of_this_process(self, result, old):
        # finalize() of every registered rule OF THIS ORCHESTRATOR, on the evidence those rule objects hold
        return result == fin_all(rules_of(ready(old.self.registry.gs, old.self._rules_discovered)))

    def ensures_state(self, old):
        return self._rules_discovered and self.registry.gs == ready(old.self.registry.gs, old.self._rules_discovered) \
            and same_env(self, old) and self.ignore_parser._ignore_cache == old.self.ignore_parser._ignore_cache

    def inv0(self, violations, rest, old):
        return reveal(fin_all, rest) and same_env(self, old) and self._rules_discovered \
            and self.registry.gs == ready(old.self.registry.gs, old.self._rules_discovered) \
            and self.ignore_parser._ignore_cache == old.self.ignore_parser._ignore_cache \
            and fin_all(rules_of(ready(old.self.registry.gs, old.self._rules_discovered))) == violations + fin_all(rest)


def sequential(self, files):
    """What Orchestrator.lint_files returns from this state (contract of lint_files, contracts/c10_orchestrator.py)."""
    return S_out(self, files) + fin_all(rules_of(S_gs(self, files)))


def goes_parallel(file_paths, max_workers):
    return len(file_paths) > 0 and len(file_paths) >= 2 * workers_of(max_workers)


@contract(O + "Orchestrator.lint_files_parallel", no_selftest=True, props=["C07"],
          types=dict(self=OrchT, file_paths=SeqOf(PathT), max_workers=Opt(Int), violations=Viols),
          returns=Viols, raises=["ValueError", "OSError"],
          modifies=["self.registry.gs", "self._rules_discovered", "self.ignore_parser._ignore_cache"])
class LintFilesParallel:
    def requires(max_workers):
        return max_workers is None or max_workers >= 0

    def ensures_small_inputs_run_sequentially(self, file_paths, max_workers, result, old):
        # below the threshold 2 x workers the sequential code runs: identical result
        return implies(len(file_paths) > 0 and not goes_parallel(file_paths, max_workers),
                       result == sequential(old.self, file_paths))

    def ensures_nothing_to_lint(file_paths, result):
        return implies(len(file_paths) == 0, len(result) == 0)

    def on_raise_pool_path_adds_no_failure_of_its_own(file_paths, max_workers, exc_class):
        # raise set: above the threshold the only error that ends the run is a configuration ValueError reported by a
        # worker (as in the sequential run); the parent never touches the files itself, so no OSError / other class
        # can come from the pool path (below the threshold: exactly what lint_files raises)
        return implies(goes_parallel(file_paths, max_workers), exc_class == "ValueError")

    def ensures_cross_file_findings_as_sequential(self, file_paths, max_workers, result, old):
        # PROPERTY-LEVEL (expected to fail, known finding C07-parallel-cross-file): after the per-file part, the
        # cross-file findings are those of the sequential run, i.e. finalize() on the evidence of ALL the files
        return implies(goes_parallel(file_paths, max_workers),
                       result == pool_out(file_paths, self.project_root, self.config, workers_of(max_workers))
                       + fin_all(rules_of(S_gs(old.self, file_paths))))

    def ensures_cross_file_findings_from_untouched_parent_rules(self, file_paths, max_workers, result, old):
        # finding-adjusted: finalize() runs on the PARENT's rule objects, whose check() was never invoked (their
        # evidence is that of a freshly discovered registry state, whatever the files)
        return implies(goes_parallel(file_paths, max_workers),
                       result == pool_out(file_paths, self.project_root, self.config, workers_of(max_workers))
                       + fin_all(rules_of(ready(old.self.registry.gs, old.self._rules_discovered))))


@contract(O + "Orchestrator.lint_directory_parallel", no_selftest=True, props=["C07", "C06", "C14", "C10"],
          types=dict(self=OrchT, dir_path=PathT, recursive=Bool, max_workers=Opt(Int)),
          returns=Viols, raises=["ValueError", "OSError"],
          modifies=["self.registry.gs", "self._rules_discovered", "self.ignore_parser._ignore_cache"])
class LintDirectoryParallel:
    def requires(max_workers):
        return max_workers is None or max_workers >= 0

    def ensures_empty_directory(dir_path, recursive, result):
        return implies(len(walk_files(dir_path, recursive)) == 0, len(result) == 0)

    def ensures_small_directories_run_sequentially(self, dir_path, recursive, max_workers, result, old):
        return implies(len(walk_files(dir_path, recursive)) > 0 and not goes_parallel(walk_files(dir_path, recursive), max_workers),
                       result == sequential(old.self, walk_files(dir_path, recursive)))

    def ensures_parallel_composition(self, dir_path, recursive, max_workers, result, old):
        return implies(goes_parallel(walk_files(dir_path, recursive), max_workers),
                       result == pool_out(walk_files(dir_path, recursive), self.project_root, self.config, workers_of(max_workers))
                       + fin_all(rules_of(ready(old.self.registry.gs, old.self._rules_discovered))))


# ------------------------------------------------------------------------------------------ the worker process
from pyvc import api as _api  # noqa: E402
from contracts.c10_orchestrator import RStateT, lf_out  # noqa: E402
from contracts.c14_collect import ParserT  # noqa: E402

fresh_rule_state = uf("fresh_rule_state", [], RStateT)            # the rule objects of a newly created registry
parser_for = uf("ignore_parser_for", [PathT], ParserT)            # get_ignore_parser(root) in this process
default_root = uf("default_project_root", [], PathT)  # the root used when none is given (Path.cwd() of the process)

from contracts.c05_parse import LoaderT, yaml_doc, file_of  # noqa: E402
from contracts.c09_paths import path_div, fs_exists  # noqa: E402
from contracts.c10_orchestrator import RegistryT  # noqa: E402

OrchInitT = OrchT.extend(config_loader=LoaderT)  # the orchestrator as the CLI layer sees it (+ its config loader)
REG = "src/core/registry.py::"
IGN = "src/linter_config/ignore.py::"
LDR = "src/linter_config/loader.py::"


def _x_cwd(ex, args, kwargs, lineno):
    """Path.cwd(): the working directory (same uninterpreted constant as contracts/c20_config_tool.py registers)."""
    from pyvc.ty import VOpaque
    return VOpaque(z3.Const("uf.cwd", PathT.sort()), PathT)


EXTERNALS.setdefault("pathlib.Path.cwd", _x_cwd)


@contract(REG + "RuleRegistry.__init__", props=["C07", "C10"], types=dict(self=RegistryT), modifies=["self.gs"],
          assumed="plug-in layer: a new registry holds no rule objects yet; its ghost state is the constant fresh_rule_state()")
class RuleRegistryInit:
    def ensures(self):
        return self.gs == fresh_rule_state()


@contract(IGN + "get_ignore_parser", props=["C07", "C10"], types=dict(project_root=Opt(PathT)), returns=ParserT,
          assumed="process-wide cached parser (module globals, reads .thailintignore / config from disk): the parser of "
                  "this process for the given root is the uninterpreted parser_for(root); C04/C14 cover the parser itself")
class GetIgnoreParser:
    def value(project_root):
        return parser_for(project_root if project_root is not None else default_root())


def loadable(config_path):
    """Precondition of LinterConfigLoader.load (contracts/c05_parse.py): the file, if present, is a mapping or empty."""
    return isinstance(yaml_doc(file_of(config_path)), dict) or yaml_doc(file_of(config_path)) is None


def project_config_loadable(root):
    return loadable(path_div(root, ".thailint.yaml")) and loadable(path_div(root, ".thailint.json"))


@contract(LDR + "LinterConfigLoader.load~c06", props=["C06", "C07"], types=dict(self=LoaderT, config_path=PathT), returns=Dict,
          raises=["ConfigParseError", "Exception"], no_selftest=True,
          assumed="RAISE-SET view for ARBITRARY file contents (the verified contract in contracts/c05_parse.py assumes a "
                  "mapping document): reading a configuration file yields some dict or fails with ConfigParseError (syntax), "
                  "OSError (directory / unreadable), UnicodeDecodeError (not UTF-8), AttributeError (top level not a "
                  "mapping) -- over-approximated as: any Exception. No output, no exit")
class LoaderLoadAnyContent:
    def ensures(result):
        return True


@contract(O + "Orchestrator.__init__", no_selftest=True, props=["C07", "C06", "C10"], callee_view="c06",
          types=dict(self=OrchInitT, project_root=Opt(PathT), config=Opt(Dict), config_path=PathT),
          raises=["Exception"],
          modifies=["self.project_root", "self.registry", "self.ignore_parser", "self.config", "self._rules_discovered",
                    "self.config_loader"],
          inline=[LDR + "LinterConfigLoader.__init__"])
class OrchestratorInit:
    def requires(project_root, config):
        # (every caller passes a project root; the Path.cwd() default is not covered). No assumption on the contents
        # of the project's configuration files: discovery goes through the raise-set view LinterConfigLoader.load~c06
        return project_root is not None

    def ensures_a_given_configuration_is_used_as_is(self, config):
        # property text (C07): the workers lint "the same inputs" with the parent's settings -- a configuration passed to
        # the constructor (as _lint_file_worker does) is THE configuration, whatever it contains; nothing is reloaded
        return implies(config is not None, self.config == config)

    def ensures_wiring(self, project_root):
        return self.project_root == project_root \
            and not self._rules_discovered and self.registry.gs == fresh_rule_state() \
            and self.ignore_parser == parser_for(self.project_root)

    def on_raise_only_when_discovering_the_configuration(config):
        return config is None


def dict_of(v):
    """Violation.to_dict of a violation seen through contracts._common.ViolationT (severity = the member's value)."""
    return {"rule_id": v.rule_id, "file_path": v.file_path, "line": v.line, "column": v.column, "message": v.message,
            "severity": v.severity, "suggestion": v.suggestion}


def fresh_lint(file_path, root, config):
    """lint_file(file_path) on a NEW orchestrator for (root, config): no rule has seen any other file."""
    return lf_out(file_path, fresh_rule_state(), False, parser_for(root)._ignore_cache, root, config,
                  parser_for(root).project_root, parser_for(root).repo_patterns)


@contract(O + "_lint_file_worker", no_selftest=True, props=["C07", "C06"],
          types=dict(args=TupleOf(PathT, PathT, Dict), orchestrator=OrchT, violations=Violations), returns=SeqOf(ViolDictT),
          raises=["ValueError"])
class LintFileWorker:
    def on_raise_only_configuration_errors(exc_class):
        return exc_class == "ValueError"

    def ensures_per_file_result_of_a_fresh_orchestrator(args, result, caught):
        # per-file equivalence: the worker returns (the dict image of) lint_file(f) of a fresh orchestrator with the same
        # root and configuration; it equals the parent's lint_file(f) iff no rule's check() depends on other files
        return implies(len(caught) == 0, result == [dict_of(v) for v in fresh_lint(args[0], args[1], args[2])])

    def ensures_configuration_errors_reach_the_parent(caught):
        # PROPERTY-LEVEL (was known finding C07-parallel-swallows-errors; repaired): an error that aborts the sequential
        # run with exit code 2 -- a rule's configuration ValueError, re-raised by _safe_check_rule -- is never turned
        # into "no violations" by the worker
        return "ValueError" not in caught

    def ensures_a_failed_worker_reports_nothing(result, caught):
        # code-derived: any OTHER exception in the worker is logged and swallowed; the file then contributes []
        return implies(len(caught) > 0, len(result) == 0)


# ------------------------------------------------------------------------------------------ bounded native check of the pool
_DIFFERENTIAL = r'''
import json, os, sys, tempfile, shutil, logging
sys.path.insert(0, os.environ["VERIF_REPO"])
logging.disable(logging.CRITICAL)
from pathlib import Path
from src.orchestrator.core import Orchestrator

def make_file(root, i):
    # every file is different (no cross-file duplicates: C07-parallel-cross-file is a separate, known finding) and has
    # its own number of per-file findings (magic numbers, deep nesting)
    lines = [f"def handler_{i}_{j}(value_{i}):\n    return value_{i} * {1000 + 37 * i + j} + {7000 + 11 * i + j}\n\n" for j in range(i % 3 + 1)]
    if i % 4 == 1:
        lines.append(f"def deep_{i}(a):\n    if a:\n        for b in a:\n            if b:\n                while b:\n                    if b > {i + 2}:\n                        return b\n    return a\n")
    p = root / f"mod_{i:02d}.py"
    p.write_text("".join(lines), encoding="utf-8")
    return p

def orchestrator(root, cfg):
    # as the CLI does (setup_base_orchestrator / load_config_file): construct, then install the run's configuration
    o = Orchestrator(project_root=root)
    o.config = dict(cfg)
    return o

def key(v):
    d = v.to_dict()
    return json.dumps(d, sort_keys=True, default=str)

cases, bad = [], []
tmp = Path(tempfile.mkdtemp(prefix="c07pool_"))
try:
    (tmp / ".git").mkdir()
    (tmp / ".thailint.yaml").write_text("nesting:\n  max_nesting_depth: 2\n", encoding="utf-8")
    files = [make_file(tmp, i) for i in range(12)]
    configs = [{}, {"magic-numbers": {"enabled": True, "allowed_numbers": [0, 1]}, "nesting": {"max_nesting_depth": 3}}]
    n_case = 0
    for workers in (1, 2, 3):
        for n in range(max(1, 2 * workers - 1), 3 * workers + 2):
            cfg = configs[n_case % 2]
            n_case += 1
            fs = files[:n]
            seq = sorted(key(v) for v in orchestrator(tmp, cfg).lint_files(list(fs))
                         if not v.rule_id.startswith(("dry.", "stringly-typed")))
            par = sorted(key(v) for v in orchestrator(tmp, cfg).lint_files_parallel(list(fs), max_workers=workers)
                         if not v.rule_id.startswith(("dry.", "stringly-typed")))
            cases.append([workers, n, len(seq)])
            if seq != par:
                bad.append({"workers": workers, "files": n, "config": cfg, "sequential": len(seq), "parallel": len(par),
                            "only_sequential": [json.loads(x)["file_path"] + ":" + json.loads(x)["rule_id"] for x in seq if x not in par][:5],
                            "only_parallel": [json.loads(x)["file_path"] + ":" + json.loads(x)["rule_id"] for x in par if x not in seq][:5]})
    # multi-language projects with PER-LANGUAGE override sections (property text: "generated multi-language projects that
    # trigger per-file ... rules"): Python, TypeScript, JavaScript and Rust files whose nesting depth / class size lies
    # between the top-level limit and the per-language limits, in several file orders
    def nested(lang, i, depth):
        if lang == "py":
            body, ind = f"def fn_{i}(a):\n", "    "
            for d in range(depth):
                body += ind * (d + 1) + (f"if a > {d}:\n" if d % 2 == 0 else f"for b_{d} in range(a):\n")
            return body + ind * (depth + 1) + f"return a + {3000 + i}\n\n\nclass Holder{i}:\n" + "".join(
                f"    def method_{m}(self):\n        return {4000 + 10 * i + m}\n\n" for m in range(4))
        if lang == "rs":
            body = f"fn fn_{i}(a: i32) -> i32 {{\n"
            for d in range(depth):
                body += "    " * (d + 1) + f"if a > {d} {{\n"
            body += "    " * (depth + 1) + f"return a + {3000 + i};\n"
            for d in reversed(range(depth)):
                body += "    " * (d + 1) + "}\n"
            return body + "    a\n}\n"
        body = f"export function fn_{i}(a) {{\n"
        for d in range(depth):
            body += "  " * (d + 1) + f"if (a > {d}) {{\n"
        body += "  " * (depth + 1) + f"return a + {3000 + i};\n"
        for d in reversed(range(depth)):
            body += "  " * (d + 1) + "}\n"
        return body + "  return a;\n}\n\nexport class Holder" + str(i) + " {\n" + "".join(
            f"  method_{m}() {{ return {4000 + 10 * i + m}; }}\n" for m in range(4)) + "}\n"
    ml = tmp / "multi"
    ml.mkdir()
    mfiles = {}
    for i, (lang, depth) in enumerate([("py", 3), ("ts", 3), ("js", 3), ("rs", 3), ("py", 4), ("ts", 4), ("rs", 4), ("js", 2)]):
        p = ml / f"unit_{i}.{lang}"
        p.write_text(nested(lang, i, depth), encoding="utf-8")
        mfiles[i] = p
    OVERRIDES = [
        {"nesting": {"max_nesting_depth": 4, "python": {"max_nesting_depth": 2}, "typescript": {"max_nesting_depth": 3}},
         "srp": {"max_methods": 7, "python": {"max_methods": 3}}},
        {"nesting": {"max_nesting_depth": 2, "rust": {"max_nesting_depth": 5}, "javascript": {"max_nesting_depth": 3}},
         "srp": {"max_methods": 3, "typescript": {"max_methods": 8}}},
    ]
    ORDERS = [list(range(8)), [3, 2, 1, 0, 7, 6, 5, 4], [1, 0, 3, 2, 5, 4, 7, 6]]
    for cfg in OVERRIDES:
        for order in ORDERS:
            fs = [mfiles[i] for i in order]
            for workers in (1, 2):
                seq = sorted(key(v) for v in orchestrator(tmp, json.loads(json.dumps(cfg))).lint_files(list(fs))
                             if not v.rule_id.startswith(("dry.", "stringly-typed")))
                par = sorted(key(v) for v in orchestrator(tmp, json.loads(json.dumps(cfg))).lint_files_parallel(list(fs), max_workers=workers)
                             if not v.rule_id.startswith(("dry.", "stringly-typed")))
                cases.append([workers, len(fs), len(seq)])
                if seq != par:
                    bad.append({"workers": workers, "order": [p.name for p in fs], "config": cfg, "sequential": len(seq), "parallel": len(par),
                                "only_sequential": [Path(json.loads(x)["file_path"]).name + ":" + json.loads(x)["rule_id"] for x in seq if x not in par][:5],
                                "only_parallel": [Path(json.loads(x)["file_path"]).name + ":" + json.loads(x)["rule_id"] for x in par if x not in seq][:5]})
    # directories: "for any set of files and directories" -- a tree with files at the top level and in sub-directories,
    # linted recursively and with --no-recursive, through the Orchestrator entry points (with a real pool: 1 worker) and
    # through the CLI's execute_linting_on_paths (as every command calls it)
    from src.cli.utils import execute_linting_on_paths
    tree = tmp / "tree"
    (tree / "sub" / "deeper").mkdir(parents=True)
    for k, d in enumerate([tree, tree, tree, tree / "sub", tree / "sub", tree / "sub" / "deeper"]):
        (d / f"leaf_{k}.py").write_text(f"def leaf_{k}(v):\n    return v * {5000 + 13 * k} + {6000 + k}\n", encoding="utf-8")
    for recursive in (True, False):
        seq = sorted(key(v) for v in orchestrator(tmp, {}).lint_directory(tree, recursive=recursive)
                     if not v.rule_id.startswith(("dry.", "stringly-typed")))
        variants = {
            "lint_directory_parallel(max_workers=1)": lambda: orchestrator(tmp, {}).lint_directory_parallel(tree, recursive=recursive, max_workers=1),
            "lint_directory_parallel()": lambda: orchestrator(tmp, {}).lint_directory_parallel(tree, recursive=recursive),
            "execute_linting_on_paths(parallel=True)": lambda: execute_linting_on_paths(orchestrator(tmp, {}), [tree], recursive, True),
            "execute_linting_on_paths(parallel=False)": lambda: execute_linting_on_paths(orchestrator(tmp, {}), [tree], recursive, False),
        }
        for label, fn in variants.items():
            par = sorted(key(v) for v in fn() if not v.rule_id.startswith(("dry.", "stringly-typed")))
            cases.append([label, recursive, len(seq)])
            if seq != par:
                bad.append({"entry": label, "recursive": recursive, "sequential": len(seq), "other": len(par),
                            "only_other": sorted({Path(json.loads(x)["file_path"]).name for x in par if x not in seq})[:6],
                            "only_sequential": sorted({Path(json.loads(x)["file_path"]).name for x in seq if x not in par})[:6]})
    # hostile entries: "for any set of files and directories" -- zero-byte files, a symlink whose target is missing, a
    # file that is not UTF-8, a file removed after it was listed; with a path-only rule (file-placement) configured so
    # that even files without content have findings. Explicit file lists (>= 2 x workers) and the directory walk
    hostile = tmp / "hostile"
    (hostile / "src").mkdir(parents=True)
    hfiles = []
    for k in range(5):
        p = hostile / "src" / f"real_{k}.py"
        p.write_text(f"def real_{k}(v):\n    return v * {8000 + k} + {8100 + k}\n", encoding="utf-8")
        hfiles.append(p)
    for name in ("empty_a.py", "empty_b.ts", "__init__.py"):
        p = hostile / "src" / name
        p.write_text("", encoding="utf-8")
        hfiles.append(p)
    link = hostile / "src" / "dangling.py"
    link.symlink_to(hostile / "src" / "target_was_removed.py")
    hfiles.append(link)
    binary = hostile / "src" / "latin1.py"
    binary.write_bytes(b"# caf\xe9\nx = 4711\n")
    hfiles.append(binary)
    gone = hostile / "src" / "listed_then_removed.py"
    hfiles.append(gone)
    placement = {"file-placement": {"directories": {"src": {"deny": [{"pattern": ".*empty_.*", "reason": "no empty modules"},
                                                                       {"pattern": ".*dangling.*", "reason": "no links"}]}},
                                    "global_deny": [{"pattern": ".*listed_then_removed.*", "reason": "stale"}]}}
    def outcome_of(fn):
        try:
            return ["violations", sorted(key(v) for v in fn() if not v.rule_id.startswith(("dry.", "stringly-typed")))]
        except Exception as e:  # noqa
            return ["error", type(e).__name__, str(e)[:120]]
    for cfg in ({}, placement):
        for workers in (1, 2):
            for order in (list(hfiles), list(reversed(hfiles))):
                seq = outcome_of(lambda: orchestrator(tmp, cfg).lint_files(list(order)))
                par = outcome_of(lambda: orchestrator(tmp, cfg).lint_files_parallel(list(order), max_workers=workers))
                cases.append(["hostile files", workers, seq[0]])
                if seq != par:
                    bad.append({"scenario": "files incl. empty / dangling symlink / non-UTF-8 / removed", "workers": workers, "config": sorted(cfg),
                                "sequential": seq[:3] if seq[0] == "error" else [seq[0], len(seq[1])],
                                "parallel": par[:3] if par[0] == "error" else [par[0], len(par[1])],
                                "only_sequential": [] if "error" in (seq[0], par[0]) else sorted({Path(json.loads(x)["file_path"]).name + ":" + json.loads(x)["rule_id"] for x in seq[1] if x not in par[1]})[:6]})
            seq = outcome_of(lambda: orchestrator(tmp, cfg).lint_directory(hostile))
            par = outcome_of(lambda: orchestrator(tmp, cfg).lint_directory_parallel(hostile, max_workers=workers))
            cases.append(["hostile tree", workers, seq[0]])
            if seq != par:
                bad.append({"scenario": "directory incl. empty / dangling symlink / non-UTF-8", "workers": workers, "config": sorted(cfg),
                            "sequential": seq[:3] if seq[0] == "error" else [seq[0], len(seq[1])],
                            "parallel": par[:3] if par[0] == "error" else [par[0], len(par[1])]})
    # reuse: ONE orchestrator object, a second run after a file was edited (library use / long-lived process)
    ro_seq, ro_par = orchestrator(tmp, {}), orchestrator(tmp, {})
    fs = files[:4]
    for round_no in (1, 2):
        seq = sorted(key(v) for v in ro_seq.lint_files(list(fs)) if not v.rule_id.startswith(("dry.", "stringly-typed")))
        par = sorted(key(v) for v in ro_par.lint_files_parallel(list(fs), max_workers=2) if not v.rule_id.startswith(("dry.", "stringly-typed")))
        cases.append(["reuse", round_no, len(seq)])
        if seq != par:
            bad.append({"scenario": f"same orchestrator, run {round_no}", "sequential": len(seq), "parallel": len(par)})
        fs[0].write_text(fs[0].read_text(encoding="utf-8") + "\n\ndef added_later(v):\n    return v * 9091 + 9092\n", encoding="utf-8")
    # "... and the same exit code": a run that the sequential mode cannot perform (a linter rejects its configuration:
    # one invalid value per linter family, taken from the documented constraints) must end the same way in parallel
    def outcome(fn):
        try:
            return ["violations", sorted(key(v) for v in fn() if not v.rule_id.startswith(("dry.", "stringly-typed")))]
        except Exception as e:  # noqa
            return ["error", "ValueError" if isinstance(e, ValueError) else "other", str(e)]
    bad_regex = "([unclosed"
    INVALID = [
        {"nesting": {"max_nesting_depth": 0}}, {"nesting": {"max_nesting_depth": -3}},
        {"srp": {"max_methods": 0}}, {"srp": {"max_loc": -1}},
        {"dry": {"enabled": True, "min_duplicate_lines": 0, "cache_enabled": False}},
        {"dry": {"enabled": True, "min_duplicate_tokens": 0, "cache_enabled": False}},
        {"magic-numbers": {"max_small_integer": -1}},
        {"file-placement": {"global_deny": [{"pattern": bad_regex, "reason": "r"}]}},
        {"file-placement": {"global_patterns": {"allow": [bad_regex]}}},
        {"file-placement": {"directories": {"src": {"deny": [{"pattern": bad_regex, "reason": "r"}]}}}},
        {"stringly-typed": {"enabled": True, "min_occurrences": 0}}, {"stringly-typed": {"enabled": True, "min_values_for_enum": 0}},
        {"collection-pipeline": {"min_continues": 0}}, {"method-property": {"max_body_statements": -1}},
    ]
    for cfg in INVALID:
        fs = files[:5]
        seq = outcome(lambda: orchestrator(tmp, cfg).lint_files(list(fs)))
        par = outcome(lambda: orchestrator(tmp, cfg).lint_files_parallel(list(fs), max_workers=2))
        cases.append([2, 5, seq[0]])
        if seq != par:
            bad.append({"workers": 2, "files": 5, "config": cfg, "sequential": seq[:3] if seq[0] == "error" else [seq[0], len(seq[1])],
                        "parallel": par[:3] if par[0] == "error" else [par[0], len(par[1])]})
finally:
    shutil.rmtree(tmp, ignore_errors=True)
print("RESULT=" + json.dumps({"cases": cases, "bad": bad}))
'''


@custom("c07-pool-equals-sequential-bounded", props=["C07", "C10"])
def c07_pool_bounded(ctx):
    """BOUNDED NATIVE CHECK (not a proof; listed under `bounded` in the evidence). The process pool itself
    (_execute_parallel_linting: ProcessPoolExecutor, submit, pickling) is outside the verified subset and its contract is
    assumed; this check runs the REAL Orchestrator.lint_files_parallel against lint_files on a generated project
    (12 distinct Python files with per-file findings, a project-level .thailint.yaml, an empty and a non-empty explicit
    configuration) for workers 1..3 and every file count from just below the sequential-fallback threshold (2 x workers)
    to past 3 x workers -- multiples and non-multiples of the worker count -- and compares the multisets of violations
    (every field). Cross-file rules are excluded (known finding C07-parallel-cross-file). A second project is
    multi-language (Python / TypeScript / JavaScript / Rust files around the nesting and class-size limits) and is linted
    under configurations with per-language override sections, in three file orders. A directory tree is linted
    recursively and with --no-recursive through lint_directory_parallel and through the CLI's execute_linting_on_paths
    (parallel and not) against lint_directory with the same flag. A "hostile" set (zero-byte files, a dangling symlink,
    a non-UTF-8 file, a listed-then-removed file; with and without a path-only file-placement configuration) is linted as
    an explicit list (>= 2 x workers, both orders) and as a directory: same violations or same error. It also compares the OUTCOME
    (violations, or the class and message of the error that ends the run) for 14 configurations with one invalid value
    per linter family: a run the sequential mode refuses must be refused identically by the pool."""
    import json
    import os
    import subprocess
    import sys
    import time
    t0 = time.time()
    p = subprocess.run([sys.executable, "-c", _DIFFERENTIAL], capture_output=True, text=True, timeout=900,
                       env=dict(os.environ, VERIF_REPO=ctx["repo"], PYTHONWARNINGS="ignore"), cwd="/tmp")
    res = None
    for line in p.stdout.splitlines():
        if line.startswith("RESULT="):
            res = json.loads(line[7:])
    name = "c07-pool-equals-sequential-bounded"
    if res is None:
        # the real entry points could not even be driven (signature / protocol of the pool changed, crash): the claim
        # "parallel == sequential" cannot be observed any more -- refuted, with the error as witness
        return [{"name": name, "kind": "bounded", "verdict": "refuted", "tool": "cpython differential", "budget": "-", "cases": 0,
                 "note": "the differential run failed: " + (p.stderr or p.stdout)[-600:], "witness_confirmed": True,
                 "model_inputs": {"stderr": (p.stderr or "")[-1500:]}, "ms": round((time.time() - t0) * 1000)}]
    bad = res["bad"]
    return [{"name": name, "kind": "bounded", "verdict": "passed" if not bad else "refuted", "tool": "cpython differential",
             "budget": "workers 1..3 x file counts 2w-1 .. 3w+1, 2 configurations; 8 py/ts/js/rs files x 2 per-language override "
                       "configurations x 3 orders x 2 worker counts; 14 invalid configurations", "cases": len(res["cases"]),
             "note": "" if not bad else f"parallel != sequential: {bad[:2]}", "witness_confirmed": bool(bad),
             "model_inputs": {"disagreements": bad} if bad else None, "ms": round((time.time() - t0) * 1000)}]


# ------------------------------------------------------------------------------------------ exceptions across the process boundary
_EXC_PICKLE = r'''
import ast, importlib, inspect, json, os, pickle, pkgutil, sys
repo = os.environ["VERIF_REPO"]
sys.path.insert(0, repo)
import builtins
BUILTIN_EXC = {n for n, o in vars(builtins).items() if isinstance(o, type) and issubclass(o, BaseException)}
# 1. syntactically: every class under src/ whose bases look like exception classes (fixed point over names)
declared = {}
trees = []
for root, _, names in os.walk(os.path.join(repo, "src")):
    for n in names:
        if n.endswith(".py"):
            path = os.path.join(root, n)
            try:
                trees.append((os.path.relpath(path, repo), ast.parse(open(path, encoding="utf-8").read())))
            except SyntaxError:
                pass
exc_names = set(BUILTIN_EXC)
changed = True
while changed:
    changed = False
    for rel, tree in trees:
        for c in ast.walk(tree):
            if isinstance(c, ast.ClassDef):
                bases = {b.id if isinstance(b, ast.Name) else getattr(b, "attr", "") for b in c.bases}
                if bases & exc_names and c.name not in exc_names:
                    exc_names.add(c.name)
                    changed = True
                if bases & exc_names:
                    declared[f"{rel[:-3].replace('/', '.')}.{c.name}"] = rel
# 2. natively: import, build one instance per class from its constructor signature, round-trip it through pickle
found, out = {}, []
import src
for m in pkgutil.walk_packages(src.__path__, "src."):
    try:
        mod = importlib.import_module(m.name)
    except BaseException:
        continue
    for n, c in list(vars(mod).items()):
        if inspect.isclass(c) and issubclass(c, BaseException) and c.__module__ == mod.__name__:
            found[f"{c.__module__}.{c.__qualname__}"] = c
for name in sorted(set(declared) | set(found)):
    c = found.get(name)
    if c is None:
        out.append({"cls": name, "ok": None, "why": "declared in the source but not importable as a module-level class"})
        continue
    try:
        try:
            sig = inspect.signature(c)
        except ValueError:
            sig = None  # no constructor of its own: Exception's (*args)
        params = [] if sig is None else [p for p in sig.parameters.values()
                                          if p.kind in (p.POSITIONAL_ONLY, p.POSITIONAL_OR_KEYWORD) and p.default is p.empty]
        args = [f"value{i}" for i, _ in enumerate(params)] or ["message"]
        e = c(*args)
    except BaseException as ex:
        out.append({"cls": name, "ok": None, "why": f"cannot construct: {ex!r}"[:200]})
        continue
    try:
        e2 = pickle.loads(pickle.dumps(e))
        same = type(e2) is type(e) and e2.args == e.args and str(e2) == str(e) and vars(e2) == vars(e)
        out.append({"cls": name, "ok": bool(same), "why": "" if same else f"round trip changed the exception: {e!r} -> {e2!r}"[:200]})
    except BaseException as ex:
        out.append({"cls": name, "ok": False, "why": f"pickle round trip fails: {ex!r}"[:300], "args": args})
print("RESULT=" + json.dumps(out))
'''


@custom("c07-exceptions-cross-the-process-boundary", props=["C07"])
def c07_exception_pickling(ctx):
    """Errors travel from a worker to the parent by pickling (concurrent.futures): an exception class whose constructor
    signature does not match what it stores in `.args` cannot be rebuilt in the parent -- the pool breaks and the
    parallel run no longer ends like the sequential one. Function contracts cannot see this (the pool is trusted), so
    the obligation is checked per class: every exception class defined under src/ (found syntactically, then imported)
    is instantiated from its constructor signature and must survive pickle.loads(pickle.dumps(e)) unchanged (type, args,
    message, attributes). One obligation per class; a class that cannot be imported / constructed is UNDECIDED."""
    import json
    import os
    import subprocess
    import sys
    p = subprocess.run([sys.executable, "-c", _EXC_PICKLE], capture_output=True, text=True, timeout=600,
                       env=dict(os.environ, VERIF_REPO=ctx["repo"], PYTHONWARNINGS="ignore"), cwd="/tmp")
    res = None
    for line in p.stdout.splitlines():
        if line.startswith("RESULT="):
            res = json.loads(line[7:])
    if res is None:
        return [{"name": "c07-exceptions-cross-the-process-boundary/classes", "kind": "structural", "verdict": "unknown", "solver": "cpython",
                 "ms": 0.0, "note": "enumeration failed: " + (p.stderr or p.stdout)[-400:]}]
    obs = [{"name": "c07-exceptions-cross-the-process-boundary/classes", "kind": "structural", "solver": "ast+cpython", "ms": 0.0,
            "verdict": "discharged" if len(res) >= 1 else "refuted", "note": f"{len(res)} exception classes defined under src/"}]
    for r in res:
        obs.append({"name": f"c07-exceptions-cross-the-process-boundary/{r['cls']}", "kind": "structural", "solver": "cpython pickle round trip",
                    "ms": 0.0, "verdict": "discharged" if r["ok"] else ("unknown" if r["ok"] is None else "refuted"), "note": r["why"],
                    "witness_confirmed": r["ok"] is False, "model_inputs": {"class": r["cls"], "reason": r["why"]} if r["ok"] is False else None})
    return obs
