"""C08 -- BOUNDED checks at the property's observation points (never counted as proved).

For small real projects with every cross-file feature switched on (duplicate code, duplicate constants with fuzzy name
chains, stringly-typed), the multiset of violations must be the same
  (a) for every ORDER of the file list (all permutations of 3-4 files),
  (b) for two interpreter HASH SEEDS (sub-processes with PYTHONHASHSEED=1 / 2),
  (c) on a SECOND call of the same Orchestrator object (all rules), and a used object must answer a later call on a
      subset of the files exactly like a fresh one (history independence; fixed defect C08-dry-finalize-keeps-evidence),
Half of the projects are MULTI-LANGUAGE (.py / .ts / .rs) under a configuration with per-language override sections
(srp, magic_numbers, nesting), so that a reader that rewrites the shared configuration while serving one language
changes the verdicts of the other languages' files depending on order / history.
A run must also leave the project directory untouched and no temporary files behind (both DRY storage modes)."""
from pyvc.api import custom

_BLOCK = ("    total = 0\n    for item in items:\n        if item.value > threshold:\n            total += item.value * factor\n"
          "        else:\n            total -= item.value / factor\n    result = transform(total, mode=\"fast\")\n"
          "    return finalize_result(result, items)\n")
_CONST_NAMES = ["DEFAULT_TIMEOUT", "DEFAULT_TIMEOUT_S", "DEFAUL_TIMEOUT", "MAX_RETRY_COUNT", "MAX_RETRY_COUNTS", "API_BASE_URL"]
_CONFIG = {"dry": {"enabled": True, "min_duplicate_lines": 3, "detect_duplicate_constants": True, "min_constant_occurrences": 2,
                   "storage_mode": "memory"},
           "stringly_typed": {"enabled": True}}


# ---- multi-language projects with per-language override sections (every linter that documents language sections)
_ML_CONFIG = {
    "srp": {"max_methods": 5, "max_loc": 200, "python": {"max_methods": 2}},
    "magic_numbers": {"allowed_numbers": [0, 1], "max_small_integer": 10, "python": {"allowed_numbers": [0, 1, 4242]},
                      "typescript": {"max_small_integer": 20}},
    "nesting": {"max_nesting_depth": 4, "python": {"max_nesting_depth": 2}, "typescript": {"max_nesting_depth": 3}},
    "dry": {"enabled": False},
}
_ML_PY = ("class Store:\n    def a(self):\n        return 4242\n\n    def b(self):\n        return [i for i in range(15)]\n\n"
          "    def c(self, x, y):\n        if x:\n            if y:\n                if x > y:\n                    return 77\n        return 0\n")
_ML_TS = ("export class Widget {\n  a(): number { return 4242; }\n  b(): number[] { return Array(15).fill(0); }\n"
          "  c(x: number, y: number): number {\n    if (x) {\n      if (y) {\n        if (x > y) {\n          if (x > 2 * y) {\n"
          "            return 77;\n          }\n        }\n      }\n    }\n    return 0;\n  }\n  d(): number { return 15; }\n}\n")
_ML_RS = ("pub fn work(x: i32, y: i32) -> i32 {\n    if x > 0 {\n        if y > 0 {\n            if x > y {\n                return 4242;\n"
          "            }\n        }\n    }\n    15\n}\n")


def _file_text(rng, i):
    consts = rng.sample(_CONST_NAMES, rng.randint(1, 2))
    txt = f'"""module {i}"""\n\n' + "".join(f"{c} = 30\n" for c in consts) + "\n\n"
    txt += f"def work_{i}(items, threshold, factor):\n" + _BLOCK + "\n\n"
    txt += f"def check_{i}(env):\n    if env in (\"staging\", \"production\", \"development\", \"testing\", \"qa\"):\n        return 3.14159 * 4242\n    return 0\n"
    return txt


def _key(vs, root, full_constant_messages=False):
    import collections
    import os
    import re
    c = collections.Counter()
    for v in vs:
        names = tuple(sorted(set(re.findall(r"'([A-Z][A-Z_0-9]+)'", v.message)))) if v.rule_id.startswith("dry") else ()
        msg = v.message.replace(root, "<root>")
        if v.rule_id.startswith("dry") and names and not full_constant_messages:
            msg = ""  # duplicate-constant messages list the names in discovery order: recorded finding C08-dry-constant-message-order
        c[(v.rule_id, os.path.relpath(str(v.file_path), root), v.line, v.column, names, msg)] += 1
    return c


def _snapshot(root):
    import os
    out = {}
    for dp, dn, fn in os.walk(root):
        for f in fn:
            p = os.path.join(dp, f)
            st = os.stat(p)
            out[os.path.relpath(p, root)] = (st.st_size, st.st_mtime_ns)
        for d in dn:
            out[os.path.relpath(os.path.join(dp, d), root) + "/"] = None
    return out


_SUBPROCESS = r'''
import json, sys, os, re, collections
sys.path.insert(0, sys.argv[1])
from pathlib import Path
from src.orchestrator.core import Orchestrator
root = sys.argv[2]; cfg = json.loads(sys.argv[3]); files = json.loads(sys.argv[4])
vs = Orchestrator(project_root=Path(root), config=cfg).lint_files([Path(root) / f for f in files])
c = collections.Counter()
for v in vs:
    names = tuple(sorted(set(re.findall(r"'([A-Z][A-Z_0-9]+)'", v.message)))) if v.rule_id.startswith("dry") else ()
    msg = v.message.replace(root, "<root>")
    if v.rule_id.startswith("dry") and names:
        msg = ""
    c[json.dumps([v.rule_id, os.path.relpath(str(v.file_path), root), v.line, v.column, names, msg])] += 1
print(json.dumps(sorted(c.items())))
'''


@custom("c08-order-history-effects-bounded", props=["C08"])
def order_history_effects_bounded(ctx):
    import copy
    import gc
    import itertools
    import json
    import os
    import pathlib
    import random
    import shutil
    import subprocess
    import sys
    import tempfile
    n = 4 if ctx.get("tier", "quick") == "quick" else 40
    rng = random.Random(15485863 * int(ctx.get("seed", 0)) + 8)
    name = "custom:c08-order-history-effects-bounded/permutations-hashseeds-second-call-side-effects"
    from pyvc import native as _native
    _native._ensure_repo_on_path()
    repo = _native.repo_root()
    base = tempfile.mkdtemp(prefix="c08ord_")
    old_tmp = tempfile.tempdir
    cases = 0

    def bad(what, witness):
        return [dict(name=name, kind="bounded", verdict="refuted", carries=True, tool="native runs on small real projects", cases=cases,
                     budget=f"{n} projects", witness_confirmed=True, witness=witness, note=f"{what}: {witness}"[:900])]
    try:
        try:
            from loguru import logger as _lg
            _lg.remove()
        except BaseException:  # noqa
            pass
        from src.orchestrator.core import Orchestrator
        from src.linter_config.ignore import clear_ignore_parser_cache
        dry_seen = const_seen = ml_seen = 0
        for i in range(n):
            root = os.path.join(base, f"p{i}")
            os.mkdir(root)
            k = rng.randint(3, 4)
            texts = {f"m{j}.py": _file_text(rng, j) for j in range(k)}
            if i == 0:  # a fuzzy-match chain whose hub is seen first / in the middle / last depending on the order
                texts = {"alpha.py": '"""alpha"""\n\nDEFAULT_TIMEOUT = 30\n', "beta.py": '"""beta"""\n\nDEFAULT_TIMEOUT_S = 30\n',
                         "gamma.py": '"""gamma"""\n\nDEFAUL_TIMEOUT = 30\n'}
            multi_language = (i % 2 == 1)
            if multi_language:  # files of several languages under a config with per-language override sections
                texts = {"models.py": _ML_PY, "widget.ts": _ML_TS, "core.rs": _ML_RS, "extra.py": _ML_PY.replace("Store", "Extra")}
            for fn, tx in texts.items():
                pathlib.Path(root, fn).write_text(tx, encoding="utf-8")
            files = sorted(texts)
            private_tmp = os.path.join(base, f"tmp{i}")
            os.mkdir(private_tmp)
            tempfile.tempdir = private_tmp
            ref = None
            for mode in (("memory", "tempfile") if not multi_language else ("memory",)):
                cfg = json.loads(json.dumps(_ML_CONFIG if multi_language else _CONFIG))
                cfg["dry"]["storage_mode"] = mode
                ml_seen += multi_language
                perms = list(itertools.permutations(files)) if mode == "memory" else [tuple(files), tuple(reversed(files))]
                for perm in perms:
                    clear_ignore_parser_cache()
                    before = _snapshot(root)
                    o = Orchestrator(project_root=pathlib.Path(root), config=copy.deepcopy(cfg))
                    got = _key(o.lint_files([pathlib.Path(root) / f for f in perm]), root)
                    cases += 1
                    dry_seen += any(k[0] == "dry.duplicate-code" for k in got)
                    const_seen += any(k[0].startswith("dry") and k[3] for k in got)
                    if ref is None:
                        ref = (perm, got)
                    elif got != ref[1]:
                        return bad("the violations depend on the ORDER of the file list / the DRY storage mode",
                                   {"files": {f: texts[f][:80] for f in files}, "order_a": ref[0], "order_b": perm, "storage_mode": mode,
                                    "only_a": sorted(map(str, (ref[1] - got).keys())), "only_b": sorted(map(str, (got - ref[1]).keys()))})
                    # (c) second call on the same object: every rule, cross-file rules included (finalize() re-establishes
                    # Clean); then a call on a SUBSET of the files must equal a fresh object's answer for that subset
                    again = _key(o.lint_files([pathlib.Path(root) / f for f in perm]), root)
                    if again != got:
                        return bad("a second call on the same Orchestrator differs from the first",
                                   {"order": perm, "first_only": sorted(map(str, (got - again).keys())),
                                    "second_only": sorted(map(str, (again - got).keys()))})
                    subset = [pathlib.Path(root) / f for f in perm[:-1]]
                    used = _key(o.lint_files(subset), root)
                    fresh = _key(Orchestrator(project_root=pathlib.Path(root), config=copy.deepcopy(cfg)).lint_files(subset), root)
                    cases += 1
                    if used != fresh:
                        return bad("an Orchestrator that was used before answers differently from a fresh one (history dependence)",
                                   {"first_call": perm, "second_call": perm[:-1], "used_only": sorted(map(str, (used - fresh).keys())),
                                    "fresh_only": sorted(map(str, (fresh - used).keys()))})
                    del o
                    gc.collect()
                    after = _snapshot(root)
                    if after != before:
                        return bad("a lint run changed the project directory",
                                   {"added_or_changed": sorted(k for k in after if before.get(k, 0) != after[k]),
                                    "removed": sorted(k for k in before if k not in after)})
                    left = sorted(os.listdir(private_tmp))
                    if left:
                        return bad("a lint run left temporary files behind", {"storage_mode": mode, "leftovers": left[:5]})
            # (d) files EDITED between two calls on the same object are judged by their new state: a .py file whose content
            # changes, an extension-less script whose shebang changes language, a file that appears, a file that goes
            if not multi_language:
                cfg = json.loads(json.dumps(_CONFIG))
                script = pathlib.Path(root, "tool")
                late = pathlib.Path(root, "late")
                script.write_text("#!/bin/sh\necho 4242\n", encoding="utf-8")
                late.write_text("", encoding="utf-8")
                targets = [pathlib.Path(root) / f for f in files] + [script, late]
                clear_ignore_parser_cache()
                o = Orchestrator(project_root=pathlib.Path(root), config=copy.deepcopy(cfg))
                first = _key(o.lint_files(targets), root)
                script.write_text("#!/usr/bin/env python3\ndef planted():\n    return 3.14159 * 4242\n", encoding="utf-8")
                late.write_text("#!/usr/bin/env python\ndef later():\n    return 2.71828 * 777\n", encoding="utf-8")
                edited = pathlib.Path(root) / files[0]
                edited.write_text(edited.read_text(encoding="utf-8") + "\n\ndef added():\n    return 1234567\n", encoding="utf-8")
                second = _key(o.lint_files(targets), root)
                # oracle: a FRESH PROCESS on the edited files (a fresh object in this process would share process-level caches)
                pr = subprocess.run([sys.executable, "-c", _SUBPROCESS, repo, root, json.dumps(cfg),
                                     json.dumps([os.path.relpath(str(t), root) for t in targets])],
                                    capture_output=True, text=True, timeout=120, env=dict(os.environ, TMPDIR=private_tmp))
                if pr.returncode != 0:
                    raise RuntimeError("sub-process failed: " + pr.stderr[-300:])
                fresh = sorted((k, v) for k, v in json.loads(pr.stdout.strip().splitlines()[-1]))
                mine = sorted((json.dumps([k[0], k[1], k[2], k[3], list(k[4]), k[5]]), v) for k, v in second.items())
                cases += 3
                if not any('"tool"' in k for k, _ in fresh) or not any('"late"' in k for k, _ in fresh):
                    raise RuntimeError("edit scenario too weak: the rewritten scripts carry no violation in a fresh process")
                if mine != fresh:
                    return bad("files edited between two calls on the same Orchestrator are not judged by their new state",
                               {"edited": ["tool: sh -> python shebang", "late: empty -> python shebang", files[0] + ": function added"],
                                "same_object_only": [k for k, _ in mine if (k, _) not in fresh][:6],
                                "fresh_process_only": [k for k, _ in fresh if (k, _) not in mine][:6]})
                for pth in (script, late):
                    pth.unlink()
                del o
                gc.collect()
            # (e) two long-lived objects in one process (editor / daemon with two workspaces): A is built, then B for another
            # project whose repository patterns would also match files of A, then A lints for the first time
            if not multi_language:
                rootb = os.path.join(base, f"other{i}")
                os.mkdir(rootb)
                pathlib.Path(rootb, ".thailintignore").write_text("*_pb2.py\n" + "\n".join(files) + "\n", encoding="utf-8")
                pathlib.Path(rootb, "b.py").write_text(_file_text(rng, 99), encoding="utf-8")
                pb2 = pathlib.Path(root, "gen_pb2.py")
                pb2.write_text("def planted_pb2():\n    return 3.14159 * 4242\n", encoding="utf-8")
                cfg = json.loads(json.dumps(_CONFIG))
                targets = [pathlib.Path(root) / f for f in files] + [pb2]
                clear_ignore_parser_cache()
                oa = Orchestrator(project_root=pathlib.Path(root), config=copy.deepcopy(cfg))
                ob = Orchestrator(project_root=pathlib.Path(rootb), config=copy.deepcopy(cfg))
                got_a = _key(oa.lint_files(targets), root)
                ob.lint_files([pathlib.Path(rootb) / "b.py"])
                pr = subprocess.run([sys.executable, "-c", _SUBPROCESS, repo, root, json.dumps(cfg),
                                     json.dumps([os.path.relpath(str(t), root) for t in targets])],
                                    capture_output=True, text=True, timeout=120, env=dict(os.environ, TMPDIR=private_tmp))
                if pr.returncode != 0:
                    raise RuntimeError("sub-process failed: " + pr.stderr[-300:])
                fresh = sorted((k, v) for k, v in json.loads(pr.stdout.strip().splitlines()[-1]))
                mine = sorted((json.dumps([k[0], k[1], k[2], k[3], list(k[4]), k[5]]), v) for k, v in got_a.items())
                cases += 2
                if mine != fresh:
                    return bad("a Linter/Orchestrator built before ANOTHER project's one answers with the other project's state",
                               {"sequence": ["A = Orchestrator(root A)", "B = Orchestrator(root B, .thailintignore: *_pb2.py + A's file names)",
                                             "A.lint_files(...)"],
                                "A_only": [k for k, _ in mine if (k, _) not in fresh][:6],
                                "fresh_process_only": [k for k, _ in fresh if (k, _) not in mine][:6]})
                pb2.unlink()
                del oa, ob
                gc.collect()
                shutil.rmtree(rootb, ignore_errors=True)
            # (b) hash seeds
            outs = []
            for hs in ("1", "2"):
                env = dict(os.environ, PYTHONHASHSEED=hs, TMPDIR=private_tmp)
                p = subprocess.run([sys.executable, "-c", _SUBPROCESS, repo, root,
                                    json.dumps(_ML_CONFIG if multi_language else _CONFIG), json.dumps(files)],
                                   capture_output=True, text=True, timeout=120, env=env)
                if p.returncode != 0:
                    raise RuntimeError("sub-process failed: " + p.stderr[-300:])
                outs.append(p.stdout.strip().splitlines()[-1])
                cases += 1
            if outs[0] != outs[1]:
                return bad("the violations depend on PYTHONHASHSEED", {"files": files, "seed1": outs[0][:300], "seed2": outs[1][:300]})
            tempfile.tempdir = old_tmp
            shutil.rmtree(root, ignore_errors=True)
        if dry_seen == 0 or const_seen == 0 or ml_seen == 0:
            return [dict(name=name, kind="bounded", verdict="unknown", carries=True, tool="native runs", cases=cases,
                         note=f"generator too weak: runs with duplicate-code findings {dry_seen}, with duplicate-constant findings {const_seen}")]
    except BaseException as e:  # noqa
        import traceback
        return [dict(name=name, kind="bounded", verdict="unknown", carries=True, tool="native runs", cases=cases,
                     note=f"harness error: {e!r} {traceback.format_exc()[-400:]}"[:700])]
    finally:
        tempfile.tempdir = old_tmp
        shutil.rmtree(base, ignore_errors=True)
        try:
            from src.linter_config.ignore import clear_ignore_parser_cache as _c
            _c()
        except BaseException:  # noqa
            pass
    return [dict(name=name, kind="bounded", verdict="passed", carries=True, tool="native runs on small real projects (tempfile.mkdtemp, removed)",
                 budget=f"{n} projects x all permutations (memory) / 2 orders (tempfile) + 2 hash seeds, seed {ctx.get('seed', 0)}",
                 cases=cases, note=f"{cases} runs: same multiset for every order, storage mode and hash seed; a used object answers like a fresh "
                                   f"one; project directory untouched; no temporary files left")]



@custom("c08-constant-message-order-bounded", props=["C08"])
def constant_message_order_bounded(ctx):
    """BOUNDED, property-level: the FULL violations (message text included) of the duplicate-constant detection are the same
    for every order of the file list. EXPECTED TO FAIL (C08-dry-constant-message-order): the message enumerates the similar
    names and the other locations in discovery order. The main bounded check compares these messages by their name SET."""
    import copy
    import itertools
    import os
    import pathlib
    import shutil
    import tempfile
    name = "custom:c08-constant-message-order-bounded/duplicate-constant-messages"
    from pyvc import native as _native
    _native._ensure_repo_on_path()
    base = tempfile.mkdtemp(prefix="c08msg_")
    try:
        from src.orchestrator.core import Orchestrator
        texts = {"alpha.py": '"""alpha"""\n\nDEFAULT_TIMEOUT = 30\n', "beta.py": '"""beta"""\n\nDEFAULT_TIMEOUT_S = 30\n',
                 "gamma.py": '"""gamma"""\n\nDEFAUL_TIMEOUT = 30\n'}
        for fn, tx in texts.items():
            pathlib.Path(base, fn).write_text(tx, encoding="utf-8")
        ref = None
        for perm in itertools.permutations(sorted(texts)):
            got = _key(Orchestrator(project_root=pathlib.Path(base), config=copy.deepcopy(_CONFIG)).lint_files(
                [pathlib.Path(base) / f for f in perm]), base, full_constant_messages=True)
            if ref is None:
                ref = (perm, got)
            elif got != ref[1]:
                w = {"order_a": ref[0], "order_b": perm, "only_a": sorted(map(str, (ref[1] - got).keys()))[:2],
                     "only_b": sorted(map(str, (got - ref[1]).keys()))[:2]}
                return [dict(name=name, kind="bounded", verdict="refuted", carries=True, tool="native runs", cases=6, witness_confirmed=True,
                             budget="3 files, all orders", witness=w, note=f"message text depends on the file order: {w}"[:900])]
    except BaseException as e:  # noqa
        return [dict(name=name, kind="bounded", verdict="unknown", carries=True, tool="native runs", note=f"harness error {e!r}"[:300])]
    finally:
        shutil.rmtree(base, ignore_errors=True)
    return [dict(name=name, kind="bounded", verdict="passed", carries=True, tool="native runs", cases=6, budget="3 files, all orders",
                 note="duplicate-constant messages are identical for every order of the file list")]


@custom("c08-ignore-parser-root-bounded", props=["C08", "C09", "C14"])
def ignore_parser_root_bounded(ctx):
    """BOUNDED (get_ignore_parser uses `global`, outside the verified subset): over ALL call sequences of length <= 3 drawn
    from {get(A), get(B), get(None) with cwd A, get(None) with cwd B} the returned parser belongs to the requested project:
    its root is the given root, or the working directory when none is given -- never another project's -- and its
    patterns are that root's patterns. (The recorded finding C08-ignore-parser-singleton-stale is about a root whose ignore
    file CHANGES; here the files are fixed, so this clause is exact on the unchanged tree.)"""
    import itertools
    import os
    import pathlib
    import shutil
    import tempfile
    name = "custom:c08-ignore-parser-root-bounded/parser-belongs-to-the-requested-root"
    from pyvc import native as _native
    _native._ensure_repo_on_path()
    base = tempfile.mkdtemp(prefix="c08root_")
    cwd0 = os.getcwd()
    cases = 0
    try:
        from src.linter_config.ignore import clear_ignore_parser_cache, get_ignore_parser
        roots = {}
        for nm, pat in (("A", "vendor/\n*_pb2.py\n"), ("B", "generated/\n")):
            r = os.path.realpath(os.path.join(base, nm))
            os.mkdir(r)
            pathlib.Path(r, ".thailintignore").write_text(pat, encoding="utf-8")
            roots[nm] = r
        want = {"A": ["vendor/", "*_pb2.py"], "B": ["generated/"]}
        actions = [("A", "A"), ("B", "B"), (None, "A"), (None, "B")]  # (root argument, working directory)
        for k, rel_spelling in ((1, False), (2, False), (3, False), (1, True), (2, True)):
            for seq in itertools.product(actions, repeat=k):
                if rel_spelling and len({c for _a, c in seq}) > 1:
                    continue  # relative roots across a chdir: recorded finding C08-ignore-parser-relative-root-key (separate check)
                clear_ignore_parser_cache()
                for arg, cwd in seq:
                    os.chdir(roots[cwd])
                    given = pathlib.Path(roots[arg]) if arg else None
                    if arg and rel_spelling:
                        given = pathlib.Path(os.path.relpath(roots[arg]))  # the root spelled relative to the working directory
                    p = get_ignore_parser(given)
                    exp = arg or cwd
                    cases += 1
                    # the parser's root is THE GIVEN root, as given: callers relativise their (equally spelled) file paths
                    # against it with Path.relative_to, which is purely lexical
                    same_spelling = given is None or str(p.project_root) == str(given)
                    if not same_spelling or os.path.realpath(str(p.project_root)) != roots[exp] or list(p.repo_patterns) != want[exp]:
                        w = {"sequence": [f"get_ignore_parser({'root ' + a if a else 'None'}) in cwd {c}" for a, c in seq],
                             "returned_root": str(p.project_root) if not same_spelling else os.path.basename(os.path.realpath(str(p.project_root))),
                             "given_root": str(given), "expected_root": exp,
                             "returned_patterns": list(p.repo_patterns)}
                        return [dict(name=name, kind="bounded", verdict="refuted", carries=True, tool="native call sequences", cases=cases,
                                     budget="all sequences of length <= 3 over 4 actions", witness_confirmed=True, witness=w,
                                     note=f"the parser handed out belongs to another project: {w}"[:900])]
    except BaseException as e:  # noqa
        return [dict(name=name, kind="bounded", verdict="unknown", carries=True, tool="native call sequences", cases=cases,
                     note=f"harness error {e!r}"[:300])]
    finally:
        os.chdir(cwd0)
        shutil.rmtree(base, ignore_errors=True)
        try:
            from src.linter_config.ignore import clear_ignore_parser_cache as _c
            _c()
        except BaseException:  # noqa
            pass
    return [dict(name=name, kind="bounded", verdict="passed", carries=True, tool="native call sequences", cases=cases,
                 budget="all sequences of length <= 3 over {get(A), get(B), get(None)@A, get(None)@B}",
                 note=f"{cases} calls: the returned parser always belongs to the requested root (or the working directory)")]



@custom("c08-ignore-parser-relative-root-bounded", props=["C08", "C09", "C14"])
def ignore_parser_relative_root_bounded(ctx):
    """BOUNDED, property-level: a RELATIVELY spelled project root means the directory it names NOW. Two projects, each
    asked for with the root spelled `.` from inside it (chdir in between): each must get its own parser.
    EXPECTED TO FAIL (C08-ignore-parser-relative-root-key): the singleton is keyed by the root's spelling, not by the
    directory it denotes."""
    import os
    import pathlib
    import shutil
    import tempfile
    name = "custom:c08-ignore-parser-relative-root-bounded/dot-root-after-chdir"
    from pyvc import native as _native
    _native._ensure_repo_on_path()
    base = os.path.realpath(tempfile.mkdtemp(prefix="c08rel_"))
    cwd0 = os.getcwd()
    try:
        from src.linter_config.ignore import clear_ignore_parser_cache, get_ignore_parser
        for nm, pat in (("A", "vendor/\n"), ("B", "generated/\n")):
            os.mkdir(os.path.join(base, nm))
            pathlib.Path(base, nm, ".thailintignore").write_text(pat, encoding="utf-8")
        clear_ignore_parser_cache()
        os.chdir(os.path.join(base, "A"))
        pa = list(get_ignore_parser(pathlib.Path(".")).repo_patterns)
        os.chdir(os.path.join(base, "B"))
        pb = list(get_ignore_parser(pathlib.Path(".")).repo_patterns)
        if pa != ["vendor/"] or pb != ["generated/"]:
            w = {"sequence": ["cwd A: get_ignore_parser(Path('.'))", "cwd B: get_ignore_parser(Path('.'))"], "patterns_in_A": pa, "patterns_in_B": pb}
            return [dict(name=name, kind="bounded", verdict="refuted", carries=True, tool="native call sequence", cases=2,
                         witness_confirmed=True, witness=w, note=f"project B is handed project A's parser: {w}")]
    except BaseException as e:  # noqa
        return [dict(name=name, kind="bounded", verdict="unknown", carries=True, tool="native call sequence", note=f"harness error {e!r}"[:300])]
    finally:
        os.chdir(cwd0)
        shutil.rmtree(base, ignore_errors=True)
        try:
            from src.linter_config.ignore import clear_ignore_parser_cache as _c
            _c()
        except BaseException:  # noqa
            pass
    return [dict(name=name, kind="bounded", verdict="passed", carries=True, tool="native call sequence", cases=2,
                 note="each project gets its own parser for the root spelled `.`")]
